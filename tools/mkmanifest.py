#!/venv/bin/python
"""Regenerates /verif/MANIFEST.json from the per-property modules that exist in vf/props and
validates it against the schema.  A property without a module is listed under not_applicable
with the reason 'check not built yet' (kept current while the framework grows)."""
import importlib
import json
import os
import sys

VERIF = os.path.dirname(os.path.dirname(os.path.abspath(__file__)))
sys.path.insert(0, VERIF)

BASELINE = json.load(open("/root/.vp/BASELINE.json"))
props = [json.loads(l) for l in open(os.path.join(VERIF, "properties.jsonl"))]

hook_commits = []
hp = os.path.join(VERIF, "hooks_commits.txt")
if os.path.exists(hp):
    hook_commits = [l.split()[0] for l in open(hp) if l.strip()]

checks = []
na = []
engines = {}
for p in props:
    pid = p["id"]
    path = os.path.join(VERIF, "vf", "props", pid.lower() + ".py")
    if not os.path.exists(path):
        na.append(dict(property_id=pid, reason="check not built yet in this framework (planned in DESIGN.md section 4)"))
        continue
    src = open(path).read()
    # META is a literal-ish dict; import needs hypothesis only
    mod = importlib.import_module(f"vf.props.{pid.lower()}")
    meta = mod.META
    checks.append(
        dict(
            property_id=pid,
            quick_cmd=f"./check {pid} --tier quick",
            thorough_cmd=f"./check {pid} --tier thorough",
            evidence_file=f"evidence/{pid}.json",
            replay_cmd_template=f"./check {pid} --replay {{path}}",
            engine=meta.get("engine") or (meta.get("engines") or ["hypothesis-runner"])[0],
            level_claimed=dict(
                category=meta.get("level", "exploration"),
                text=meta.get("level_text", "")
                or ("Fault enumeration over generated files plus sampled data faults: "
                    if meta.get("level") == "fault_enumeration"
                    else "Exploration: generated-input search against an explicit oracle; holds on every "
                    "generated case within the stated size bounds, exhaustive only on the named small scopes. ")
                + " ".join(meta.get("rule", "").split())[:900]
                + " Sub-checks: " + ", ".join(s.name for s in mod.SUBCHECKS if s.budget("quick") > 0) + ".",
                design_ref=f"DESIGN.md section 4 ({pid}) and section 9 (as built)",
            ),
            level_note="; ".join(meta.get("assumptions", [])) or "reference model vf/model.py",
            technique=meta.get("technique", "property-based testing (Hypothesis) against a reference model"),
        )
    )
    for e in meta.get("engines", ["hypothesis-runner"]):
        engines.setdefault(e, []).append(pid)

ENGINE_INFO = {
    "hypothesis-runner": ("vf/runner.py", "Hypothesis strategies sharded over 16 worker processes, seeded from VERIF_SEED, shrinking to a JSON replay file"),
    "stateful-histories": ("vf/props", "operation-sequence generation (model-based): histories are lists of generated operations interpreted against the real object and a reference model"),
    "exhaustive-small-scope": ("vf/props", "itertools enumeration of finite small scopes"),
    "byte-fault-enumerator": ("vf/props/c10.py", "truncation at every offset and structural byte substitution enumeration"),
    "asan-subprocess-driver": ("vf/build.py", "ASan+UBSan build of the extension; worker subprocesses with a per-case journal so that a death is attributed to one case"),
    "libfuzzer-load-target": ("vf/fuzz", "libFuzzer target over tsk_table_collection_loadf"),
    "atheris-coverage": ("vf/fuzz", "atheris coverage-guided fuzzing of Python codecs"),
}
manifest = dict(
    version=1,
    setup_cmd="./check --setup",
    hooks=dict(
        guard="TSKIT_VERIF",
        enable="TSKIT_VERIF=1 ./check <ID> ... (the runner always exports TSKIT_VERIF=1 and compiles /repo's C sources with -DTSKIT_VERIF_HOOKS into /verif/.cache; hooks stay inert until armed by their own run-time variable)",
        baseline_off_cmd=BASELINE["cmd"].replace("--junitxml=<file>", "").strip(),
        source_commits=hook_commits,
        add_only=True,
    ),
    engines=[
        dict(name=k, path=ENGINE_INFO.get(k, ("vf", ""))[0], serves_properties=v,
             kind_free_text=ENGINE_INFO.get(k, ("", k))[1])
        for k, v in sorted(engines.items())
    ],
    checks=checks,
    notes="All checks build _tskit from /repo's current working tree into /verif/.cache/<flavour>-<hash> and refuse to run against the site-packages wheel. Exit 0 held / 1 VIOLATION / 2 harness error.",
    not_applicable=na,
)
out = os.path.join(VERIF, "MANIFEST.json")
json.dump(manifest, open(out, "w"), indent=1)
import jsonschema

jsonschema.validate(manifest, json.load(open("/root/.vp/MANIFEST.schema.json")))
print(f"MANIFEST.json: {len(checks)} checks, {len(na)} not_applicable; schema ok")
