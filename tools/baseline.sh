#!/bin/sh
# Runs the pinned suite (guard off) and compares with BASELINE.json stable_pass.
out=${1:-/var/tmp/vf-baseline.xml}
cd /repo && env -u TSKIT_VERIF /venv/bin/python -m pytest -ra -q -p no:cacheprovider --timeout=900 --continue-on-collection-errors --junitxml=$out -n 12 > /var/tmp/vf-baseline.log 2>&1
/venv/bin/python - "$out" <<'PY'
import json, sys, xml.etree.ElementTree as ET
base = set(json.load(open('/root/.vp/BASELINE.json'))['stable_pass'])
ok = set()
for tc in ET.parse(sys.argv[1]).getroot().iter('testcase'):
    bad = any(c.tag in ('failure', 'error', 'skipped') for c in tc)
    name = tc.get('classname') + '::' + tc.get('name')
    if not bad:
        ok.add(name)
missing = sorted(base - ok)
print(f"baseline stable_pass={len(base)} passed_now={len(ok)} missing={len(missing)}")
for m in missing[:40]:
    print("  MISSING", m)
PY
