#!/venv/bin/python
"""Robustness sweep: every seeded change whose detection so far relied on generated (seed-dependent) sub-checks
only is run again at another seed (shrinking switched off: only the verdict matters here).  usage: tools/sweep.py SEED [NAME ...]  -> prints the changes NOT flagged."""
import glob
import importlib
import json
import os
import shutil
import subprocess
import sys
import tempfile

VERIF = os.path.dirname(os.path.dirname(os.path.abspath(__file__)))
sys.path.insert(0, VERIF)
seed = sys.argv[1]
only = set(sys.argv[2:])
kinds = {}
for i in range(1, 21):
    m = importlib.import_module(f"vf.props.c{i:02d}")
    for sc in m.SUBCHECKS:
        kinds[sc.name] = sc.kind
missed = []
for mp in sorted(glob.glob(os.path.join(VERIF, "seeded", "C??-?", "meta.json"))):
    meta = json.load(open(mp))
    name = os.path.basename(os.path.dirname(mp))
    if only and name not in only:
        continue
    pid = meta["property"]
    subs = meta.get("checks", {}).get(pid, {}).get("subchecks", [])
    if not subs or not all(kinds.get(s) == "hypothesis" for s in subs):
        continue
    wt = tempfile.mkdtemp(prefix="vfw-", dir="/var/tmp")
    os.rmdir(wt)
    subprocess.check_call(["git", "-C", "/repo", "worktree", "add", "--detach", "-q", wt])
    try:
        patch = os.path.join(os.path.dirname(mp), "patch.diff")
        r = subprocess.run(["git", "-C", wt, "apply", "--whitespace=nowarn", patch], capture_output=True)
        if r.returncode != 0:
            r = subprocess.run(["git", "-C", wt, "apply", "--whitespace=nowarn", "-3", patch], capture_output=True)
        if r.returncode != 0:
            print(name, "PATCH DOES NOT APPLY", flush=True)
            continue
        cmd = [os.path.join(VERIF, "check"), pid, "--tier", "quick"]
        for s in subs:
            cmd += ["--only", s]
        p = subprocess.run(cmd, env=dict(os.environ, VF_REPO=wt, VERIF_SEED=seed, VF_NO_SHRINK="1"), capture_output=True, text=True)
        print(name, "rc=%d" % p.returncode, ",".join(subs), flush=True)
        if p.returncode != 1:
            missed.append(name)
    finally:
        subprocess.call(["git", "-C", "/repo", "worktree", "remove", "--force", wt])
        shutil.rmtree(wt, ignore_errors=True)
print("NOT FLAGGED at seed", seed, ":", missed)
