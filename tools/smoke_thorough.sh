#!/bin/sh
# tools/smoke_thorough.sh [scale] : run every thorough tier at a small scale to make sure it works end to end
cd /verif
scale=${1:-0.02}
for p in $(/venv/bin/python -c "import json; print(' '.join(c['property_id'] for c in json.load(open('MANIFEST.json'))['checks']))"); do
  s=$(date +%s)
  VERIF_SEED=3 ./check $p --tier thorough --scale $scale > /var/tmp/vf-thorough-$p.log 2>&1
  rc=$?
  e=$(date +%s)
  echo "$p rc=$rc $((e-s))s $(grep -E '^\[' /var/tmp/vf-thorough-$p.log | cut -c1-110)"
done
