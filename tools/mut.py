#!/venv/bin/python
"""Sensitivity protocol helper: apply a textual edit (or a patch file) in a scratch worktree of
/repo, run a check against it with VF_REPO pointing there, and remove the worktree.

usage: tools/mut.py <ID> [--only SUB] [--tier quick] (--patch FILE | FILE OLD NEW [FILE OLD NEW ...])
"""
import argparse, os, shutil, subprocess, sys, tempfile

ap = argparse.ArgumentParser()
ap.add_argument("prop")
ap.add_argument("--only", action="append")
ap.add_argument("--tier", default="quick")
ap.add_argument("--patch")
ap.add_argument("--scale", default="1")
ap.add_argument("--count", type=int, default=1, help="which occurrence (1-based), 0 = all")
ap.add_argument("edits", nargs="*")
a = ap.parse_intermixed_args()
wt = tempfile.mkdtemp(prefix="vfm-", dir="/var/tmp")
os.rmdir(wt)
subprocess.check_call(["git", "-C", "/repo", "worktree", "add", "--detach", "-q", wt])
rc = 2
try:
    if a.patch:
        subprocess.check_call(["git", "-C", wt, "apply", os.path.abspath(a.patch)])
    ed = a.edits
    assert len(ed) % 3 == 0
    for i in range(0, len(ed), 3):
        f, old, new = ed[i : i + 3]
        p = os.path.join(wt, f)
        s = open(p).read()
        if old not in s:
            print("EDIT NOT APPLICABLE:", f, old)
            sys.exit(3)
        if a.count == 0:
            s = s.replace(old, new)
        else:
            idx = -1
            for _ in range(a.count):
                idx = s.index(old, idx + 1)
            s = s[:idx] + new + s[idx + len(old):]
        open(p, "w").write(s)
    env = dict(os.environ, VF_REPO=wt)
    cmd = ["/verif/check", a.prop, "--tier", a.tier, "--scale", a.scale]
    for o in a.only or []:
        cmd += ["--only", o]
    rc = subprocess.call(cmd, env=env)
    print("mutant exit:", rc)
finally:
    subprocess.call(["git", "-C", "/repo", "worktree", "remove", "--force", wt])
    shutil.rmtree(wt, ignore_errors=True)
sys.exit(rc)
