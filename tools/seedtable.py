#!/venv/bin/python
"""Markdown table of the independently written breaking changes and which sub-checks flag them."""
import glob, json, os
rows = []
for mp in sorted(glob.glob("/verif/seeded/*/meta.json")):
    m = json.load(open(mp))
    name = os.path.basename(os.path.dirname(mp))
    notes = ""
    np_ = os.path.join(os.path.dirname(mp), "notes.md")
    c = m.get("checks", {}).get(m["property"], {})
    rows.append((name, m.get("demo_rc_unchanged"), m.get("demo_rc_changed"), c.get("rc"), ", ".join(s.split(".", 1)[1] for s in c.get("subchecks", []))))
print("| change | demo unchanged / changed | quick tier exit | flagged by |")
print("|---|---|---|---|")
for r in rows:
    print(f"| {r[0]} | {r[1]} / {r[2]} | {r[3]} | {r[4]} |")
