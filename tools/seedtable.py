#!/venv/bin/python
"""Markdown table of the independently written breaking changes and which sub-checks flag them.
With --write the table at the end of DESIGN.md section 9.5 is replaced."""
import glob
import json
import os
import sys

VERIF = os.path.dirname(os.path.dirname(os.path.abspath(__file__)))
rows = []
bad = []
for mp in sorted(glob.glob(os.path.join(VERIF, "seeded", "C??-?", "meta.json"))):
    m = json.load(open(mp))
    name = os.path.basename(os.path.dirname(mp))
    c = m.get("checks", {}).get(m["property"], {})
    subs = ", ".join(s.split(".", 1)[1] for s in c.get("subchecks", []))
    hist = m.get("history", "")
    note = ("strengthened: " + hist) if hist else ""
    if c.get("rc") != 1 or m.get("demo_rc_unchanged") not in (0, None) or m.get("demo_rc_changed") in (0,):
        bad.append((name, c.get("rc"), m.get("demo_rc_unchanged"), m.get("demo_rc_changed")))
    rows.append(f"| {name} | {m.get('needs_to_manifest', '')} | {subs} | {note} |")
table = "| change | needs, in order to manifest | flagged by (quick tier) | note |\n|---|---|---|---|\n" + "\n".join(rows) + "\n"
if "--write" in sys.argv:
    p = os.path.join(VERIF, "DESIGN.md")
    s = open(p).read()
    a = s.index("| change | needs, in order to manifest |")
    b = a
    lines = s[a:].split("\n")
    n = 0
    while n < len(lines) and lines[n].startswith("|"):
        n += 1
    b = a + len("\n".join(lines[:n])) + 1
    open(p, "w").write(s[:a] + table + s[b:])
    print(f"{len(rows)} rows written; not flagged / demo inconsistent: {bad}")
else:
    print(table)
    print(bad, file=sys.stderr)
