#!/venv/bin/python
"""Evaluate an independently written breaking change against the checks.

usage: tools/seedcheck.py <PID> <A|B|name> [--src DIR] [--also PID ...] [--tier quick]

 1. the demonstration must exit 0 on the unchanged /repo build and non-zero on the changed build
    (both builds come from vf/build.py; the change is applied in a scratch worktree outside /repo);
 2. ./check <PID> --tier quick is run with VF_REPO pointing at the changed worktree;
 3. everything is stored under /verif/seeded/<PID>-<name>/ (patch.diff, demo.py, notes.md, meta.json).
"""
import argparse
import json
import os
import re
import shutil
import subprocess
import sys
import tempfile

VERIF = os.path.dirname(os.path.dirname(os.path.abspath(__file__)))
sys.path.insert(0, VERIF)
from vf import build  # noqa: E402

ap = argparse.ArgumentParser()
ap.add_argument("pid")
ap.add_argument("name")
ap.add_argument("--src")
ap.add_argument("--also", action="append", default=[])
ap.add_argument("--tier", default="quick")
ap.add_argument("--no-demo", action="store_true")
a = ap.parse_intermixed_args()
src = a.src or f"/var/tmp/seedwork/out/{a.pid}/{a.name}"
dest = os.path.join(VERIF, "seeded", f"{a.pid}-{a.name}")
os.makedirs(dest, exist_ok=True)
for f in ("patch.diff", "demo.py", "notes.md"):
    if os.path.exists(os.path.join(src, f)) and os.path.abspath(src) != os.path.abspath(dest):
        shutil.copy(os.path.join(src, f), os.path.join(dest, f))
patch = os.path.join(dest, "patch.diff")
demo = os.path.join(dest, "demo.py")

wt = tempfile.mkdtemp(prefix="vfs-", dir="/var/tmp")
os.rmdir(wt)
subprocess.check_call(["git", "-C", "/repo", "worktree", "add", "--detach", "-q", wt])
meta = dict(property=a.pid, name=a.name, ran=[])
try:
    r = subprocess.run(["git", "-C", wt, "apply", "--whitespace=nowarn", patch], capture_output=True, text=True)
    if r.returncode != 0:
        # patches written relative to the worktree root or to python/: try -p levels
        r = subprocess.run(["git", "-C", wt, "apply", "--whitespace=nowarn", "-3", patch], capture_output=True, text=True)
    meta["patch_applies"] = r.returncode == 0
    if r.returncode != 0:
        print("PATCH DOES NOT APPLY:", r.stderr[:500])
        sys.exit(3)

    def run_demo(repo):
        env = build.worker_env("plain", repo)
        # demos are written to run from <worktree>/python; emulate with cwd and PYTHONPATH
        env["PYTHONPATH"] = os.pathsep.join([env["VF_EXT_DIR"], os.path.join(repo, "python")])
        p = subprocess.run([build.PY, demo], cwd=os.path.join(repo, "python"), env=env, capture_output=True,
                           text=True, timeout=900)
        return p.returncode, (p.stdout + p.stderr)[-1500:]

    if not a.no_demo and os.path.exists(demo):
        rc0, out0 = run_demo("/repo")
        rc1, out1 = run_demo(wt)
        meta["demo_rc_unchanged"] = rc0
        meta["demo_rc_changed"] = rc1
        meta["demo_output_changed"] = out1[-600:]
        meta["ran"].append("demo.py against the unchanged build and against the changed build (vf/build.py, plain flavour)")
        print(f"demo: unchanged rc={rc0} changed rc={rc1}")
        if rc0 != 0:
            print("  demo fails on the UNCHANGED tree:", out0[-400:])
    results = {}
    for pid in [a.pid] + a.also:
        env = dict(os.environ, VF_REPO=wt)
        p = subprocess.run([os.path.join(VERIF, "check"), pid, "--tier", a.tier], env=env, capture_output=True, text=True)
        subs = sorted(set(re.findall(r"^--- (C\d+\.[\w]+):", p.stdout, flags=re.M)))
        first = re.findall(r"^--- (C\d+\.[\w]+: .*)$", p.stdout, flags=re.M)[:3]
        results[pid] = dict(rc=p.returncode, subchecks=subs, messages=[m[:300] for m in first])
        meta["ran"].append(f"VF_REPO=<worktree with patch> ./check {pid} --tier {a.tier}")
        print(f"check {pid}: rc={p.returncode} flagged_by={subs}")
        for m in first:
            print("   ", m[:240])
    meta["checks"] = results
    meta["detected"] = results[a.pid]["rc"] == 1
finally:
    subprocess.call(["git", "-C", "/repo", "worktree", "remove", "--force", wt])
    shutil.rmtree(wt, ignore_errors=True)
old = {}
mp = os.path.join(dest, "meta.json")
if os.path.exists(mp):
    old = json.load(open(mp))
old.update(meta)
json.dump(old, open(mp, "w"), indent=1)
