#!/bin/sh
# tools/runall.sh [seed] : run every registered quick check once, print one summary line each
cd /verif
seed=${1:-1}
for p in $(/venv/bin/python -c "import json; print(' '.join(c['property_id'] for c in json.load(open('MANIFEST.json'))['checks']))"); do
  s=$(date +%s)
  VERIF_SEED=$seed ./check $p --tier quick > /var/tmp/vf-runall-$p.log 2>&1
  rc=$?
  e=$(date +%s)
  echo "$p rc=$rc $((e-s))s $(grep -c KNOWN-FINDING /var/tmp/vf-runall-$p.log) known $(grep -E '^\[' /var/tmp/vf-runall-$p.log | cut -c1-120)"
done
