#!/venv/bin/python
"""Rewrites the per-property table of DESIGN.md section 9.2 from the sub-checks registered in vf/props
(names and quick/thorough budgets); the one-line oracle column is kept from the existing table."""
import importlib
import os
import re
import sys

VERIF = os.path.dirname(os.path.dirname(os.path.abspath(__file__)))
sys.path.insert(0, VERIF)
from vf.budgets import QUICK_SCALE  # noqa: E402

path = os.path.join(VERIF, "DESIGN.md")
text = open(path).read()
a = text.index("### 9.2 ")
b = text.index("### 9.3 ")
sec = text[a:b]
oracle = {}
for line in sec.splitlines():
    m = re.match(r"\| (C\d\d) \| (.*) \| (.*) \|$", line)
    if m:
        oracle[m.group(1)] = m.group(3)
rows = []
for i in range(1, 21):
    pid = f"C{i:02d}"
    mod = importlib.import_module(f"vf.props.{pid.lower()}")
    subs = []
    for s in mod.SUBCHECKS:
        if s.budget("quick") == 0 and s.budget("thorough") == 0:
            continue
        nm = s.name.split(".", 1)[1]
        if s.kind == "enum":
            subs.append(f"{nm} (enumerated{', ASan' if s.flavour == 'asan' else ''})")
        else:
            q = int(round(s.quick * QUICK_SCALE.get(pid, 1)))
            subs.append(f"{nm} {q}/{s.thorough}{' ASan' if s.flavour == 'asan' else ''}")
    rows.append(f"| {pid} | {', '.join(subs)} | {oracle.get(pid, '')} |")
head = sec[: sec.index("| ID |")]
new = head + "| ID | sub-checks | oracle in one line |\n|---|---|---|\n" + "\n".join(rows) + "\n\n"
open(path, "w").write(text[:a] + new + text[b:])
print("section 9.2 rewritten:", len(rows), "rows")
