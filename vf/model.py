"""Reference model: everything is computed *positionally* from the raw rows of a spec, sharing no
algorithm with tskit (no edge insertion/removal sweep, no sample lists, no incremental state)."""
from .gen import F


def breakpoints(spec):
    L = F(spec["L"])
    s = {0.0, L}
    for e in spec["edges"]:
        s.add(F(e[0]))
        s.add(F(e[1]))
    return sorted(s)


def parent_at(spec, x):
    """parent[u] = p of the unique edge (l, r, p, u) with l <= x < r, else -1."""
    n = len(spec["nodes"])
    par = [-1] * n
    for e in spec["edges"]:
        if F(e[0]) <= x < F(e[1]):
            par[e[3]] = e[2]
    return par


def edge_at(spec, x):
    n = len(spec["nodes"])
    ed = [-1] * n
    for j, e in enumerate(spec["edges"]):
        if F(e[0]) <= x < F(e[1]):
            ed[e[3]] = j
    return ed


def children_of(par):
    ch = [[] for _ in par]
    for u, p in enumerate(par):
        if p >= 0:
            ch[p].append(u)
    return ch


def is_sample(spec, u):
    return bool(spec["nodes"][u][0] & 1)


def samples(spec):
    return [u for u in range(len(spec["nodes"])) if spec["nodes"][u][0] & 1]


def descendants(ch, u):
    """u and everything below it (iterative preorder)."""
    out = []
    stack = [u]
    while stack:
        v = stack.pop()
        out.append(v)
        stack.extend(ch[v])
    return out


def num_samples_below(spec, par, sample_set=None):
    n = len(par)
    cnt = [0] * n
    if sample_set is None:
        sample_set = samples(spec)
    for s in sample_set:
        v = s
        while v >= 0:
            cnt[v] += 1
            v = par[v]
    return cnt


def roots(spec, par, threshold=1):
    ns = num_samples_below(spec, par)
    return [u for u in range(len(par)) if par[u] < 0 and ns[u] >= threshold]


def path_to_root(par, u):
    out = []
    while u >= 0:
        out.append(u)
        u = par[u]
    return out


def mrca(par, u, v):
    anc = set(path_to_root(par, u))
    while v >= 0:
        if v in anc:
            return v
        v = par[v]
    return -1


def depth(par, u):
    return len(path_to_root(par, u)) - 1


def time(spec, u):
    return F(spec["nodes"][u][1])


# ------------------------------------------------------------------ sites / genotypes
def site_mutations(spec, site):
    return [(j, m) for j, m in enumerate(spec["mutations"]) if m[0] == site]


def mutations_by_site(spec):
    """site id -> [(row, mutation), ...] in table order, for all sites at once (linear in the table)."""
    out = [[] for _ in spec["sites"]]
    for j, m in enumerate(spec["mutations"]):
        if 0 <= m[0] < len(out):
            out[m[0]].append((j, m))
    return out


def allele_at(spec, site, u, par=None, site_muts=None):
    """Derived state of the last-listed mutation on the first node on the path u -> root that
    carries a mutation at this site, else the ancestral state.  `site_muts` may carry the precomputed
    site_mutations(spec, site)."""
    if par is None:
        par = parent_at(spec, F(spec["sites"][site][0]))
    on = {}
    for j, m in (site_mutations(spec, site) if site_muts is None else site_muts):
        on[m[1]] = m[2]  # later rows overwrite earlier ones: last listed wins
    v = u
    while v >= 0:
        if v in on:
            return on[v]
        v = par[v]
    return spec["sites"][site][1]


def is_missing(spec, site, u, par=None, ch=None, site_muts=None):
    """u is an isolated sample (no parent, no children at the site) with no mutation on it."""
    if par is None:
        par = parent_at(spec, F(spec["sites"][site][0]))
    if ch is None:
        ch = children_of(par)
    if not is_sample(spec, u):
        return False
    if par[u] >= 0 or ch[u]:
        return False
    return not any(m[1] == u for _, m in (site_mutations(spec, site) if site_muts is None else site_muts))


def mutation_parents(spec):
    """Nearest mutation above each mutation at its site (table order decides on one node:
    the previous row on the same node); -1 if none."""
    out = []
    for j, m in enumerate(spec["mutations"]):
        site, node = m[0], m[1]
        par = parent_at(spec, F(spec["sites"][site][0]))
        rows = site_mutations(spec, site)
        # previous row on same node
        prev_same = [k for k, mm in rows if mm[1] == node and k < j]
        if prev_same:
            out.append(prev_same[-1])
            continue
        v = par[node]
        res = -1
        while v >= 0:
            on = [k for k, mm in rows if mm[1] == v]
            if on:
                res = on[-1]
                break
            v = par[v]
        out.append(res)
    return out


# ------------------------------------------------------------------ canonical topology
def canon(ch, u, label):
    """Nested frozenset form of the subtree below u; leaves/labelled nodes by `label(u)`."""
    kids = ch[u]
    if not kids:
        return ("L", label(u))
    return ("N", label(u), frozenset(_multiset(canon(ch, c, label) for c in kids)))


def _multiset(it):
    cnt = {}
    for x in it:
        cnt[x] = cnt.get(x, 0) + 1
    return cnt.items()
