"""Generators.  Every random choice is a Hypothesis draw.  Cases are plain JSON-able *specs*;
`build_tables(spec)` turns a spec into a tskit.TableCollection.

Spec layout (lists of lists, bytes stored as latin-1 `str`, allelic states as `str`):
  L            float
  nodes        [[flags, time, population, individual, metadata]]
  edges        [[left, right, parent, child, metadata]]
  sites        [[position, ancestral_state, metadata]]
  mutations    [[site, node, derived_state, parent, time|None, metadata]]   (None = unknown time)
  individuals  [[flags, [location...], [parents...], metadata]]
  populations  [[metadata]]
  migrations   [[left, right, node, source, dest, time, metadata]]
  time_units   str     metadata  latin-1 str    (optional keys)
Floats that are not finite are written as strings ("nan", "inf", "-inf", "bits:<16 hex>").
"""
import struct

from hypothesis import strategies as st

SAMPLE = 1


# ------------------------------------------------------------------ float / bytes helpers
def F(x):
    if isinstance(x, str):
        if x.startswith("bits:"):
            return struct.unpack("<d", bytes.fromhex(x[5:]))[0]
        return float(x)
    return float(x)


def B(s):
    return s.encode("latin-1") if isinstance(s, str) else bytes(s)


def fjson(x):
    """Inverse of F for values leaving tskit."""
    import math

    x = float(x)
    if math.isnan(x):
        bits = struct.pack("<d", x).hex()
        return "bits:" + bits
    if math.isinf(x):
        return "inf" if x > 0 else "-inf"
    return x


# ------------------------------------------------------------------ build
def build_tables(spec, tskit=None, index=True):
    if tskit is None:
        import tskit
    t = tskit.TableCollection(F(spec["L"]))
    for md in spec.get("populations", []):
        t.populations.add_row(metadata=B(md[0]))
    for fl, loc, par, md in spec.get("individuals", []):
        t.individuals.add_row(
            flags=fl, location=[F(x) for x in loc], parents=par, metadata=B(md)
        )
    for fl, tm, pop, ind, md in spec["nodes"]:
        t.nodes.add_row(flags=fl, time=F(tm), population=pop, individual=ind, metadata=B(md))
    for l, r, p, c, md in spec["edges"]:
        t.edges.add_row(F(l), F(r), p, c, metadata=B(md))
    for pos, a, md in spec.get("sites", []):
        t.sites.add_row(F(pos), a, metadata=B(md))
    for s, n, d, p, tm, md in spec.get("mutations", []):
        t.mutations.add_row(
            site=s,
            node=n,
            derived_state=d,
            parent=p,
            time=tskit.UNKNOWN_TIME if tm is None else F(tm),
            metadata=B(md),
        )
    for l, r, n, s, d, tm, md in spec.get("migrations", []):
        t.migrations.add_row(F(l), F(r), n, s, d, F(tm), metadata=B(md))
    if "time_units" in spec:
        t.time_units = spec["time_units"]
    if spec.get("metadata"):
        t.metadata = B(spec["metadata"])
    for ts_, rec in spec.get("provenances", []):
        t.provenances.add_row(record=rec, timestamp=ts_)
    if spec.get("refseq") is not None:
        t.reference_sequence.data = spec["refseq"]
    if index:
        t.build_index()
    return t


def spec_from_tables(t, tskit=None):
    """Inverse of build_tables (used for msprime-derived corpus and for outputs)."""
    if tskit is None:
        import tskit
    spec = dict(L=float(t.sequence_length))
    spec["populations"] = [[r.metadata.decode("latin-1")] for r in _raw_rows(t.populations)]
    spec["individuals"] = [
        [int(r.flags), [fjson(x) for x in r.location], [int(x) for x in r.parents],
         r.metadata.decode("latin-1")]
        for r in _raw_rows(t.individuals)
    ]
    spec["nodes"] = [
        [int(r.flags), fjson(r.time), int(r.population), int(r.individual),
         r.metadata.decode("latin-1")]
        for r in _raw_rows(t.nodes)
    ]
    spec["edges"] = [
        [fjson(r.left), fjson(r.right), int(r.parent), int(r.child), r.metadata.decode("latin-1")]
        for r in _raw_rows(t.edges)
    ]
    spec["sites"] = [
        [fjson(r.position), r.ancestral_state, r.metadata.decode("latin-1")]
        for r in _raw_rows(t.sites)
    ]
    spec["mutations"] = [
        [int(r.site), int(r.node), r.derived_state, int(r.parent),
         None if tskit.is_unknown_time(r.time) else fjson(r.time), r.metadata.decode("latin-1")]
        for r in _raw_rows(t.mutations)
    ]
    spec["migrations"] = [
        [fjson(r.left), fjson(r.right), int(r.node), int(r.source), int(r.dest), fjson(r.time),
         r.metadata.decode("latin-1")]
        for r in _raw_rows(t.migrations)
    ]
    spec["time_units"] = t.time_units
    return spec


def _raw_rows(table):
    """Rows with metadata as raw bytes regardless of schema."""
    import tskit

    if table.metadata_schema.schema is not None:
        table = table.copy()
        table.metadata_schema = tskit.MetadataSchema(None)
    return list(table)


# ------------------------------------------------------------------ G1: valid tree sequences
_MD_ALPHABET = st.sampled_from(["", "a", "\x00", "xyz", "\xff\x00\x01", "{}", "m" * 9])

TIME_STYLES = {
    "small_int": [0, 1, 2, 3, 4, 5],
    "frac": [0, 0.25, 0.5, 1, 1.5, 2, 2.75, 3.5],
    "neg": [-3, -2.5, -1, 0, 0.5, 1, 2],
    "huge": [0, 1, 1024.0, 2.0**30, 2.0**40, 2.0**52],
    "two": [0, 1],
}


@st.composite
def ts_spec(
    draw,
    max_nodes=10,
    min_nodes=1,
    max_intervals=4,
    max_sites=5,
    max_muts_per_site=4,
    alphabet=("A", "C", "G", "T"),
    migrations=True,
    metadata=True,
    individuals=True,
    populations=True,
    discrete=None,
    mut_times=None,  # None: draw; "unknown"; "known"
    leaf_samples=False,  # samples are exactly the leaves... (enforced by flags on childless nodes)
    time_styles=("small_int", "frac", "neg", "huge", "two"),
    split_edges=True,
    extra_flags=True,
    min_samples=0,
    permute_equal_time_parents=True,
):
    if discrete is None:
        discrete = draw(st.booleans())
    # ---- genome and elementary intervals
    if discrete:
        L = draw(st.sampled_from([1, 2, 3, 5, 10, 100, 2**20]))
        k = draw(st.integers(0, min(max_intervals - 1, L - 1)))
        if L <= 16:
            cuts = sorted(draw(st.permutations(list(range(1, L))))[:k]) if k else []
        else:
            cuts = sorted(
                draw(st.lists(st.integers(1, L - 1), min_size=k, max_size=k, unique=True))
            )
        L = float(L)
        cuts = [float(c) for c in cuts]
    else:
        L = draw(st.sampled_from([1.0, 2.5, 0.75, 10.0, 6.0, 2.0**20, 2.0**40 + 2.0**10]))
        k = draw(st.integers(0, max_intervals - 1))
        js = sorted(draw(st.lists(st.integers(1, 15), min_size=k, max_size=k, unique=True)))
        cuts = [L * j / 16 for j in js]
    bps = [0.0] + cuts + [L]
    nint = len(bps) - 1

    # ---- nodes
    n = draw(st.integers(min_nodes, max_nodes))
    style = draw(st.sampled_from(list(time_styles)))
    pool = TIME_STYLES[style]
    times = [float(draw(st.sampled_from(pool))) for _ in range(n)]
    npop = draw(st.integers(0, 3)) if populations else 0
    nind = draw(st.integers(0, 4)) if individuals else 0

    # ---- forests per elementary interval
    older = [[v for v in range(n) if times[v] > times[u]] for u in range(n)]
    parent = [[-1] * n for _ in range(nint)]
    sticky = draw(st.sampled_from([0, 1, 2, 3]))  # 0: never keep; 3: mostly keep
    for i in range(nint):
        for u in range(n):
            if not older[u]:
                continue
            if i > 0 and sticky and draw(st.integers(0, 3)) < sticky:
                parent[i][u] = parent[i - 1][u]
            else:
                if draw(st.integers(0, 4)) == 0:
                    parent[i][u] = -1
                else:
                    parent[i][u] = older[u][draw(st.integers(0, len(older[u]) - 1))]
    # ---- flags
    has_child = [False] * n
    for i in range(nint):
        for u in range(n):
            if parent[i][u] >= 0:
                has_child[parent[i][u]] = True
    flags = []
    sample_mode = draw(st.sampled_from(["mixed", "mixed", "leaves", "all", "few"]))
    if leaf_samples:
        sample_mode = "leaves"
    for u in range(n):
        if sample_mode == "leaves":
            s = not has_child[u]
        elif sample_mode == "all":
            s = True
        elif sample_mode == "few":
            s = draw(st.integers(0, 4)) == 0
        else:
            s = draw(st.booleans())
        f = 1 if s else 0
        if extra_flags and draw(st.integers(0, 7)) == 0:
            f |= draw(st.sampled_from([2, 1 << 19, 1 << 20, 1 << 31]))
        flags.append(f)
    ns = sum(f & 1 for f in flags)
    for u in range(n):
        if ns >= min_samples:
            break
        if not flags[u] & 1 and (not leaf_samples or not has_child[u]):
            flags[u] |= 1
            ns += 1

    def md():
        return draw(_MD_ALPHABET) if metadata else ""

    nodes = []
    for u in range(n):
        pop = draw(st.integers(-1, npop - 1)) if npop else -1
        ind = draw(st.integers(-1, nind - 1)) if nind else -1
        nodes.append([flags[u], times[u], pop, ind, md()])

    # ---- edges: maximal runs per (child, parent), optionally split at breakpoints
    edges = []
    do_split = split_edges and draw(st.integers(0, 3)) == 0
    for u in range(n):
        i = 0
        while i < nint:
            p = parent[i][u]
            if p < 0:
                i += 1
                continue
            j = i
            while j + 1 < nint and parent[j + 1][u] == p:
                if do_split and draw(st.integers(0, 2)) == 0:
                    break
                j += 1
            edges.append([bps[i], bps[j + 1], p, u, md()])
            i = j + 1
    rank = list(range(n))
    if permute_equal_time_parents and draw(st.integers(0, 3)) == 0:
        rank = list(draw(st.permutations(list(range(n)))))
    edges.sort(key=lambda e: (times[e[2]], rank[e[2]], e[3], e[0]))

    # ---- sites and mutations
    cand = set()
    if discrete:
        ipos = [b for b in bps[:-1]] + [b + 1 for b in bps[:-1] if b + 1 < L] + [L - 1]
        cand.update(float(int(x)) for x in ipos if 0 <= x < L)
    else:
        for a, b in zip(bps[:-1], bps[1:]):
            cand.update([a, (a + b) / 2, a + (b - a) / 4])
    cand = sorted(cand)
    nsites = draw(st.integers(0, min(max_sites, len(cand))))
    pos = sorted(draw(st.permutations(cand))[:nsites]) if nsites else []
    if mut_times is None:
        mut_times = draw(st.sampled_from(["unknown", "unknown", "known"]))
    sites = []
    mutations = []
    alpha = list(alphabet)
    for sid, x in enumerate(pos):
        anc = draw(st.sampled_from(alpha))
        sites.append([x, anc, md()])
        iv = max(i for i in range(nint) if bps[i] <= x)
        par = parent[iv]
        m = draw(st.integers(0, max_muts_per_site))
        mnodes = [draw(st.integers(0, n - 1)) for _ in range(m)]
        # ancestors first: node time descending (stable)
        order = sorted(range(m), key=lambda q: -times[mnodes[q]])
        mnodes = [mnodes[q] for q in order]
        first = len(mutations)
        last_on_node = {}
        prev_t = float("inf")
        for q, u in enumerate(mnodes):
            d = draw(st.sampled_from(alpha))
            # parent = nearest mutation above: last on same node so far, else walk up
            pm = -1
            v = u
            while v >= 0:
                if v in last_on_node:
                    pm = last_on_node[v]
                    break
                v = par[v]
            if mut_times == "known":
                up = times[par[u]] if par[u] >= 0 else times[u] + 4.0
                frac = draw(st.sampled_from([0.0, 0.0, 0.25, 0.5]))
                c = times[u] + frac * (up - times[u])
                if not (c < up):  # huge times: rounding
                    c = times[u]
                tm = min(c, prev_t)
                prev_t = tm
            else:
                tm = None
            last_on_node[u] = first + q
            mutations.append([sid, u, d, pm, tm, md()])

    # ---- individuals / populations / migrations
    inds = []
    for j in range(nind):
        loc = draw(st.lists(st.sampled_from([0.0, 1.5, -2.0, 1e6]), max_size=3))
        par_i = draw(
            st.lists(st.integers(-1, nind - 1).filter(lambda q, j=j: q != j), max_size=2)
        ) if nind > 1 else draw(st.lists(st.just(-1), max_size=2))
        fl = draw(st.sampled_from([0, 0, 1, 1 << 16]))
        inds.append([fl, loc, par_i, md()])
    pops = [[md()] for _ in range(npop)]
    migs = []
    if migrations and npop > 0 and draw(st.integers(0, 2)) == 0:
        nm = draw(st.integers(1, 3))
        for _ in range(nm):
            a = draw(st.integers(0, nint - 1))
            b = draw(st.integers(a, nint - 1))
            migs.append(
                [bps[a], bps[b + 1], draw(st.integers(0, n - 1)), draw(st.integers(0, npop - 1)),
                 draw(st.integers(0, npop - 1)), float(draw(st.sampled_from(pool))), md()]
            )
        migs.sort(key=lambda r: r[5])
    spec = dict(
        L=L, nodes=nodes, edges=edges, sites=sites, mutations=mutations,
        individuals=inds, populations=pops, migrations=migs,
    )
    if metadata and draw(st.integers(0, 3)) == 0:
        spec["metadata"] = draw(_MD_ALPHABET)
    tu = draw(st.sampled_from(["unknown", "generations", "ticks"]))
    if tu != "unknown":
        spec["time_units"] = tu
    return spec


# ------------------------------------------------------------------ labels
def spec_labels(spec, model):
    """Classification labels used in evidence histograms (computed with the reference model)."""
    labs = set()
    bps = model.breakpoints(spec)
    n = len(spec["nodes"])
    if len(bps) > 2:
        labs.add("multi_tree")
    if not spec["edges"]:
        labs.add("zero_edges")
    samples = [u for u in range(n) if spec["nodes"][u][0] & 1]
    if not samples:
        labs.add("zero_samples")
    for a, b in zip(bps[:-1], bps[1:]):
        par = model.parent_at(spec, a)
        ch = model.children_of(par)
        ns = model.num_samples_below(spec, par)
        roots = [u for u in range(n) if par[u] < 0 and ns[u] >= 1]
        if len(roots) > 1:
            labs.add("multi_root")
        if all(p < 0 for p in par):
            labs.add("gap")
        for u in range(n):
            k = len(ch[u])
            if k == 1:
                labs.add("unary")
            if k >= 3:
                labs.add("polytomy")
            if spec["nodes"][u][0] & 1:
                if k > 0:
                    labs.add("internal_sample")
                if k == 0 and par[u] < 0:
                    labs.add("isolated_sample")
            elif k > 0 and ns[u] == 0:
                labs.add("dead_branch")
            elif k == 0 and par[u] >= 0 and ns[u] == 0:
                labs.add("dead_branch")
    if any(F(e[0]) != int(F(e[0])) or F(e[1]) != int(F(e[1])) for e in spec["edges"]):
        labs.add("nonint_coords")
    per = {}
    for m in spec.get("mutations", []):
        per[m[0]] = per.get(m[0], 0) + 1
    if any(v > 1 for v in per.values()):
        labs.add("multi_mut_site")
    if spec.get("mutations"):
        labs.add("mutations")
    if any(m[4] is not None for m in spec.get("mutations", [])):
        labs.add("known_mut_times")
    if spec.get("migrations"):
        labs.add("migrations")
    return labs
