"""Parent process: ./check <ID> --tier quick|thorough [--replay PATH] | --setup

Exit codes: 0 property held on everything explored (KNOWN-FINDING lines allowed);
            1 violation (prints `VIOLATION property=<ID> replay=<path>`);
            2 harness error (never a violation).
"""
import argparse
import hashlib
import importlib
import json
import math
import os
import shutil
import signal
import subprocess
import sys
import time

from . import build
from .core import dumps

VERIF = build.VERIF
PY = build.PY
NCPU = int(os.environ.get("VF_JOBS", "16"))
ALL = [f"C{i:02d}" for i in range(1, 21)]

# wall-clock caps that end a tier gracefully (never a violation)
WALL_CAP = {"quick": 420, "thorough": 6 * 3600}
HANG_S = 180  # a single small case silent for this long is a hang


def derive(seed, *parts):
    h = hashlib.sha256(("|".join(str(p) for p in (seed,) + parts)).encode()).digest()
    return int.from_bytes(h[:8], "big") % (2**63)


def load_known(prop):
    p = os.path.join(VERIF, "known_findings.json")
    if not os.path.exists(p):
        return []
    with open(p) as f:
        data = json.load(f)
    return [e for e in data.get("findings", []) if e["property"] == prop]


def import_prop(prop):
    return importlib.import_module(f"vf.props.{prop.lower()}")


def plan_tasks(mod, prop, tier, seed, only=None):
    tasks = []
    for sc in mod.SUBCHECKS:
        if only and sc.name not in only:
            continue
        n = sc.budget(tier)
        if n <= 0:
            continue
        flavour = sc.flavour if tier == "quick" else sc.thorough_flavour
        if sc.kind == "enum":
            ns = sc.shards or NCPU
            for sh in range(ns):
                tasks.append(dict(subcheck=sc.name, shard=sh, nshards=ns, n=0, flavour=flavour, hang_s=sc.hang_s))
        else:
            ns = sc.shards or max(1, min(NCPU, math.ceil(n / 40)))
            per = math.ceil(n / ns)
            for sh in range(ns):
                tasks.append(dict(subcheck=sc.name, shard=sh, nshards=ns, n=per, flavour=flavour, hang_s=sc.hang_s))
    for t in tasks:
        t.update(prop=prop, tier=tier, seed=seed, hseed=derive(seed, t["subcheck"], t["shard"]))
    return tasks


def run_tasks(tasks, scratch, open_known, wall_cap):
    """Run worker subprocesses, at most NCPU at a time.  Returns list of (task, result|None, info)."""
    envs = {}
    for fl in sorted({t["flavour"] for t in tasks}):
        envs[fl] = build.worker_env(fl)
    deadline = time.time() + wall_cap
    pending = list(enumerate(tasks))
    # interleave sub-checks so that slow ones start early
    running = {}
    results = []
    while pending or running:
        while pending and len(running) < NCPU:
            i, t = pending.pop(0)
            job = dict(t)
            job["out"] = os.path.join(scratch, f"res{i}.json")
            job["journal"] = os.path.join(scratch, f"journal{i}.json")
            job["open_known"] = open_known
            job["deadline"] = deadline
            jp = os.path.join(scratch, f"job{i}.json")
            with open(jp, "w") as f:
                f.write(dumps(job))
            logf = open(os.path.join(scratch, f"log{i}.txt"), "w")
            env = dict(envs[t["flavour"]])
            env["VF_SCRATCH"] = os.path.join(scratch, f"w{i}")
            os.makedirs(env["VF_SCRATCH"], exist_ok=True)
            p = subprocess.Popen(
                [PY, "-m", "vf.worker", jp], cwd=VERIF, env=env, stdout=logf, stderr=logf
            )
            running[i] = (p, job, logf, time.time())
        time.sleep(0.05)
        for i in list(running):
            p, job, logf, t0 = running[i]
            rc = p.poll()
            if rc is None:
                # hang watchdog: journal untouched for HANG_S
                try:
                    last = max(os.path.getmtime(job["journal"]), t0)
                except OSError:
                    last = t0
                if time.time() - last > (job.get("hang_s") or HANG_S):
                    p.kill()
                    p.wait()
                    logf.close()
                    results.append((job, None, dict(died="hang", rc=None)))
                    del running[i]
                continue
            logf.close()
            del running[i]
            if os.path.exists(job["out"]):
                with open(job["out"]) as f:
                    results.append((job, json.load(f), dict(rc=rc)))
            else:
                results.append((job, None, dict(died="crash", rc=rc)))
    return results


def read_tail(path, n=6000):
    try:
        with open(path, "rb") as f:
            data = f.read()
        return data[-n:].decode("utf-8", "replace")
    except OSError:
        return ""


def crash_excerpt(text):
    for marker in ("ERROR: AddressSanitizer", "runtime error:", "Bug detected in", "Fatal Python error"):
        i = text.find(marker)
        if i >= 0:
            return text[max(0, i - 100): i + 1800]
    return text[-1500:]


def violation_signature(msg):
    import re

    m = re.search(r"#\d+ 0x[0-9a-f]+ in (\w+) /\S*/(?:c/tskit|python|c/subprojects)/\S+", msg)
    if m:
        return "crash@" + m.group(1)
    m = re.search(r"Bug detected in (\S+) at line (\d+)", msg)
    if m:
        return "bug_assert@" + m.group(1) + ":" + m.group(2)
    return msg.split(":")[0][:60]


def save_replay(prop, subcheck, case, message, extra=None):
    d = os.path.join(VERIF, "replays", prop)
    os.makedirs(d, exist_ok=True)
    body = dict(property=prop, subcheck=subcheck, case=case, message=message)
    if extra:
        body.update(extra)
    s = dumps(body, indent=1, sort_keys=True)
    name = hashlib.sha1(s.encode()).hexdigest()[:12] + ".json"
    path = os.path.join(d, name)
    with open(path, "w") as f:
        f.write(s)
    return path


def run_probes(mod, prop, tier, seed, scratch, known_open):
    """Deterministic re-execution of the minimal reproducer of every open finding."""
    lines = []
    probes = getattr(mod, "PROBES", {})
    tasks = []
    keys = []
    for e in known_open:
        if e["key"] in probes:
            scname, case = probes[e["key"]]
            sc = next(s for s in mod.SUBCHECKS if s.name == scname)
            tasks.append(
                dict(prop=prop, tier=tier, seed=seed, hseed=0, subcheck=scname, shard=0,
                     nshards=1, n=1, flavour=sc.flavour, replay_case=case, probe_key=e["key"])
            )
            keys.append(e)
    if not tasks:
        return lines
    res = run_tasks(tasks, scratch, [], 600)
    bykey = {e["key"]: e for e in keys}
    res.sort(key=lambda x: [e["key"] for e in keys].index(x[0]["probe_key"]))
    for job, r, info in res:
        e = bykey[job["probe_key"]]
        still = False
        if r is None:
            still = True  # crash/hang reproducer still kills the worker
        elif r.get("failure"):
            still = True
        if still:
            lines.append(f"KNOWN-FINDING: property={prop} {e['key']}: {e['what']}")
    return lines


def main(argv=None):
    ap = argparse.ArgumentParser()
    ap.add_argument("prop", nargs="?")
    ap.add_argument("--tier", default=os.environ.get("VERIF_TIER", "quick"))
    ap.add_argument("--replay")
    ap.add_argument("--setup", action="store_true")
    ap.add_argument("--only", action="append")
    ap.add_argument("--scale", type=float, default=float(os.environ.get("VF_SCALE", "1")))
    ap.add_argument("--keep", action="store_true")
    a = ap.parse_args(argv)
    os.environ.setdefault("TSKIT_VERIF", "1")
    try:
        seed = int(os.environ.get("VERIF_SEED", "1") or "1")
    except ValueError:
        seed = derive(0, os.environ["VERIF_SEED"]) % (2**31)

    if a.setup:
        return setup()
    prop = a.prop
    tier = a.tier if a.tier in ("quick", "thorough") else "quick"
    t0 = time.time()
    try:
        mod = import_prop(prop)
    except Exception:
        import traceback

        traceback.print_exc()
        print(f"HARNESS-ERROR cannot import check for {prop}")
        return 2
    scratch = os.path.join(VERIF, ".scratch", f"{prop}-{os.getpid()}")
    shutil.rmtree(scratch, ignore_errors=True)
    os.makedirs(scratch)
    try:
        try:
            for fl in sorted(
                {(s.flavour if tier == "quick" else s.thorough_flavour) for s in mod.SUBCHECKS}
            ):
                build.ensure(fl)
        except Exception as e:
            print(f"HARNESS-ERROR build failed: {e}")
            return 2
        if a.replay:
            return do_replay(mod, prop, tier, seed, a.replay, scratch)
        return do_check(mod, prop, tier, seed, scratch, a, t0)
    finally:
        if not a.keep:
            shutil.rmtree(scratch, ignore_errors=True)


def do_replay(mod, prop, tier, seed, path, scratch):
    with open(path) as f:
        rp = json.load(f)
    sc = next(s for s in mod.SUBCHECKS if s.name == rp["subcheck"])
    flavour = rp.get("flavour", sc.flavour)
    task = dict(prop=prop, tier=tier, seed=seed, hseed=0, subcheck=sc.name, shard=0, nshards=1,
                n=1, flavour=flavour, replay_case=rp["case"])
    (job, r, info), = run_tasks([task], scratch, [], 900)
    if r is None:
        print(f"replay: worker died ({info}); log tail:\n" + read_tail(job["out"].replace("res", "log").replace(".json", ".txt")))
        print(f"VIOLATION property={prop} replay={path}")
        return 1
    if r.get("failure"):
        print("replay:", r["failure"]["message"])
        print(f"VIOLATION property={prop} replay={path}")
        return 1
    if r.get("harness_error"):
        print(r["harness_error"]["traceback"])
        return 2
    print("replay: property holds on this case")
    return 0


def do_check(mod, prop, tier, seed, scratch, a, t0):
    known = load_known(prop)
    known_open = [e for e in known if e.get("status") == "open"]
    open_keys = [e["key"] for e in known_open]
    from .budgets import QUICK_SCALE

    for sc in mod.SUBCHECKS:
        if sc.kind != "enum":
            sc.quick = int(sc.quick * QUICK_SCALE.get(prop, 1))
        if a.scale != 1:
            # enumerated sub-checks have a nominal budget of 1: keep them running under --scale
            sc.quick = int(sc.quick * a.scale) if sc.kind != "enum" else sc.quick
            sc.thorough = int(sc.thorough * a.scale) if sc.kind != "enum" else sc.thorough
    tasks = plan_tasks(mod, prop, tier, seed, a.only)
    results = run_tasks(tasks, scratch, open_keys, WALL_CAP[tier])
    kf_lines = run_probes(mod, prop, tier, seed, scratch, known_open)

    evaluations = 0
    nontriv = set()
    labels = {}
    notes = {}
    per_sub = {}
    samples = []
    excluded = {}
    violations = []
    harness = []
    budget = False
    for job, r, info in results:
        name = job["subcheck"]
        ps = per_sub.setdefault(name, dict(evaluations=0, nontrivial=set(), wall_s=0.0))
        if r is None:
            # the worker died: attribute to the journalled case
            case = None
            try:
                with open(job["journal"]) as f:
                    case = json.load(f)
            except Exception:
                pass
            logp = job["out"].replace("res", "log").replace(".json", ".txt")
            tail = crash_excerpt(read_tail(logp, 200000))
            msg = f"worker {info.get('died')} rc={info.get('rc')}:\n{tail}"
            if case is None:
                harness.append(f"{name}: worker died before any case: {msg}")
            else:
                sc = next(s for s in mod.SUBCHECKS if s.name == name)
                from .core import PropertyViolation

                key = None
                if sc.classify:
                    try:
                        key = sc.classify(case, PropertyViolation("crash", msg))
                    except Exception:
                        key = None
                if key is not None and key in open_keys:
                    excluded[key] = excluded.get(key, 0) + 1
                else:
                    violations.append(dict(subcheck=name, case=case, message=msg,
                                           flavour=job["flavour"]))
            continue
        evaluations += r["evaluations"]
        ps["evaluations"] += r["evaluations"]
        ps["wall_s"] = max(ps["wall_s"], r["wall_s"])
        ps["nontrivial"].update(r["nontrivial"])
        nontriv.update(name + ":" + d for d in r["nontrivial"])
        for k, v in r["labels"].items():
            labels[name + "/" + k] = labels.get(name + "/" + k, 0) + v
        for k, v in r.get("notes", {}).items():
            notes[name + "/" + k] = notes.get(name + "/" + k, 0) + v
        for k, v in r["excluded"].items():
            excluded[k] = excluded.get(k, 0) + v
        if r["samples"] and sum(1 for s in samples if s["subcheck"] == name) < 2:
            samples.append(dict(subcheck=name, **r["samples"][0]))
        if r["failure"]:
            violations.append(dict(subcheck=name, case=r["failure"]["case"],
                                   message=r["failure"]["message"], flavour=job["flavour"]))
        elif r["harness_error"]:
            harness.append(f"{name}: {r['harness_error']['traceback']}")
        budget = budget or r["budget_reached"]

    # generator floors
    floor_fail = []
    for sc in mod.SUBCHECKS:
        ps = per_sub.get(sc.name)
        if not ps or ps["evaluations"] < 200:
            continue
        for lab, fl in sc.floors.items():
            frac = labels.get(sc.name + "/" + lab, 0) / ps["evaluations"]
            if frac < fl:
                floor_fail.append(f"{sc.name}: label {lab} at {frac:.3f} < floor {fl}")

    meta = getattr(mod, "META", {})
    rule = meta.get("rule", "") + " Non-trivial rules per sub-check: " + "; ".join(
        f"{sc.name}: {sc.rule}" for sc in mod.SUBCHECKS if sc.rule
    )
    ev = dict(
        property_id=prop,
        tier=tier,
        seed=seed,
        level=meta.get("level", "exploration"),
        coverage=dict(
            evaluations=evaluations,
            distinct_nontrivial=len(nontriv),
            rule=rule,
            samples=samples[:8],
            per_subcheck={
                k: dict(evaluations=v["evaluations"], distinct_nontrivial=len(v["nontrivial"]),
                        wall_s=round(v["wall_s"], 2))
                for k, v in sorted(per_sub.items())
            },
            label_histogram=dict(sorted(labels.items())),
            counters=dict(sorted(notes.items())),
            excluded_known_finding=excluded,
            inconclusive_budget=budget,
            exhaustive=bool(meta.get("exhaustive_subchecks")) and False,
            exhaustive_subchecks=meta.get("exhaustive_subchecks", []),
        ),
        assumptions=meta.get("assumptions", []),
        wall_s=round(time.time() - t0, 2),
        violations=len(violations),
    )
    # runs against a modified copy of the repository (VF_REPO: tools/mut.py, seedcheck.py, sweep.py) must not
    # overwrite the evidence of the real tree
    evdir = os.path.join(VERIF, "evidence") if not os.environ.get("VF_REPO") else os.path.join(VERIF, ".scratch", "evidence-mut")
    os.makedirs(evdir, exist_ok=True)
    with open(os.path.join(evdir, f"{prop}.json"), "w") as f:
        f.write(dumps(ev, indent=1))

    for line in kf_lines:
        print(line)
    print(
        f"[{prop} {tier} seed={seed}] evaluations={evaluations} distinct_nontrivial={len(nontriv)}"
        f" excluded_known={sum(excluded.values())} wall={time.time() - t0:.1f}s"
        + (" (budget reached: inconclusive beyond what was run)" if budget else "")
    )
    for name, v in sorted(per_sub.items()):
        print(f"   {name}: {v['evaluations']} cases, {len(v['nontrivial'])} distinct non-trivial,"
              f" {v['wall_s']:.1f}s")
    if violations:
        seen = set()
        for v in violations:
            sig = (v["subcheck"], violation_signature(v["message"]))
            if sig in seen or sum(1 for s in seen if s[0] == v["subcheck"]) >= 6:
                continue
            seen.add(sig)
            path = save_replay(prop, v["subcheck"], v["case"], v["message"],
                               dict(flavour=v["flavour"]))
            print(f"--- {v['subcheck']}: {v['message'][:1500]}")
            print(f"VIOLATION property={prop} replay={path}")
        return 1
    if harness:
        for h in harness[:3]:
            print("HARNESS-ERROR", h)
        return 2
    if floor_fail:
        for h in floor_fail:
            print("HARNESS-ERROR generator regression:", h)
        return 2
    return 0


def setup():
    t0 = time.time()
    r = subprocess.run(
        [PY, "-c", "import hypothesis, numpy; print(hypothesis.__version__)"],
        capture_output=True, text=True,
    )
    if r.returncode != 0:
        subprocess.run(
            [PY, "-m", "pip", "install", "--no-index", "--find-links", "/opt/veriftools/wheels",
             "hypothesis"],
        )
    for fl in ("plain", "asan"):
        build.ensure(fl, verbose=True)
    print(f"setup done in {time.time() - t0:.1f}s")
    return 0


if __name__ == "__main__":
    try:
        rc = main()
    except SystemExit:
        raise
    except BaseException:  # a failure of the harness itself is never a violation (exit 1)
        import traceback

        traceback.print_exc()
        print("HARNESS-ERROR runner failed")
        rc = 2
    sys.exit(rc)
