"""Quick-tier multipliers measured on the idle 16-core sandbox (2026-09-28): each quick tier is sized to
roughly 40-70 s of wall clock.  They multiply the per-sub-check `quick` case counts written in the
property modules (enumerated sub-checks are not scaled).  Budgets stay case counts, never time limits."""
QUICK_SCALE = {
    "C01": 12, "C02": 6, "C03": 4, "C04": 2.5, "C05": 6, "C06": 2.5, "C07": 5, "C08": 2, "C09": 2, "C10": 1,
    "C11": 6, "C12": 8, "C13": 5, "C14": 2.5, "C15": 2.5, "C16": 6, "C17": 6, "C18": 5, "C19": 4, "C20": 8,
}
