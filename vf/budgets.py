"""Quick-tier multipliers measured on the idle 16-core sandbox (2026-09-28): each quick tier is sized to
roughly 40-70 s of wall clock.  They multiply the per-sub-check `quick` case counts written in the
property modules (enumerated sub-checks are not scaled).  Budgets stay case counts, never time limits."""
QUICK_SCALE = {
    "C01": 6, "C02": 4, "C03": 2.5, "C04": 2, "C05": 4, "C06": 2.5, "C07": 3, "C08": 1.5, "C09": 2, "C10": 1,
    "C11": 3, "C12": 4, "C13": 4, "C14": 2, "C15": 2.5, "C16": 4, "C17": 4, "C18": 4, "C19": 3, "C20": 5,
}
