"""Build the repository's `_tskit` extension from /repo's *current working tree*.

The interpreter in /venv carries a newer tskit wheel with its own `_tskit`; nothing in /verif may
ever run against that.  `ensure(flavour)` compiles the C sources that are in /repo right now into
/verif/.cache/<flavour>-<hash>/ (hash over the contents of every C source / header that goes into
the extension) and returns that directory.  Workers put it first on sys.path, followed by
/repo/python, so Python edits are picked up directly and C edits force a rebuild.
"""
import hashlib
import os
import shutil
import subprocess
import sys
import sysconfig
import time
from concurrent.futures import ThreadPoolExecutor

VERIF = os.path.dirname(os.path.dirname(os.path.abspath(__file__)))
REPO = os.environ.get("VF_REPO", "/repo")
CACHE = os.path.join(VERIF, ".cache")
PY = "/venv/bin/python"

C_SOURCES = [
    "python/_tskitmodule.c",
    "c/tskit/core.c",
    "c/tskit/tables.c",
    "c/tskit/trees.c",
    "c/tskit/genotypes.c",
    "c/tskit/stats.c",
    "c/tskit/convert.c",
    "c/tskit/haplotype_matching.c",
    "c/subprojects/kastore/kastore.c",
]
HASH_EXTRA = [
    "c/tskit.h",
    "c/tskit/core.h",
    "c/tskit/tables.h",
    "c/tskit/trees.h",
    "c/tskit/genotypes.h",
    "c/tskit/stats.h",
    "c/tskit/convert.h",
    "c/tskit/haplotype_matching.h",
    "c/subprojects/kastore/kastore.h",
    "python/lwt_interface/tskit_lwt_interface.h",
    "c/VERSION.txt",
]

FLAVOURS = {
    # -O1: compile time matters more than run time here (every C edit forces a rebuild)
    "plain": dict(cc="gcc", cflags=["-O1", "-g0"], ldflags=[]),
    "asan": dict(
        cc="gcc",
        cflags=[
            "-O1",
            "-g",
            "-fsanitize=address,undefined",
            "-fno-sanitize-recover=undefined",
            "-fno-omit-frame-pointer",
        ],
        ldflags=["-fsanitize=address,undefined"],
    ),
}

LIBASAN = "/usr/lib/gcc/x86_64-linux-gnu/12/libasan.so"


def tree_hash(repo=REPO):
    h = hashlib.sha256()
    for rel in C_SOURCES + HASH_EXTRA:
        p = os.path.join(repo, rel)
        h.update(rel.encode())
        with open(p, "rb") as f:
            h.update(hashlib.sha256(f.read()).digest())
    h.update(b"guard=" + os.environ.get("TSKIT_VERIF", "1").encode())
    return h.hexdigest()[:20]


def _numpy_include():
    out = subprocess.check_output(
        [PY, "-c", "import numpy; print(numpy.get_include())"], text=True
    )
    return out.strip()


def _py_include_and_suffix():
    out = subprocess.check_output(
        [
            PY,
            "-c",
            "import sysconfig; print(sysconfig.get_paths()['include']);"
            "print(sysconfig.get_config_var('EXT_SUFFIX'))",
        ],
        text=True,
    )
    inc, suf = out.strip().split("\n")
    return inc, suf


def ensure(flavour="plain", repo=REPO, verbose=False):
    spec = FLAVOURS[flavour]
    key = tree_hash(repo)
    out = os.path.join(CACHE, f"{flavour}-{key}")
    done = os.path.join(out, "DONE")
    if os.path.exists(done):
        os.utime(done)
        return out
    os.makedirs(CACHE, exist_ok=True)
    tmp = out + f".tmp{os.getpid()}"
    shutil.rmtree(tmp, ignore_errors=True)
    os.makedirs(tmp)
    t0 = time.time()
    pyinc, suffix = _py_include_and_suffix()
    incs = [
        os.path.join(repo, "python/lwt_interface"),
        os.path.join(repo, "c"),
        os.path.join(repo, "c/subprojects/kastore"),
        _numpy_include(),
        pyinc,
    ]
    defines = ["-DNDEBUG_UNUSED_PLACEHOLDER"]
    if os.environ.get("TSKIT_VERIF", "1") == "1":
        defines.append("-DTSKIT_VERIF_HOOKS")
    base = (
        [spec["cc"], "-std=c99", "-fPIC", "-fwrapv", "-w"]
        + spec["cflags"]
        + defines
        + ["-I" + i for i in incs]
    )

    def compile_one(rel):
        obj = os.path.join(tmp, rel.replace("/", "_") + ".o")
        cmd = base + ["-c", os.path.join(repo, rel), "-o", obj]
        r = subprocess.run(cmd, capture_output=True, text=True)
        if r.returncode != 0:
            raise RuntimeError(f"compile failed: {rel}\n{r.stderr[-4000:]}")
        return obj

    with ThreadPoolExecutor(max_workers=len(C_SOURCES)) as ex:
        objs = list(ex.map(compile_one, C_SOURCES))
    so = os.path.join(tmp, "_tskit" + suffix)
    r = subprocess.run(
        [spec["cc"], "-shared"] + objs + spec["ldflags"] + ["-lm", "-o", so],
        capture_output=True,
        text=True,
    )
    if r.returncode != 0:
        raise RuntimeError("link failed\n" + r.stderr[-4000:])
    for o in objs:
        os.unlink(o)
    with open(os.path.join(tmp, "DONE"), "w") as f:
        f.write(f"{time.time() - t0:.1f}\n")
    try:
        os.rename(tmp, out)
    except OSError:
        # somebody else finished the same build first
        shutil.rmtree(tmp, ignore_errors=True)
    if verbose:
        print(f"[build] {flavour} {key} in {time.time() - t0:.1f}s", file=sys.stderr)
    _prune(flavour, keep=80)
    return out


def _prune(flavour, keep):
    ents = []
    for d in os.listdir(CACHE):
        p = os.path.join(CACHE, d)
        if d.startswith(flavour + "-") and os.path.exists(os.path.join(p, "DONE")):
            ents.append((os.path.getmtime(os.path.join(p, "DONE")), p))
        elif ".tmp" in d and time.time() - os.path.getmtime(p) > 3600:
            shutil.rmtree(p, ignore_errors=True)
    ents.sort(reverse=True)
    for _, p in ents[keep:]:
        shutil.rmtree(p, ignore_errors=True)


def worker_env(flavour="plain", repo=REPO):
    """Environment for a worker subprocess that must import the repo's tskit."""
    d = ensure(flavour, repo)
    env = dict(os.environ)
    env["PYTHONPATH"] = os.pathsep.join([d, os.path.join(repo, "python"), VERIF])
    env["PYTHONHASHSEED"] = "0"
    env["VF_EXT_DIR"] = d
    env["VF_REPO"] = repo
    env["PYTHONDONTWRITEBYTECODE"] = "1"
    env["TSKIT_VERIF"] = os.environ.get("TSKIT_VERIF", "1")
    if flavour == "asan":
        env["LD_PRELOAD"] = LIBASAN
        env["ASAN_OPTIONS"] = (
            "detect_leaks=0:abort_on_error=0:exitcode=99:allocator_may_return_null=1:"
            "handle_segv=1:detect_stack_use_after_return=0"
        )
        env["UBSAN_OPTIONS"] = "print_stacktrace=1:halt_on_error=1:exitcode=99"
        env["PYTHONMALLOC"] = "malloc"
    return env


def assert_repo_tskit():
    """Called inside workers: refuse to run against anything but the repo build."""
    import _tskit
    import tskit

    repo = os.environ.get("VF_REPO", REPO)
    ext = os.environ.get("VF_EXT_DIR", "")
    ok = (
        os.path.realpath(tskit.__file__).startswith(
            os.path.realpath(os.path.join(repo, "python", "tskit"))
        )
        and ext
        and os.path.realpath(_tskit.__file__).startswith(os.path.realpath(ext))
    )
    with open(os.path.join(repo, "c", "VERSION.txt")) as f:
        want = tuple(int(x) for x in f.read().strip().split("."))
    ok = ok and tuple(_tskit.get_tskit_version()) == want
    if not ok:
        print(
            f"HARNESS-ERROR wrong tskit: {tskit.__file__} {_tskit.__file__}",
            file=sys.stderr,
        )
        os._exit(2)


if __name__ == "__main__":
    for fl in sys.argv[1:] or ["plain"]:
        print(ensure(fl, verbose=True))


def ensure_fuzz_target(repo=REPO):
    """clang libFuzzer+ASan+UBSan build of vf/fuzz/load_target.c against the repo's C sources."""
    src = os.path.join(VERIF, "vf", "fuzz", "load_target.c")
    h = hashlib.sha256()
    h.update(tree_hash(repo).encode())
    with open(src, "rb") as f:
        h.update(f.read())
    out = os.path.join(CACHE, f"fuzz-{h.hexdigest()[:20]}")
    exe = os.path.join(out, "load_target")
    if os.path.exists(os.path.join(out, "DONE")):
        return exe
    os.makedirs(CACHE, exist_ok=True)
    tmp = out + f".tmp{os.getpid()}"
    shutil.rmtree(tmp, ignore_errors=True)
    os.makedirs(tmp)
    csrc = [os.path.join(repo, rel) for rel in C_SOURCES if not rel.startswith("python/")]
    cmd = ["clang", "-g", "-O1", "-std=c99", "-D_GNU_SOURCE", "-w", "-fsanitize=fuzzer,address,undefined",
           "-fno-sanitize-recover=undefined", "-fno-omit-frame-pointer",
           "-I" + os.path.join(repo, "c"), "-I" + os.path.join(repo, "c/subprojects/kastore"),
           src] + csrc + ["-lm", "-o", os.path.join(tmp, "load_target")]
    r = subprocess.run(cmd, capture_output=True, text=True)
    if r.returncode != 0:
        raise RuntimeError("fuzz target build failed\n" + r.stderr[-4000:])
    with open(os.path.join(tmp, "DONE"), "w") as f:
        f.write("ok\n")
    try:
        os.rename(tmp, out)
    except OSError:
        shutil.rmtree(tmp, ignore_errors=True)
    _prune("fuzz", keep=20)
    return exe
