"""Three-valued validity predicate for a spec, written from docs/data-model.md
("Valid tree sequence requirements") and the list quoted by property C02.

validity(spec, index) -> (verdict, reasons)   verdict in {"VALID", "INVALID", "UNSPECIFIED"}

UNSPECIFIED (neither outcome asserted) covers what the documentation leaves open:
  * sequence_length == +inf;
  * an individual listing itself as a parent (code rejects, docs silent);
  * user supplied indexes that are permutations sorted by left / right but whose tie order differs
    from build_index's.
Not part of the predicate (documented as not detectable at load time / not listed by C02):
  mutation.parent being the *nearest* mutation above; migration time lying between node times.
"""
import math

from .gen import F


def _finite(x):
    return not (math.isnan(x) or math.isinf(x))


def validity(spec, index=None):
    bad = []
    unspec = []
    L = F(spec["L"])
    if not (L > 0):
        bad.append("sequence_length")
    elif math.isinf(L):
        unspec.append("sequence_length_inf")
    nodes = spec["nodes"]
    n = len(nodes)
    npop = len(spec.get("populations", []))
    inds = spec.get("individuals", [])
    nind = len(inds)
    # individuals
    for j, (fl, loc, par, md) in enumerate(inds):
        for p in par:
            if p != -1 and not (0 <= p < nind):
                bad.append("individual_parent_out_of_range")
            if p == j:
                unspec.append("individual_self_parent")
    # nodes
    times = []
    for fl, tm, pop, ind, md in nodes:
        t = F(tm)
        times.append(t)
        if not _finite(t):
            bad.append("node_time_nonfinite")
        if pop != -1 and not (0 <= pop < npop):
            bad.append("node_population")
        if ind != -1 and not (0 <= ind < nind):
            bad.append("node_individual")
    # edges: simple requirements
    edges = spec["edges"]
    refs_ok = True
    for l, r, p, c, md in edges:
        l, r = F(l), F(r)
        if not (0 <= p < n) or not (0 <= c < n):
            bad.append("edge_node_out_of_range")
            refs_ok = False
            continue
        if not (_finite(l) and _finite(r)):
            bad.append("edge_coords_nonfinite")
            refs_ok = False
            continue
        if l < 0:
            bad.append("edge_left_negative")
        if r > L:
            bad.append("edge_right_gt_L")
        if not (l < r):
            bad.append("edge_bad_interval")
        if not (times[p] > times[c]):
            bad.append("edge_time_order")
    if refs_ok and not any(b.startswith("node_time") for b in bad):
        # ordering
        seen_done = set()
        last = None
        for l, r, p, c, md in edges:
            l = F(l)
            if last is not None:
                lp, lc, ll = last
                if p != lp:
                    seen_done.add(lp)
                    if p in seen_done:
                        bad.append("edge_parents_noncontiguous")
                    if times[p] < times[lp]:
                        bad.append("edge_parent_time_order")
                else:
                    if c < lc:
                        bad.append("edge_child_order")
                    elif c == lc:
                        if l == ll:
                            bad.append("edge_duplicate")
                        elif l < ll:
                            bad.append("edge_left_order")
            last = (p, c, l)
        # disjoint child intervals
        bychild = {}
        for l, r, p, c, md in edges:
            bychild.setdefault(c, []).append((F(l), F(r)))
        for c, ivs in bychild.items():
            ivs.sort()
            for (a1, b1), (a2, b2) in zip(ivs[:-1], ivs[1:]):
                if a2 < b1:
                    bad.append("edge_child_overlap")
    # sites
    sites = spec.get("sites", [])
    lastpos = None
    for pos, a, md in sites:
        x = F(pos)
        if not _finite(x) or not (0 <= x < L):
            bad.append("site_position")
        if lastpos is not None and _finite(x) and _finite(lastpos):
            if x == lastpos:
                bad.append("site_duplicate")
            elif x < lastpos:
                bad.append("site_order")
        lastpos = x
    # mutations
    muts = spec.get("mutations", [])
    nm = len(muts)
    mut_refs_ok = True
    for j, (s, u, d, pm, tm, md) in enumerate(muts):
        if not (0 <= s < len(sites)):
            bad.append("mutation_site_out_of_range")
            mut_refs_ok = False
        if not (0 <= u < n):
            bad.append("mutation_node_out_of_range")
            mut_refs_ok = False
        if pm != -1 and not (0 <= pm < nm):
            bad.append("mutation_parent_out_of_range")
            mut_refs_ok = False
        if pm == j:
            bad.append("mutation_parent_self")
    if mut_refs_ok:
        persite = {}
        for j, (s, u, d, pm, tm, md) in enumerate(muts):
            persite.setdefault(s, []).append(j)
            if j > 0 and muts[j - 1][0] > s:
                bad.append("mutation_site_order")
            if pm != -1:
                if muts[pm][0] != s:
                    bad.append("mutation_parent_other_site")
                if pm > j:
                    bad.append("mutation_parent_after_child")
            if tm is not None:
                t = F(tm)
                if not _finite(t):
                    bad.append("mutation_time_nonfinite")
                    continue
                if _finite(times[u]) and t < times[u]:
                    bad.append("mutation_time_younger_than_node")
                if pm != -1 and pm != j and muts[pm][4] is not None and t > F(muts[pm][4]):
                    bad.append("mutation_time_older_than_parent_mutation")
        for s, js in persite.items():
            kn = [muts[j][4] is not None for j in js]
            if any(kn) and not all(kn):
                bad.append("mutation_time_mixed")
            # non-increasing known time in table order (contiguity is the site-order requirement)
            lastt = None
            for j in js:
                if muts[j][4] is not None:
                    t = F(muts[j][4])
                    if lastt is not None and t > lastt:
                        bad.append("mutation_time_order")
                    lastt = t
        # time < time of the node above, in the tree at the site's position
        if not bad or all(b.startswith("mutation_") or b.startswith("index") for b in bad):
            from . import model

            for j, (s, u, d, pm, tm, md) in enumerate(muts):
                if tm is None:
                    continue
                x = F(sites[s][0])
                par = model.parent_at(spec, x)
                if par[u] >= 0 and not (F(tm) < times[par[u]]):
                    bad.append("mutation_time_older_than_parent_node")
    # migrations
    lastt = None
    for l, r, u, src, dst, tm, md in spec.get("migrations", []):
        l, r, t = F(l), F(r), F(tm)
        if not (0 <= u < n):
            bad.append("migration_node")
        if not (0 <= src < npop) or not (0 <= dst < npop):
            bad.append("migration_population")
        if not _finite(t):
            bad.append("migration_time_nonfinite")
        if not (_finite(l) and _finite(r)):
            bad.append("migration_coords_nonfinite")
        else:
            if l < 0 or r > L or not (l < r):
                bad.append("migration_interval")
        if lastt is not None and _finite(t) and _finite(lastt) and t < lastt:
            bad.append("migration_time_order")
        lastt = t
    # index
    if index is not None and not bad:
        I, O = index
        E = len(edges)
        if sorted(I) != list(range(E)) or sorted(O) != list(range(E)):
            bad.append("index_not_permutation")
        else:
            lefts = [F(edges[i][0]) for i in I]
            rights = [F(edges[i][1]) for i in O]
            if lefts != sorted(lefts) or rights != sorted(rights):
                bad.append("index_not_sorted")
            else:
                ci, co = canonical_index(spec)
                if list(I) != ci or list(O) != co:
                    unspec.append("index_tie_order")
    if bad:
        return "INVALID", sorted(set(bad))
    if unspec:
        return "UNSPECIFIED", sorted(set(unspec))
    return "VALID", []


def canonical_index(spec):
    """The order build_index is documented/observed to produce: insertion by (left, time[parent]
    ascending), removal by (right, time[parent] descending); remaining ties by edge id (insertion)
    and by descending edge id (removal).  Only used to decide UNSPECIFIED, never to assert."""
    edges = spec["edges"]
    times = [F(nd[1]) for nd in spec["nodes"]]
    E = len(edges)
    ins = sorted(range(E), key=lambda j: (F(edges[j][0]), times[edges[j][2]], edges[j][2], edges[j][3]))
    rem = sorted(range(E), key=lambda j: (F(edges[j][1]), -times[edges[j][2]], -edges[j][2], -edges[j][3]))
    return ins, rem
