"""C05 helpers: collection specs (G1 + extras, and the G3 raw-row strategy), three independent
builders, and the expected `asdict(force_offset_64=True)` image computed from the spec alone.

A *collection spec* is the spec of vf/gen.py (same row layouts) plus
  provenances  [[timestamp, record]]          latin-1 str of the raw bytes
  schemas      {table: str}                   raw schema text per table (unicode)
  ts_schema    str                            top-level schema text
  metadata     latin-1 str                    top-level metadata bytes
  time_units   str (unicode)
  refseq       None | {data, url, schema: unicode str; metadata: latin-1 str}
  index        "none" | "build" | [[insertion...], [removal...]]
All ragged byte fields (metadata, allelic states, provenance text) are latin-1 `str` of the bytes.
Doubles are floats, or strings "nan"/"inf"/"-inf"/"bits:<16 hex little endian>"; a mutation time of
None is tskit.UNKNOWN_TIME.
"""
import struct

from hypothesis import strategies as st

from .. import gen
from ..gen import B, F

TABLES = ("individuals", "nodes", "edges", "migrations", "sites", "mutations", "populations",
          "provenances")
MD_TABLES = TABLES[:-1]
UNKNOWN_BITS = "2174696b7374f87f"  # TSK_UNKNOWN_TIME 0x7FF874736B697421

# schema texts ---------------------------------------------------------------------------------
CANON_SCHEMAS = [
    '{"codec":"json"}',
    '{"codec":"json","title":"\\u00e9\\u2603"}',
    '{"codec":"json","properties":{"a":{"type":"integer"}},"type":"object"}',
]
VALID_NONCANON_SCHEMAS = ['{"codec": "json"}', '{"codec":"json","title":"é☃ schéma"}',
                          '{"title":"z","codec":"json"}']
RAW_SCHEMAS = ["not json é", "{", "☃", "a\x00b", '{"codec":"nope"}']

JSON_MD = ["", "", "{}", '{"a":1}', '{"k":"\xc3\xa9"}', '{"a":2,"b":[1,2]}']
RAW_MD = ["", "", "a", "\x00", "ab\x00c", "\xff\xfe\x80", "{}", "x" * 40, "\x00\x00"]
TEXT_SAFE = ["", "", "A", "ACGT", "\xc3\xa9", "\xe2\x98\x83x", "a\x00b", "T", "\t\n "]
TEXT_RAW = TEXT_SAFE + ["\xff", "\x80\x00", "\xe2\x98"]
UNICODE_TEXT = ["", "unknown", "generations", "ticks", "é☃", "t\x00u", "A" * 33]

NAN_BITS = ["000000000000f87f", UNKNOWN_BITS, "010000000000f87f", "efbeadde0000f87f", "010000000000f07f",
            "000000000000f8ff", "ffffffffffffff7f"]


# ------------------------------------------------------------------ scalar encodings
def fbits(v):
    """8 little-endian bytes of a spec double (exact, payload preserving)."""
    if v is None:
        return bytes.fromhex(UNKNOWN_BITS)
    if isinstance(v, str) and v.startswith("bits:"):
        return bytes.fromhex(v[5:])
    return struct.pack("<d", float(v))


def fval(v):
    """python float of a spec double (payload preserving)."""
    return struct.unpack("<d", fbits(v))[0]


def is_nan_spec(v):
    x = fval(v)
    return x != x


def _f64(vals):
    import numpy as np

    return np.frombuffer(b"".join(fbits(v) for v in vals), dtype="<f8").copy()


def _arr(vals, dtype):
    import numpy as np

    return np.array(list(vals), dtype=dtype)


def _ragged(items, dtype, conv):
    """items: list of per-row element lists -> (flat array, offsets list)."""
    import numpy as np

    flat = []
    off = [0]
    for it in items:
        flat.extend(conv(it))
        off.append(len(flat))
    if dtype == "f8":
        data = _f64(flat)
    else:
        data = np.array(flat, dtype=dtype)
    return data, off


def _bytes_col(strs):
    import numpy as np

    raw = [B(s) for s in strs]
    data = np.frombuffer(b"".join(raw), dtype=np.int8).copy()
    off = [0]
    for r in raw:
        off.append(off[-1] + len(r))
    return data, off


# ------------------------------------------------------------------ the column image of a spec
def columns(spec):
    """{table: {column: ndarray | offsets-list}} straight from the rows of the spec.
    Offsets are python lists (dtype chosen by the consumer)."""
    inds = spec.get("individuals", [])
    nodes = spec["nodes"]
    edges = spec["edges"]
    migs = spec.get("migrations", [])
    sites = spec.get("sites", [])
    muts = spec.get("mutations", [])
    pops = spec.get("populations", [])
    provs = spec.get("provenances", [])
    out = {}
    loc, loc_off = _ragged([r[1] for r in inds], "f8", lambda x: x)
    par, par_off = _ragged([r[2] for r in inds], "<i4", lambda x: x)
    md, md_off = _bytes_col([r[3] for r in inds])
    out["individuals"] = dict(flags=_arr((r[0] for r in inds), "<u4"), location=loc,
                              location_offset=loc_off, parents=par, parents_offset=par_off,
                              metadata=md, metadata_offset=md_off)
    md, md_off = _bytes_col([r[4] for r in nodes])
    out["nodes"] = dict(time=_f64([r[1] for r in nodes]), flags=_arr((r[0] for r in nodes), "<u4"),
                        population=_arr((r[2] for r in nodes), "<i4"),
                        individual=_arr((r[3] for r in nodes), "<i4"),
                        metadata=md, metadata_offset=md_off)
    md, md_off = _bytes_col([r[4] for r in edges])
    out["edges"] = dict(left=_f64([r[0] for r in edges]), right=_f64([r[1] for r in edges]),
                        parent=_arr((r[2] for r in edges), "<i4"),
                        child=_arr((r[3] for r in edges), "<i4"), metadata=md, metadata_offset=md_off)
    md, md_off = _bytes_col([r[6] for r in migs])
    out["migrations"] = dict(left=_f64([r[0] for r in migs]), right=_f64([r[1] for r in migs]),
                             node=_arr((r[2] for r in migs), "<i4"),
                             source=_arr((r[3] for r in migs), "<i4"),
                             dest=_arr((r[4] for r in migs), "<i4"),
                             time=_f64([r[5] for r in migs]), metadata=md, metadata_offset=md_off)
    anc, anc_off = _bytes_col([r[1] for r in sites])
    md, md_off = _bytes_col([r[2] for r in sites])
    out["sites"] = dict(position=_f64([r[0] for r in sites]), ancestral_state=anc,
                        ancestral_state_offset=anc_off, metadata=md, metadata_offset=md_off)
    der, der_off = _bytes_col([r[2] for r in muts])
    md, md_off = _bytes_col([r[5] for r in muts])
    out["mutations"] = dict(site=_arr((r[0] for r in muts), "<i4"),
                            node=_arr((r[1] for r in muts), "<i4"),
                            time=_f64([r[4] for r in muts]),
                            parent=_arr((r[3] for r in muts), "<i4"),
                            derived_state=der, derived_state_offset=der_off,
                            metadata=md, metadata_offset=md_off)
    md, md_off = _bytes_col([r[0] for r in pops])
    out["populations"] = dict(metadata=md, metadata_offset=md_off)
    tsd, ts_off = _bytes_col([r[0] for r in provs])
    rec, rec_off = _bytes_col([r[1] for r in provs])
    out["provenances"] = dict(timestamp=tsd, timestamp_offset=ts_off, record=rec,
                              record_offset=rec_off)
    return out


def refseq_fields(spec):
    """(data, url, metadata bytes, schema) or None when the reference sequence is null."""
    r = spec.get("refseq")
    if not r:
        return None
    f = (r.get("data", ""), r.get("url", ""), B(r.get("metadata", "")), r.get("schema", ""))
    if not any(f):
        return None
    return f


def explicit_index(spec):
    ix = spec.get("index", "none")
    if isinstance(ix, list):
        return [int(x) for x in ix[0]], [int(x) for x in ix[1]]
    return None


# ------------------------------------------------------------------ canonical comparable images
def _nd(a):
    return ("nd", a.dtype.str, a.tobytes())


def expected_image(spec, index=None, skip_tables=False, skip_refseq=False):
    """Canonical image of what `asdict(force_offset_64=True)` must return for an object holding
    exactly the data of `spec` (index = None | (insertion ndarray, removal ndarray))."""
    import numpy as np

    E = {}
    E["sequence_length"] = ("f", fbits(spec["L"]))
    E["time_units"] = ("str", spec.get("time_units", "unknown"))
    if spec.get("ts_schema"):
        E["metadata_schema"] = ("str", spec["ts_schema"])
    if spec.get("metadata"):
        E["metadata"] = ("bytes", B(spec["metadata"]))
    rf = refseq_fields(spec)
    if rf is not None and not skip_refseq:
        d = dict(data=("str", rf[0]), url=("str", rf[1]))
        if rf[2]:
            d["metadata"] = ("bytes", rf[2])
        if rf[3]:
            d["metadata_schema"] = ("str", rf[3])
        E["reference_sequence"] = d
    if skip_tables:
        cols = columns(dict(L=spec["L"], nodes=[], edges=[]))
        schemas = {}
        index = (np.zeros(0, dtype="<i4"), np.zeros(0, dtype="<i4"))
    else:
        cols = columns(spec)
        schemas = spec.get("schemas", {})
    for name in TABLES:
        d = {}
        for k, v in cols[name].items():
            if isinstance(v, list):
                v = np.array(v, dtype="<u8")
            d[k] = _nd(v)
        if name != "provenances" and schemas.get(name):
            d["metadata_schema"] = ("str", schemas[name])
        E[name] = d
    if index is None:
        E["indexes"] = {}
    else:
        E["indexes"] = dict(edge_insertion_order=_nd(np.asarray(index[0], dtype="<i4")),
                            edge_removal_order=_nd(np.asarray(index[1], dtype="<i4")))
    return E


def image(d):
    """Canonical comparable image of an asdict() result (encoding_version dropped)."""
    import numpy as np

    out = {}
    for k, v in d.items():
        if k == "encoding_version":
            continue
        if isinstance(v, dict):
            out[k] = image(v)
        elif isinstance(v, np.ndarray):
            out[k] = ("nd", v.dtype.str, v.tobytes())
        elif isinstance(v, float):
            out[k] = ("f", struct.pack("<d", v))
        elif isinstance(v, str):
            out[k] = ("str", v)
        elif isinstance(v, (bytes, bytearray)):
            out[k] = ("bytes", bytes(v))
        else:
            out[k] = (type(v).__name__, repr(v))
    return out


def image_diff(a, b, path=""):
    """First difference between two images as text, or None."""
    if isinstance(a, dict) and isinstance(b, dict):
        ka, kb = sorted(a), sorted(b)
        if ka != kb:
            return f"{path or '/'}: keys {ka} expected {kb}"
        for k in ka:
            r = image_diff(a[k], b[k], path + "/" + k)
            if r:
                return r
        return None
    if a != b:
        return f"{path}: got {_show(a)} expected {_show(b)}"
    return None


def _show(x):
    if isinstance(x, tuple) and x and x[0] == "nd":
        return f"{x[1]}[{x[2].hex()[:160]}]"
    if isinstance(x, tuple) and x and x[0] == "f":
        return f"f64[{x[1].hex()}]"
    return repr(x)[:200]


def to_offsets32(E):
    """The image of the default asdict() (32-bit offsets) derived from the 64-bit image."""
    import numpy as np

    out = {}
    for k, v in E.items():
        if isinstance(v, dict):
            out[k] = to_offsets32(v)
        elif k.endswith("_offset") and isinstance(v, tuple) and v[0] == "nd":
            out[k] = _nd(np.frombuffer(v[2], dtype="<u8").astype("<u4"))
        else:
            out[k] = v
    return out


# ------------------------------------------------------------------ builders
def _utf8(s):
    """latin-1 str of bytes -> python text, or None when the bytes are not UTF-8."""
    try:
        return B(s).decode("utf-8")
    except UnicodeDecodeError:
        return None


def real_dict(spec, offset_dtype, index):
    """A dict in the documented interchange layout assembled from the spec (not via asdict)."""
    import numpy as np

    d = dict(encoding_version=(1, 6), sequence_length=fval(spec["L"]),
             time_units=spec.get("time_units", "unknown"))
    if spec.get("ts_schema"):
        d["metadata_schema"] = spec["ts_schema"]
    if spec.get("metadata"):
        d["metadata"] = B(spec["metadata"])
    rf = refseq_fields(spec)
    if rf is not None:
        r = dict(data=rf[0], url=rf[1])
        if rf[2]:
            r["metadata"] = rf[2]
        if rf[3]:
            r["metadata_schema"] = rf[3]
        d["reference_sequence"] = r
    cols = columns(spec)
    for name in TABLES:
        t = {}
        for k, v in cols[name].items():
            t[k] = np.array(v, dtype=offset_dtype) if isinstance(v, list) else v
        s = spec.get("schemas", {}).get(name)
        if name != "provenances" and s:
            t["metadata_schema"] = s
        d[name] = t
    if index is not None:
        d["indexes"] = dict(edge_insertion_order=np.array(index[0], dtype=np.int32),
                            edge_removal_order=np.array(index[1], dtype=np.int32))
    else:
        d["indexes"] = {}
    return d


def build(spec, tskit, how="rows"):
    """TableCollection holding the rows of `spec`.  how: rows | columns | dict32 | dict64."""
    import numpy as np

    ix = explicit_index(spec)
    if how in ("dict32", "dict64"):
        t = tskit.TableCollection.fromdict(
            real_dict(spec, np.uint32 if how == "dict32" else np.uint64, ix))
    else:
        t = tskit.TableCollection(fval(spec["L"]))
        cols = columns(spec) if how == "columns" else None
        schemas = spec.get("schemas", {})
        for name in TABLES:
            table = getattr(t, name)
            rows = spec.get(name, [])
            use_cols = how == "columns"
            if not use_cols and not _ids_ok_for_add_row(name, rows):
                use_cols = True
            if not use_cols:
                # add_row takes allelic states / provenance text as python str
                if name == "sites" and any(_utf8(r[1]) is None for r in rows):
                    use_cols = True
                if name == "mutations" and any(_utf8(r[2]) is None for r in rows):
                    use_cols = True
                if name == "provenances" and any(_utf8(r[0]) is None or _utf8(r[1]) is None for r in rows):
                    use_cols = True
            if use_cols:
                c = cols[name] if cols is not None else columns(spec)[name]
                kw = {k: (np.array(v, dtype=np.uint64) if isinstance(v, list) else v) for k, v in c.items()}
                table.set_columns(**kw)
            else:
                _add_rows(tskit, name, table, rows)
            if name != "provenances":
                s = schemas.get(name, "")
                if s:
                    table.ll_table.metadata_schema = s
        if "time_units" in spec:
            t.time_units = spec["time_units"]
        if spec.get("ts_schema"):
            t._ll_tables.metadata_schema = spec["ts_schema"]
        if spec.get("metadata"):
            t._ll_tables.metadata = B(spec["metadata"])
        rf = refseq_fields(spec)
        if rf is not None:
            ll = t._ll_tables.reference_sequence
            if rf[0]:
                t.reference_sequence.data = rf[0]
            if rf[1]:
                t.reference_sequence.url = rf[1]
            if rf[2]:
                ll.metadata = rf[2]
            if rf[3]:
                ll.metadata_schema = rf[3]
        if ix is not None:
            t.indexes = tskit.TableCollectionIndexes(
                edge_insertion_order=np.array(ix[0], dtype=np.int32),
                edge_removal_order=np.array(ix[1], dtype=np.int32))
    if spec.get("index", "none") == "build":
        t.build_index()
    return t


ID_COLS = dict(nodes=(2, 3), edges=(2, 3), migrations=(2, 3, 4), mutations=(0, 1, 3))


def _ids_ok_for_add_row(name, rows):
    """add_row converts scalar ids with a range check (NULL..TSK_MAX_ID); set_columns takes any
    int32."""
    return all(-1 <= r[j] <= 2**31 - 2 for r in rows for j in ID_COLS.get(name, ()))


def _add_rows(tskit, name, table, rows):
    if name == "individuals":
        for fl, loc, par, md in rows:
            table.add_row(flags=fl, location=[fval(x) for x in loc], parents=par, metadata=B(md))
    elif name == "nodes":
        for fl, tm, pop, ind, md in rows:
            table.add_row(flags=fl, time=fval(tm), population=pop, individual=ind, metadata=B(md))
    elif name == "edges":
        for l, r, p, c, md in rows:
            table.add_row(fval(l), fval(r), p, c, metadata=B(md))
    elif name == "migrations":
        for l, r, n, s, d, tm, md in rows:
            table.add_row(fval(l), fval(r), n, s, d, fval(tm), metadata=B(md))
    elif name == "sites":
        for pos, a, md in rows:
            table.add_row(fval(pos), _utf8(a), metadata=B(md))
    elif name == "mutations":
        for s, n, d, p, tm, md in rows:
            table.add_row(site=s, node=n, derived_state=_utf8(d), parent=p, time=fval(tm),
                          metadata=B(md))
    elif name == "populations":
        for (md,) in rows:
            table.add_row(metadata=B(md))
    elif name == "provenances":
        for ts_, rec in rows:
            table.add_row(record=_utf8(rec), timestamp=_utf8(ts_))


# ------------------------------------------------------------------ strategies
I32 = st.one_of(st.sampled_from([-1, -1, 0, 0, 1, 2, 3, 7, 2**31 - 1, -(2**31)]),
                st.integers(-(2**31), 2**31 - 1))
U32 = st.one_of(st.sampled_from([0, 0, 1, 1, 2, 1 << 16, 1 << 31, 2**32 - 1]),
                st.integers(0, 2**32 - 1))
DBL = st.one_of(
    st.sampled_from([0.0, -0.0, 1.0, 0.5, -1.5, 2.0, 1e300, 5e-324, "inf", "-inf"]),
    st.sampled_from(["bits:" + b for b in NAN_BITS]),
    st.floats(allow_nan=False, allow_infinity=False, width=64),
    st.integers(0, 2**64 - 1).map(lambda i: "bits:" + i.to_bytes(8, "little").hex()),
)
L_POOL = [1.0, 1.0, 0.5, 3.5, 10.0, 5e-324, 1e-300, 2.0**60, 1.7976931348623157e308]
MD_INDEX = {"nodes": 4, "edges": 4, "sites": 2, "mutations": 5, "individuals": 3,
            "populations": 0, "migrations": 6}


def _bytes(pool):
    return st.one_of(st.sampled_from(pool), st.sampled_from(pool),
                     st.binary(max_size=10).map(lambda b: b.decode("latin-1")))


def _utf8_text():
    return st.one_of(st.sampled_from(TEXT_SAFE),
                     st.text(max_size=5).map(lambda s: s.encode("utf-8").decode("latin-1")))


def schema_pool(mode):
    if mode == "any":
        return [""] * 4 + CANON_SCHEMAS + VALID_NONCANON_SCHEMAS + RAW_SCHEMAS
    if mode == "valid":
        return [""] * 3 + CANON_SCHEMAS + VALID_NONCANON_SCHEMAS
    return [""] * 3 + CANON_SCHEMAS


def md_strategy(schema, conform):
    """Metadata bytes for a row of a table whose schema text is `schema`.  With conform=True a
    table that has a schema only gets JSON documents (decodable by the JSON codec)."""
    if conform and schema:
        return st.sampled_from(JSON_MD)
    return _bytes(RAW_MD)


def draw_schemas(draw, mode):
    pool = schema_pool(mode)
    schemas = {}
    if draw(st.integers(0, 2)) > 0:
        for name in MD_TABLES:
            s = draw(st.sampled_from(pool))
            if s:
                schemas[name] = s
    return schemas


def draw_extras(draw, spec, schema_mode, conform, text_safe, index_modes, provenance=True):
    """Adds provenances / top-level schema+metadata / time units / reference sequence (any subset
    of its four fields) / index mode to a spec, in place."""
    text = _utf8_text() if text_safe else _bytes(TEXT_RAW)
    pool = schema_pool(schema_mode)
    if provenance:
        spec["provenances"] = draw(st.lists(st.tuples(text, text).map(list), max_size=3))
    else:
        spec["provenances"] = []
    spec["ts_schema"] = draw(st.sampled_from(pool))
    spec["metadata"] = draw(md_strategy(spec["ts_schema"], conform))
    spec["time_units"] = draw(st.sampled_from(UNICODE_TEXT + ["unknown"] * 2))
    if draw(st.integers(0, 2)) == 0:
        spec["refseq"] = None
    else:
        mask = draw(st.integers(0, 15))
        sch = draw(st.sampled_from([s for s in pool if s])) if mask & 8 else ""
        spec["refseq"] = dict(
            data=draw(st.sampled_from(["ACGT", "A", "N" * 70, "é☃", "a\x00c"])) if mask & 1 else "",
            url=draw(st.sampled_from(["http://x.y/z", "u", "ürl", "a\x00"])) if mask & 2 else "",
            metadata=draw(md_strategy(sch, conform).filter(bool)) if mask & 4 else "",
            schema=sch,
        )
    mode = draw(st.sampled_from(list(index_modes)))
    if mode == "explicit":
        ne = len(spec["edges"])
        mode = [draw(st.lists(I32, min_size=ne, max_size=ne)),
                draw(st.lists(I32, min_size=ne, max_size=ne))]
    spec["index"] = mode
    return spec


def row_strategies(schemas, conform, text_safe):
    """Per-table strategy of one arbitrary row (G3)."""
    text = _utf8_text() if text_safe else _bytes(TEXT_RAW)

    def md(name):
        return md_strategy(schemas.get(name, ""), conform)

    return dict(
        individuals=st.tuples(U32, st.lists(DBL, max_size=3), st.lists(I32, max_size=3),
                              md("individuals")).map(list),
        nodes=st.tuples(U32, DBL, I32, I32, md("nodes")).map(list),
        edges=st.tuples(DBL, DBL, I32, I32, md("edges")).map(list),
        migrations=st.tuples(DBL, DBL, I32, I32, I32, DBL, md("migrations")).map(list),
        sites=st.tuples(DBL, text, md("sites")).map(list),
        mutations=st.tuples(I32, I32, text, I32, st.one_of(st.none(), DBL), md("mutations")).map(list),
        populations=st.tuples(md("populations")).map(list),
        provenances=st.tuples(text, text).map(list),
    )


@st.composite
def g3_spec(draw, schema_mode="any", conform=False, text_safe=False, max_rows=3):
    """G3: arbitrary rows in all eight tables; NOT a valid tree sequence in general."""
    schemas = draw_schemas(draw, schema_mode)
    rs = row_strategies(schemas, conform, text_safe)
    empty_mask = draw(st.integers(0, 255)) if draw(st.integers(0, 3)) == 0 else 0
    spec = dict(L=draw(st.sampled_from(L_POOL)), schemas=schemas)
    for i, name in enumerate(MD_TABLES):
        spec[name] = [] if empty_mask >> i & 1 else draw(st.lists(rs[name], max_size=max_rows))
    draw_extras(draw, spec, schema_mode, conform, text_safe, ("none", "explicit"),
                provenance=not (empty_mask >> 7 & 1))
    spec["valid"] = False
    return spec


@st.composite
def g1_spec(draw, schema_mode="valid", conform=False, text_safe=True, **kw):
    """G1 (valid tree sequence by construction, vf/gen.py) + extras.  With conform=True the
    metadata of the rows of every table that has a schema is redrawn from JSON documents."""
    kw.setdefault("max_nodes", 6)
    kw.setdefault("max_sites", 3)
    kw.setdefault("max_intervals", 3)
    alpha = draw(st.sampled_from([("A", "C", "G", "T"), ("", "A", "AC"), ("\xc3\xa9", "0", "1")]))
    spec = draw(gen.ts_spec(alphabet=alpha, **kw))
    schemas = draw_schemas(draw, schema_mode)
    spec["schemas"] = schemas
    if conform:
        for name, i in MD_INDEX.items():
            if schemas.get(name):
                for r in spec[name]:
                    r[i] = draw(st.sampled_from(JSON_MD))
    draw_extras(draw, spec, schema_mode, conform, text_safe, ("none", "build"))
    spec["valid"] = True
    return spec


# ------------------------------------------------------------------ labels
def spec_labels(spec):
    labs = set()
    labs.add("g1_valid" if spec.get("valid") else "g3_raw")
    cols = columns(spec)
    mixed = False
    for name in TABLES:
        for k, v in cols[name].items():
            if isinstance(v, list):
                lens = [b - a for a, b in zip(v[:-1], v[1:])]
                if lens and min(lens) == 0 and max(lens) > 0:
                    mixed = True
    if mixed:
        labs.add("ragged_empty_and_nonempty_row")
    if any(len(spec.get(n, [])) == 0 for n in TABLES):
        labs.add("some_table_empty")
    if all(len(spec.get(n, [])) == 0 for n in TABLES):
        labs.add("all_tables_empty")
    payload = False
    for name in ("nodes", "edges", "migrations", "sites", "mutations", "individuals"):
        for k, v in cols[name].items():
            if not isinstance(v, list) and v.dtype.kind == "f" and len(v):
                import numpy as np

                bits = v.view("<u8")
                nan = (bits & 0x7FF0000000000000 == 0x7FF0000000000000) & (bits & 0xFFFFFFFFFFFFF != 0)
                if (nan & (bits != 0x7FF8000000000000)).any():
                    payload = True
    if payload:
        labs.add("nan_payload")
    sch = [s for s in list(spec.get("schemas", {}).values()) + [spec.get("ts_schema", "")] if s]
    rf = refseq_fields(spec)
    if rf and rf[3]:
        sch.append(rf[3])
    if sch:
        labs.add("schema")
    if any(any(ord(c) > 127 for c in s) for s in sch):
        labs.add("non_ascii_schema")
    if any(s in RAW_SCHEMAS for s in sch):
        labs.add("non_json_schema")
    if rf:
        labs.add("refseq")
        if sum(1 for f in rf if f) < 4:
            labs.add("refseq_partial")
    ix = spec.get("index", "none")
    labs.add("index_none" if ix == "none" else ("index_built" if ix == "build" else "index_explicit"))
    if spec.get("metadata"):
        labs.add("ts_metadata")
    if spec.get("provenances"):
        labs.add("provenance")
    if any("\x00" in x for n in TABLES for r in spec.get(n, []) for x in r if isinstance(x, str)):
        labs.add("embedded_nul")
    return labs


def nontrivial(labs):
    return bool(labs & {"ragged_empty_and_nonempty_row", "nan_payload"})
