"""Deterministic larger tree shapes (single interval [0,1)) used by size-dependent sub-checks."""


def shape_spec(shape, k, internal_samples=False):
    """k leaf samples.  star: one root; comb: caterpillar; balanced: binary heap layout; multiroot: k/2 cherries."""
    nodes, edges = [], []
    leaf = lambda: [1, 0.0, -1, -1, ""]  # noqa: E731
    if shape == "star":
        nodes = [leaf() for _ in range(k)] + [[0, 1.0, -1, -1, ""]]
        edges = [[0.0, 1.0, k, u, ""] for u in range(k)]
    elif shape == "comb":
        nodes = [leaf() for _ in range(k)]
        prev = 0
        for j in range(1, k):
            p = len(nodes)
            nodes.append([1 if internal_samples and j % 7 == 0 else 0, float(j), -1, -1, ""])
            edges.append([0.0, 1.0, p, prev, ""])
            edges.append([0.0, 1.0, p, j, ""])
            prev = p
    elif shape == "balanced":
        nodes = [leaf() for _ in range(k)]
        level, t = list(range(k)), 1.0
        while len(level) > 1:
            nxt = []
            for i in range(0, len(level) - 1, 2):
                p = len(nodes)
                nodes.append([1 if internal_samples and p % 5 == 0 else 0, t, -1, -1, ""])
                edges.append([0.0, 1.0, p, level[i], ""])
                edges.append([0.0, 1.0, p, level[i + 1], ""])
                nxt.append(p)
            if len(level) % 2:
                nxt.append(level[-1])
            level, t = nxt, t + 1.0
    elif shape == "twostar":
        # two wide polytomies under one root
        nodes = [leaf() for _ in range(k)] + [[0, 1.0, -1, -1, ""], [0, 1.0, -1, -1, ""], [0, 2.0, -1, -1, ""]]
        half = k // 2
        edges = [[0.0, 1.0, k if u < half else k + 1, u, ""] for u in range(k)]
        edges += [[0.0, 1.0, k + 2, k, ""], [0.0, 1.0, k + 2, k + 1, ""]]
    elif shape == "multiroot":
        nodes = [leaf() for _ in range(k)]
        for i in range(0, k - 1, 2):
            p = len(nodes)
            nodes.append([0, 1.0, -1, -1, ""])
            edges.append([0.0, 1.0, p, i, ""])
            edges.append([0.0, 1.0, p, i + 1, ""])
    else:
        raise KeyError(shape)
    times = [nd[1] for nd in nodes]
    edges.sort(key=lambda e: (times[e[2]], e[2], e[3]))
    return dict(L=1.0, nodes=nodes, edges=edges, sites=[], mutations=[], individuals=[], populations=[], migrations=[])


def lcg(seed):
    """Tiny deterministic generator (a pure function of the case) for genotype patterns."""
    x = (seed * 2654435761 + 12345) % (2**32)
    while True:
        x = (x * 1664525 + 1013904223) % (2**32)
        yield x >> 8


def two_tree_spec(shape_a, shape_b, k, internal_samples=False, with_sites=True):
    """shape_a on [0,1) and shape_b on [1,2) over the same k leaves; a few sites with mutations."""
    a = shape_spec(shape_a, k, internal_samples)
    b = shape_spec(shape_b, k, internal_samples)
    nodes = [list(nd) for nd in a["nodes"]]
    off = len(nodes) - k
    nodes += [list(nd) for nd in b["nodes"][k:]]
    edges = [list(e) for e in a["edges"]]
    for l, r, p, c, md in b["edges"]:
        edges.append([1.0, 2.0, p + off if p >= k else p, c + off if c >= k else c, md])
    times = [nd[1] for nd in nodes]
    edges.sort(key=lambda e: (times[e[2]], e[2], e[3], e[0]))
    sites, muts = [], []
    if with_sites:
        n = len(nodes)
        for j, x in enumerate((0.25, 0.5, 1.25, 1.75)):
            sites.append([x, "A", ""])
            iv = 0 if x < 1 else 1
            # a mutation on an internal node present in that interval and one on a leaf below/elsewhere
            internal = [e[2] for e in edges if (e[0] == float(iv))]
            top = internal[(7 * j + 3) % len(internal)] if internal else 0
            muts.append([j, top, "C", -1, None, ""])
            muts.append([j, (11 * j + 5) % k, "G", -1, None, ""])
    spec = dict(L=2.0, nodes=nodes, edges=edges, sites=sites, mutations=muts, individuals=[], populations=[],
                migrations=[])
    if with_sites:
        from .. import model
        par = model.mutation_parents(spec)
        # parent-first order within a site: the internal-node mutation was listed first
        for m, p_ in zip(spec["mutations"], par):
            m[3] = p_
    return spec


def staggered_twostar(k):
    """k samples under two wide parents, sample u attached only over [u, u+1): every parent buffers k/2
    DIFFERENT child intervals (L = k)."""
    nodes = [[1, 0.0, -1, -1, ""] for _ in range(k)] + [[0, 1.0, -1, -1, ""], [0, 1.0, -1, -1, ""], [0, 2.0, -1, -1, ""]]
    half = k // 2
    edges = [[float(u), float(u + 1), k if u < half else k + 1, u, ""] for u in range(k)]
    edges += [[0.0, float(k), k + 2, k, ""], [0.0, float(k), k + 2, k + 1, ""]]
    times = [nd[1] for nd in nodes]
    edges.sort(key=lambda e: (times[e[2]], e[2], e[3], e[0]))
    return dict(L=float(k), nodes=nodes, edges=edges, sites=[], mutations=[], individuals=[], populations=[],
                migrations=[])


def deep_pedigree_tables(tskit, G, order_seed):
    """G ancestral generations x 2 individuals (both are parents of both individuals of the next generation), two
    sample tips.  The number of descendant paths of an individual doubles per generation (beyond 32 / 64 bits for deep
    pedigrees).  Node order is fixed; the individual table order is a deterministic permutation chosen by order_seed."""
    keys = [(g, i) for g in range(G) for i in (0, 1)] + [("tip", 0), ("tip", 1)]
    g_ = lcg(order_seed + 17)
    order = sorted(range(len(keys)), key=lambda k: (next(g_), k)) if order_seed else list(range(len(keys)))
    ind_id = {keys[k]: j for j, k in enumerate(order)}
    L = 10.0
    t = tskit.TableCollection(L)
    for k in order:
        g, i = keys[k]
        if g == "tip":
            parents = [ind_id[(G - 1, 0)], ind_id[(G - 1, 1)]]
        elif g == 0:
            parents = [-1, -1]
        else:
            parents = [ind_id[(g - 1, 0)], ind_id[(g - 1, 1)]]
        t.individuals.add_row(flags=0, location=[float(i)], parents=parents, metadata=repr(keys[k]).encode())
    for g in range(G):
        for i in (0, 1):
            t.nodes.add_row(flags=0, time=G - g, individual=ind_id[(g, i)])
    t.nodes.add_row(flags=1, time=0, individual=ind_id[("tip", 0)])
    t.nodes.add_row(flags=1, time=0, individual=ind_id[("tip", 1)])
    for g in range(G - 1):
        for i in (0, 1):
            t.edges.add_row(0, L, 2 * g + i, 2 * (g + 1) + i)
    t.edges.add_row(0, L, 2 * (G - 1), 2 * G)
    t.edges.add_row(0, L, 2 * (G - 1) + 1, 2 * G + 1)
    t.sites.add_row(3.0, "A")
    t.mutations.add_row(site=0, node=2 * G, derived_state="C")
    t.mutations.add_row(site=0, node=2 * G + 1, derived_state="G")
    t.sort()
    return t


def coord_regime_spec(scale, sites=False):
    """Four trees whose breakpoints sit in an extreme floating-point regime: one ulp apart, near the largest double,
    or among the subnormals."""
    import math

    if scale == "ulp":
        a = 1.0
        b = math.nextafter(a, math.inf)
        bps = [0.0, a, b, math.nextafter(b, math.inf), 2.0]
    elif scale == "huge":
        a = 0.95e308
        b = math.nextafter(a, math.inf)
        bps = [0.0, 0.5e308, a, b, 1.7e308]
    elif scale == "ulp_odd":
        a = math.nextafter(3.0, math.inf)
        b = math.nextafter(a, math.inf)
        c = math.nextafter(b, math.inf)
        bps = [0.0, a, b, c, math.nextafter(c, math.inf), 4.0]
    else:
        a = 5e-324
        bps = [0.0, a, 2 * a, 1e-300, 1.0]
    n = len(bps)
    nodes = [[1, 0.0, -1, -1, ""], [1, 0.0, -1, -1, ""], [1, 0.0, -1, -1, ""]] + [[0, 1.0 + i, -1, -1, ""] for i in range(n)]
    edges = []
    for i in range(n - 1):
        p_ = 3 + i
        edges.append([bps[i], bps[i + 1], p_, 0, ""])
        edges.append([bps[i], bps[i + 1], p_, 1 + (i % 2), ""])
    times = [nd[1] for nd in nodes]
    edges.sort(key=lambda e: (times[e[2]], e[2], e[3], e[0]))
    st_, mu = [], []
    if sites:
        for i in range(n - 1):
            st_.append([bps[i], "A", ""])
            mu.append([i, 0, "T", -1, None, ""])
    return dict(L=bps[-1], nodes=nodes, edges=edges, sites=st_, mutations=mu, individuals=[], populations=[],
                migrations=[])


def alternating_unary_spec(B, extra_sample=True):
    """Root above two unary nodes u0, u1 whose children alternate at every one of B unit intervals: few edges above,
    B ancestry segments arriving at the root through each of them."""
    nodes = [[1, 0.0, -1, -1, ""], [1, 0.0, -1, -1, ""], [1, 0.0, -1, -1, ""],
             [0, 1.0, -1, -1, ""], [0, 1.0, -1, -1, ""], [0, 2.0, -1, -1, ""]]
    u = [3, 4]
    r = 5
    edges = []
    for i in range(B):
        edges.append([float(i), float(i + 1), u[i % 2], 0, ""])
        edges.append([float(i), float(i + 1), u[(i + 1) % 2], 1, ""])
    edges.append([0.0, float(B), r, 3, ""])
    edges.append([0.0, float(B), r, 4, ""])
    if extra_sample:
        edges.append([0.0, float(B), r, 2, ""])
    times = [nd[1] for nd in nodes]
    edges.sort(key=lambda e: (times[e[2]], e[2], e[3], e[0]))
    sites = [[float(i) + 0.5, "A", ""] for i in range(0, B, max(1, B // 40))]
    muts = [[j, u[j % 2], "T", -1, None, ""] for j in range(len(sites))]
    return dict(L=float(B), nodes=nodes, edges=edges, sites=sites, mutations=muts, individuals=[], populations=[],
                migrations=[])
