"""Deterministic larger tree shapes (single interval [0,1)) used by size-dependent sub-checks."""


def shape_spec(shape, k, internal_samples=False):
    """k leaf samples.  star: one root; comb: caterpillar; balanced: binary heap layout; multiroot: k/2 cherries."""
    nodes, edges = [], []
    leaf = lambda: [1, 0.0, -1, -1, ""]  # noqa: E731
    if shape == "star":
        nodes = [leaf() for _ in range(k)] + [[0, 1.0, -1, -1, ""]]
        edges = [[0.0, 1.0, k, u, ""] for u in range(k)]
    elif shape == "comb":
        nodes = [leaf() for _ in range(k)]
        prev = 0
        for j in range(1, k):
            p = len(nodes)
            nodes.append([1 if internal_samples and j % 7 == 0 else 0, float(j), -1, -1, ""])
            edges.append([0.0, 1.0, p, prev, ""])
            edges.append([0.0, 1.0, p, j, ""])
            prev = p
    elif shape == "balanced":
        nodes = [leaf() for _ in range(k)]
        level, t = list(range(k)), 1.0
        while len(level) > 1:
            nxt = []
            for i in range(0, len(level) - 1, 2):
                p = len(nodes)
                nodes.append([1 if internal_samples and p % 5 == 0 else 0, t, -1, -1, ""])
                edges.append([0.0, 1.0, p, level[i], ""])
                edges.append([0.0, 1.0, p, level[i + 1], ""])
                nxt.append(p)
            if len(level) % 2:
                nxt.append(level[-1])
            level, t = nxt, t + 1.0
    elif shape == "multiroot":
        nodes = [leaf() for _ in range(k)]
        for i in range(0, k - 1, 2):
            p = len(nodes)
            nodes.append([0, 1.0, -1, -1, ""])
            edges.append([0.0, 1.0, p, i, ""])
            edges.append([0.0, 1.0, p, i + 1, ""])
    else:
        raise KeyError(shape)
    times = [nd[1] for nd in nodes]
    edges.sort(key=lambda e: (times[e[2]], e[2], e[3]))
    return dict(L=1.0, nodes=nodes, edges=edges, sites=[], mutations=[], individuals=[], populations=[], migrations=[])


def lcg(seed):
    """Tiny deterministic generator (a pure function of the case) for genotype patterns."""
    x = (seed * 2654435761 + 12345) % (2**32)
    while True:
        x = (x * 1664525 + 1013904223) % (2**32)
        yield x >> 8


def two_tree_spec(shape_a, shape_b, k, internal_samples=False, with_sites=True):
    """shape_a on [0,1) and shape_b on [1,2) over the same k leaves; a few sites with mutations."""
    a = shape_spec(shape_a, k, internal_samples)
    b = shape_spec(shape_b, k, internal_samples)
    nodes = [list(nd) for nd in a["nodes"]]
    off = len(nodes) - k
    nodes += [list(nd) for nd in b["nodes"][k:]]
    edges = [list(e) for e in a["edges"]]
    for l, r, p, c, md in b["edges"]:
        edges.append([1.0, 2.0, p + off if p >= k else p, c + off if c >= k else c, md])
    times = [nd[1] for nd in nodes]
    edges.sort(key=lambda e: (times[e[2]], e[2], e[3], e[0]))
    sites, muts = [], []
    if with_sites:
        n = len(nodes)
        for j, x in enumerate((0.25, 0.5, 1.25, 1.75)):
            sites.append([x, "A", ""])
            iv = 0 if x < 1 else 1
            # a mutation on an internal node present in that interval and one on a leaf below/elsewhere
            internal = [e[2] for e in edges if (e[0] == float(iv))]
            top = internal[(7 * j + 3) % len(internal)] if internal else 0
            muts.append([j, top, "C", -1, None, ""])
            muts.append([j, (11 * j + 5) % k, "G", -1, None, ""])
    spec = dict(L=2.0, nodes=nodes, edges=edges, sites=sites, mutations=muts, individuals=[], populations=[],
                migrations=[])
    if with_sites:
        from .. import model
        par = model.mutation_parents(spec)
        # parent-first order within a site: the internal-node mutation was listed first
        for m, p_ in zip(spec["mutations"], par):
            m[3] = p_
    return spec
