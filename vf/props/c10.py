"""C10 — truncated or corrupted files are rejected, never loaded as something else.

Fault enumeration over files produced by dump():
  (a) truncation at EVERY byte offset (single objects and the k-th object of a stream);
  (b) EVERY structural byte (header, item descriptors, key region) substituted by a set of values,
      plus semantic substitutions of the multi-byte integer fields;
  (c) sampled substitutions in the data region, biased to offset / id / index / format columns.
"""
import json
import math
import os
import struct

from hypothesis import strategies as st

from .. import gen, model
from ..core import SubCheck
from ..gen import F
from ..validity import validity

META = dict(
    level="fault_enumeration",
    rule="Files are dumped from generated table collections (vf/gen.py specs, valid tree sequences; plus "
    "raw unsorted collections). For every file: truncation at every byte offset 0..size-1; every byte of "
    "the kastore header, of every 64-byte item descriptor and of the key region substituted with "
    "{0x00,0xFF,^0x01,^0x80,+1} plus +-1/+-8/type substitutions of every integer field; and sampled 1-8 "
    "byte substitutions in the array data region. Loaders: tskit.load and TableCollection.load, eager and "
    "skip_tables / skip_reference_sequence. Oracle: a proper prefix raises (EOFError only for the empty "
    "prefix); a structural alteration raises or (known findings) loads an object classified narrowly; a "
    "data alteration raises or yields a well-formed object that round-trips and, for tskit.load, "
    "satisfies the validity predicate and the positional tree model. An evaluation is one generated file "
    "with ALL its faults of the sub-check's kind (thousands of loads); distinct_nontrivial counts distinct "
    "(file, loader) cases; the numbers of individual faults per header/descriptor field and per data "
    "column are in coverage.counters.",
    assumptions=[
        "independent parser of the kastore layout in vf/props/c10.py (header 64 B, 64 B descriptors, packed keys, 8-byte aligned arrays)",
        "validity predicate vf/validity.py and positional model vf/model.py for objects returned after data corruption",
        "files are small (2-8 kB): faults that need >2^32-byte arrays are out of reach",
        "data-region faults are sampled, not enumerated",
    ],
    technique="fault enumeration: every truncation offset and every structural byte of generated files, sampled data-region corruption; oracle = reject or well-formed",
    engines=["byte-fault-enumerator", "hypothesis-runner", "asan-subprocess-driver", "libfuzzer-load-target"],
)

MAGIC = b"\211KAS\r\n\032\n"
HDR = 64
DESC = 64

VERIF = os.path.dirname(os.path.dirname(os.path.dirname(os.path.abspath(__file__))))


def open_keys():
    try:
        with open(os.path.join(VERIF, "known_findings.json")) as f:
            d = json.load(f)
        return {e["key"] for e in d["findings"] if e["property"] == "C10" and e.get("status") == "open"}
    except OSError:
        return set()


# ------------------------------------------------------------------ kastore layout
def parse_layout(buf):
    assert buf[:8] == MAGIC
    vmaj, vmin, nitems, fsize = struct.unpack_from("<HHIQ", buf, 8)
    assert fsize == len(buf), (fsize, len(buf))
    items = []
    for j in range(nitems):
        o = HDR + j * DESC
        typ = buf[o]
        ks, kl, as_, al = struct.unpack_from("<QQQQ", buf, o + 8)
        items.append(dict(type=typ, key_start=ks, key_len=kl, array_start=as_, array_len=al,
                          key=buf[ks:ks + kl].decode("utf8")))
    key_lo = HDR + nitems * DESC
    key_hi = max((it["key_start"] + it["key_len"] for it in items), default=key_lo)
    return dict(nitems=nitems, items=items, key_lo=key_lo, key_hi=key_hi, size=len(buf))


TYPE_SIZE = [1, 1, 2, 2, 4, 4, 8, 8, 4, 8]


def region_of(lay, off):
    if off < HDR:
        return "header"
    if off < lay["key_lo"]:
        return "descriptor"
    if off < lay["key_hi"]:
        return "key"
    return "data"


def header_field(off):
    if off < 8:
        return "magic"
    if off < 10:
        return "version_major"
    if off < 12:
        return "version_minor"
    if off < 16:
        return "num_items"
    if off < 24:
        return "file_size"
    return "reserved"


def desc_field(rel):
    if rel == 0:
        return "type"
    if rel < 8:
        return "reserved_a"
    if rel < 16:
        return "key_start"
    if rel < 24:
        return "key_len"
    if rel < 32:
        return "array_start"
    if rel < 40:
        return "array_len"
    return "reserved_b"


IGNORED_HEADER = set(range(10, 12)) | set(range(24, 64))
IGNORED_DESC = set(range(1, 8)) | set(range(40, 64))

# items the loader treats as optional (absent => default), from tables.c read paths
OPTIONAL_KEYS = {
    "metadata", "metadata_schema", "time_units",
    "edges/metadata", "edges/metadata_offset", "migrations/metadata", "migrations/metadata_offset", "mutations/time",
    "individuals/parents", "individuals/parents_offset",
    "indexes/edge_insertion_order", "indexes/edge_removal_order",
    "reference_sequence/data", "reference_sequence/url", "reference_sequence/metadata",
    "reference_sequence/metadata_schema",
}
for _t in ("individuals", "nodes", "edges", "migrations", "sites", "mutations", "populations"):
    OPTIONAL_KEYS.add(_t + "/metadata_schema")


def is_free_length(key):
    # populations/metadata_offset is the only column that defines the number of population rows
    return key in ("metadata", "metadata_schema", "time_units", "populations/metadata_offset") \
        or key.endswith("/metadata_schema") or key.startswith("reference_sequence/")


# ------------------------------------------------------------------ object comparison helpers
def image(tc):
    """Comparable image of a table collection (bytes of every column, strings, index)."""
    d = tc.asdict(force_offset_64=True)
    out = {}
    for k, v in d.items():
        if isinstance(v, dict):
            for kk, vv in v.items():
                out[k + "/" + kk] = _leaf(vv)
        else:
            out[k] = _leaf(v)
    return out


def _leaf(v):
    if hasattr(v, "tobytes"):
        return (str(v.dtype), v.tobytes())
    if isinstance(v, float):
        return ("float", struct.pack("<d", v))
    return ("py", repr(v))


def is_default_leaf(path, leaf, tskit):
    kind, val = leaf
    if kind == "py":
        return val in ("''", "b''", "None", "'unknown'", "{}")
    import numpy as np

    arr = np.frombuffer(val, dtype=kind) if kind not in ("float",) else None
    if arr is None:
        return False
    if path.endswith("_offset"):
        return not arr.any()
    if path == "mutations/time":
        return all(tskit.is_unknown_time(x) for x in arr)
    return len(arr) == 0


def well_formed(ctx, tskit, tc, what):
    """Every row readable, ragged offsets monotone and ending at the column length, dumps and reloads equal."""
    import numpy as np

    for name in ("nodes", "edges", "sites", "mutations", "migrations", "individuals", "populations", "provenances"):
        tb = getattr(tc, name)
        d = tb.asdict()
        for k, v in d.items():
            if k.endswith("_offset"):
                col = d[k[: -len("_offset")]]
                ctx.check(len(v) == tb.num_rows + 1, what, f"{name}.{k} length")
                ctx.check(v[0] == 0 and (np.diff(v.astype(np.int64)) >= 0).all() and v[-1] == len(col), what,
                          f"{name}.{k} not a valid offset column: {v[:8]}... for data length {len(col)}")
        for j in range(tb.num_rows):
            tb.ll_table.get_row(j)  # raw row: text columns are not decoded here
    path = os.path.join(os.environ.get("VF_SCRATCH", "."), "c10.rt")
    tc.dump(path)
    back = tskit.TableCollection.load(path)
    os.unlink(path)
    ctx.check(image(back) == image(tc), what, "object returned by load does not round-trip through dump/load")


def check_loaded_ts(ctx, tskit, ts, what):
    """A tree sequence returned after data corruption must satisfy every validity requirement and
    its trees must match the positional model of its own tables."""
    tc = ts.dump_tables()
    spec = gen.spec_from_tables(tc, tskit)
    idx = None
    if tc.has_index():
        idx = [tc.indexes.edge_insertion_order.tolist(), tc.indexes.edge_removal_order.tolist()]
    verdict, reasons = validity(spec, idx)
    ctx.check(verdict != "INVALID", what, f"tskit.load returned a tree sequence violating {reasons}")
    bps = model.breakpoints(spec)
    ctx.check(ts.num_trees == len(bps) - 1, what, "num_trees of loaded object")
    n = len(spec["nodes"])
    for tree in ts.trees():
        ctx.check(list(map(int, tree.parent_array[:n])) == model.parent_at(spec, tree.interval.left), what,
                  "trees of the loaded object do not match its tables")
    for v in ts.variants():
        v.genotypes


# ------------------------------------------------------------------ loaders
def load_with(tskit, path, loader):
    if loader == "ts":
        return tskit.load(path)
    if loader == "tc":
        return tskit.TableCollection.load(path)
    if loader == "ts_skip_tables":
        return tskit.load(path, skip_tables=True)
    if loader == "tc_skip_tables":
        return tskit.TableCollection.load(path, skip_tables=True)
    if loader == "ts_skip_ref":
        return tskit.load(path, skip_reference_sequence=True)
    if loader == "tc_skip_ref":
        return tskit.TableCollection.load(path, skip_reference_sequence=True)
    raise KeyError(loader)


LOADERS = ["ts", "tc", "ts_skip_tables", "tc_skip_tables", "ts_skip_ref", "tc_skip_ref"]


def as_tables(obj):
    return obj.dump_tables() if hasattr(obj, "dump_tables") else obj


def _accept_exc(tskit):
    import _tskit

    return (tskit.FileFormatError, tskit.LibraryError, _tskit.LibraryError, EOFError, ValueError, OSError,
            tskit.VersionTooNewError, tskit.VersionTooOldError, MemoryError, OverflowError)


def make_file(tskit, spec, extras):
    t = gen.build_tables(spec, tskit, index=extras.get("index", True))
    if extras.get("refseq"):
        t.reference_sequence.data = "ACGT" * 3
        if extras["refseq"] > 1:
            t.reference_sequence.metadata_schema = tskit.MetadataSchema.permissive_json()
            t.reference_sequence.metadata = {"a": 1}
            t.reference_sequence.url = "http://x"
    if extras.get("schemas"):
        t.nodes.metadata_schema = tskit.MetadataSchema(None)
        t.metadata_schema = tskit.MetadataSchema({"codec": "json"})
        t.metadata = {"k": "v"}
        t.populations.metadata_schema = tskit.MetadataSchema({"codec": "struct", "type": "object", "properties": {}})
    if extras.get("provenance"):
        t.provenances.add_row(record="{}", timestamp="2020-01-01T00:00:00")
    path = os.path.join(os.environ.get("VF_SCRATCH", "."), "c10.orig")
    t.dump(path)
    with open(path, "rb") as f:
        buf = f.read()
    os.unlink(path)
    return t, buf


def write(path, data):
    with open(path, "wb") as f:
        f.write(data)


# ------------------------------------------------------------------ (a) truncation
@st.composite
def file_case(draw, loaders=None):
    spec = draw(gen.ts_spec(max_nodes=6, max_sites=3, max_intervals=3, max_muts_per_site=2))
    extras = dict(index=True, refseq=draw(st.sampled_from([0, 0, 1, 2])), schemas=draw(st.booleans()),
                  provenance=draw(st.booleans()))
    loader = draw(st.sampled_from(loaders or LOADERS))
    # the skip_* read paths seek inside the store and do not leave the stream at the end of the
    # object, so on a multi-object stream the objects BEFORE the faulty one are read with the eager
    # loader of the same family and only the last (faulty) one with the drawn loader
    stream = draw(st.sampled_from([1, 1, 2, 3]))
    return dict(spec=spec, extras=extras, loader=loader, stream=stream, strict=False)


def run_truncation(case, ctx):
    import tskit

    acc = _accept_exc(tskit)
    t, buf = make_file(tskit, case["spec"], case["extras"])
    lay = parse_layout(buf)
    loader = case["loader"]
    k = case.get("stream", 1)
    path = os.path.join(os.environ.get("VF_SCRATCH", "."), "c10.trunc")
    orig_img = image(t)
    full_loaders = ("tc", "ts")
    ctx.nt(True)
    ctx.label("stream>1", k > 1)
    ctx.label("loader:" + loader)
    prefix = buf * (k - 1)
    for cut in range(len(buf)):
        write(path, prefix + buf[:cut])
        ctx.notes["truncations"] = ctx.notes.get("truncations", 0) + 1
        with open(path, "rb") as f:
            eager = "ts" if loader.startswith("ts") else "tc"
            for i in range(k - 1):
                obj = load_with(tskit, f, eager)
                if cut % 64 == 0:
                    ctx.check(image(as_tables(obj)) == orig_img, "stream_prefix", f"object {i} before the truncated one differs")
            try:
                obj = load_with(tskit, f, loader)
            except EOFError:
                ctx.check(cut == 0, "truncation", f"EOFError for a non-empty proper prefix (cut={cut} of {len(buf)}, "
                          f"region {region_of(lay, cut)}, loader {loader})")
                continue
            except acc:
                continue
            ctx.fail("truncation", f"a proper prefix ({cut} of {len(buf)} bytes, region {region_of(lay, cut)}) "
                     f"was loaded by {loader} instead of raising")
    os.unlink(path)


# ------------------------------------------------------------------ (b) structural substitution
def structural_faults(buf, lay):
    """Yield (offset, new_bytes, label)."""
    end = lay["key_hi"]
    for off in range(end):
        b = buf[off]
        vals = {0x00, 0xFF, b ^ 0x01, b ^ 0x80, (b + 1) & 0xFF} - {b}
        reg = region_of(lay, off)
        if reg == "header":
            lab = "header." + header_field(off)
        elif reg == "descriptor":
            lab = "descriptor." + desc_field((off - HDR) % DESC)
        else:
            lab = "key"
        for v in sorted(vals):
            yield off, bytes([v]), lab
    # semantic substitutions of integer fields
    def sub(off, fmt, delta, lab):
        (cur,) = struct.unpack_from(fmt, buf, off)
        size = struct.calcsize(fmt)
        new = (cur + delta) % (1 << (8 * size))
        return off, struct.pack(fmt, new), lab

    for d in (-1, 1):
        yield sub(12, "<I", d, "header.num_items")
    for d in (-8, -1, 1, 8):
        yield sub(16, "<Q", d, "header.file_size")
    for j, it in enumerate(lay["items"]):
        o = HDR + j * DESC
        for typ in range(0, 12):
            if typ != it["type"]:
                yield o, bytes([typ]), "descriptor.type"
        for fo, nm in ((8, "key_start"), (16, "key_len"), (24, "array_start"), (32, "array_len")):
            for d in (-8, -1, 1, 8):
                yield sub(o + fo, "<Q", d, "descriptor." + nm)


def coordinated_faults(buf, lay):
    """Multi-field edits of the descriptor block that keep kastore's packing checks satisfied in modular
    arithmetic (offset -1: the third element is the whole new file)."""
    items = lay["items"]
    n = len(items)
    M = 1 << 64

    def rebuild(key_lens, key_starts, shift, cut_from, cut_to):
        out = bytearray(buf[:cut_from] + buf[cut_to:])
        struct.pack_into("<Q", out, 16, (lay["size"] - shift) % M)
        for k, it in enumerate(items):
            o = HDR + k * DESC
            struct.pack_into("<QQQ", out, o + 8, key_starts[k] % M, key_lens[k] % M, (it["array_start"] - shift) % M)
        return bytes(out)

    for j in sorted({0, 1, n // 2, n - 2} & set(range(n - 1))):
        kl = items[j]["key_len"]
        for D in sorted({8 * (kl // 8 + 1), 8 * (kl // 8 + 2), 64}):
            nxt = items[j + 1]["key_start"]
            if nxt - D < HDR:
                continue
            key_lens = [it["key_len"] for it in items]
            key_lens[j] = kl - D  # negative: wraps to just under 2^64
            key_starts = [it["key_start"] - (D if k > j else 0) for k, it in enumerate(items)]
            yield -1, rebuild(key_lens, key_starts, D, nxt - D, nxt), "descriptor.coordinated_wrap"
    # every key empty: the key region disappears
    region = items[0]["array_start"] - lay["key_lo"]
    yield -1, rebuild([0] * n, [lay["key_lo"]] * n, region, lay["key_lo"], items[0]["array_start"]), \
        "descriptor.coordinated_empty_keys"


PAIRS = [("indexes/edge_insertion_order", "indexes/edge_removal_order"),
         ("edges/metadata", "edges/metadata_offset"), ("migrations/metadata", "migrations/metadata_offset"),
         ("individuals/parents", "individuals/parents_offset")]


def _cmp_keys(a, b):
    n = min(len(a), len(b))
    if a[:n] != b[:n]:
        return -1 if a[:n] < b[:n] else 1
    return (len(a) > len(b)) - (len(a) < len(b))


def findable_keys(lay, data):
    """Which of the ORIGINAL key names a binary search (as done by the store) still finds in the key array of the
    altered file `data`."""
    keys = [bytes(data[it["key_start"]: it["key_start"] + it["key_len"]]) for it in lay["items"]]
    found = set()
    for it in lay["items"]:
        want = it["key"].encode("utf8")
        lo, hi = 0, len(keys)
        while lo < hi:
            mid = (lo + hi) // 2
            c = _cmp_keys(want, keys[mid])
            if c < 0:
                hi = mid
            elif c > 0:
                lo = mid + 1
            else:
                found.add(it["key"])
                break
    return found


def packing_holds(lay, data, j):
    """kastore's own rule for item j, evaluated on the altered descriptor bytes in `data`."""
    o = HDR + j * DESC
    typ = data[o]
    (as_, al) = struct.unpack_from("<QQ", data, o + 24)
    if typ >= len(TYPE_SIZE):
        return False
    end = as_ + al * TYPE_SIZE[typ]
    nxt = lay["items"][j + 1]["array_start"] if j + 1 < lay["nitems"] else lay["size"]
    if j + 1 < lay["nitems"]:
        end = (end + 7) // 8 * 8
    return end == nxt


def classify_structural(tskit, lay, off, orig_img, new_img, label, loader="tc", data=None):
    """Returns (key_or_None, description) for a structural alteration that LOADED."""
    reg = region_of(lay, off)
    if new_img == orig_img:
        if reg == "header" and off in IGNORED_HEADER:
            return "kastore.unvalidated_reserved_bytes", f"header byte {off} ignored"
        if reg == "descriptor" and ((off - HDR) % DESC) in IGNORED_DESC:
            return "kastore.unvalidated_reserved_bytes", f"descriptor byte {(off - HDR) % DESC} ignored"
        if reg == "descriptor" and desc_field((off - HDR) % DESC) in ("type", "array_len"):
            # e.g. a one-element uint32 offset column re-typed uint64: the extra bytes are padding zeros.
            # Known only when the altered (type, array_len) still satisfies kastore's packing rule
            # next_start == align8(start + array_len * size); anything else must have been rejected.
            if data is None or packing_holds(lay, data, (off - HDR) // DESC):
                return ("kastore.free_length_item_resized",
                        "descriptor type/array_len altered within the alignment padding: same object loaded")
            return None, (f"alteration of {label} at offset {off} breaks the array packing rule, yet the file loaded "
                          "(as the same object)")
        if reg == "key":
            it = next(i for i in lay["items"] if i["key_start"] <= off < i["key_start"] + i["key_len"])
            if data is not None and not loader.endswith("skip_tables"):
                found = findable_keys(lay, data)
                for a_, b_ in PAIRS:
                    if (a_ in found) != (b_ in found) and any(i["key"] == a_ for i in lay["items"]):
                        return None, (f"key '{it['key']}' altered: exactly one of the paired items {a_} / {b_} can still be "
                                      "found, yet the file loaded")
            if it["key"] in OPTIONAL_KEYS:
                return ("kastore.optional_item_key_altered",
                        f"key '{it['key']}' altered: item treated as absent (it held the default value)")
            table = it["key"].split("/")[0]
            if (loader.endswith("skip_tables") and "/" in it["key"] and table not in ("format", "reference_sequence")) \
                    or (loader.endswith("skip_ref") and table == "reference_sequence"):
                return ("kastore.optional_item_key_altered",
                        f"key '{it['key']}' altered: the {loader} read path never looks this item up")
        return None, f"alteration of {label} at offset {off} loaded the same object"
    if reg == "descriptor":
        it = lay["items"][(off - HDR) // DESC]
        fld = desc_field((off - HDR) % DESC)
        key = it["key"]
        if fld in ("array_len", "type") and is_free_length(key):
            diff = [p for p in set(orig_img) | set(new_img) if orig_img.get(p) != new_img.get(p)]
            if all(p == key or (key.startswith("reference_sequence/") and p.startswith("reference_sequence")) for p in diff):
                return "kastore.free_length_item_resized", f"descriptor {fld} of free-length item '{key}' altered"
        return None, f"alteration of {label} of item '{key}' at offset {off} loaded a different object"
    if reg == "key":
        it = next(i for i in lay["items"] if i["key_start"] <= off < i["key_start"] + i["key_len"])
        key = it["key"]
        # kastore looks keys up by binary search and unknown keys are ignored, so a renamed key makes
        # its own item - and possibly sorted neighbours - unfindable.  Required items then raise;
        # what can load silently is the loss of items the loader treats as optional.
        if data is not None and not loader.endswith("skip_tables"):
            # items that must be present together: a file in which the store finds exactly one of them is
            # rejected by the loader, so having loaded it is NOT part of the known 'optional item' class
            found = findable_keys(lay, data)
            for a_, b_ in PAIRS:
                if (a_ in found) != (b_ in found) and any(i["key"] == a_ for i in lay["items"]):
                    return None, (f"key '{key}' altered: exactly one of the paired items {a_} / {b_} can still be found, "
                                  "yet the file loaded")
        diff = [p for p in set(orig_img) | set(new_img) if orig_img.get(p) != new_img.get(p)]
        allowed = set(OPTIONAL_KEYS) | {"reference_sequence", "indexes"}
        ok = all(p in allowed or p.split("/")[0] in ("reference_sequence", "indexes") for p in diff)
        dflt = all(p not in new_img or is_default_leaf(p, new_img[p], tskit) for p in diff)
        if ok and dflt:
            return ("kastore.optional_item_key_altered",
                    f"key '{key}' altered: optional item(s) {sorted(diff)[:4]} silently treated as absent")
        return None, f"key '{key}' altered: loaded object differs in {sorted(diff)[:6]}"
    return None, f"alteration of {label} at offset {off} loaded a different object"


def run_structural(case, ctx):
    import tskit

    acc = _accept_exc(tskit)
    known = open_keys() if not case.get("strict") else set()
    t, buf = make_file(tskit, case["spec"], case["extras"])
    lay = parse_layout(buf)
    loader = case["loader"]
    if loader.endswith("skip_tables") or loader.endswith("skip_ref"):
        full = False
    else:
        full = True
    path = os.path.join(os.environ.get("VF_SCRATCH", "."), "c10.struct")
    # reference image as produced by the same loader on the pristine file
    write(path, buf)
    ref = load_with(tskit, path, loader)
    ref_img = image(as_tables(ref))
    ctx.nt(True)
    ctx.label("loader:" + loader)
    only = case.get("only")
    import itertools

    for off, new, lab in itertools.chain(structural_faults(buf, lay), coordinated_faults(buf, lay)):
        if only is not None and [off, list(new)] != only:
            continue
        data = new if off < 0 else buf[:off] + new + buf[off + len(new):]
        write(path, data)
        ctx.notes["structural:" + lab] = ctx.notes.get("structural:" + lab, 0) + 1
        try:
            obj = load_with(tskit, path, loader)
        except acc:
            continue
        new_img = image(as_tables(obj))
        key, desc = classify_structural(tskit, lay, off, ref_img, new_img, lab, loader, data)
        if key is not None and key in known:
            ctx.notes["excluded:" + key] = ctx.notes.get("excluded:" + key, 0) + 1
            continue
        ctx.fail("structural:" + (key or "unlisted"), f"{desc} (offset {off}, new bytes {list(new)}, field {lab}, loader {loader})")
    if loader.startswith("ts") and only is None:
        # the keys of items that must be present together (PAIRS) also through the table-collection loader of the
        # same kind, which does not go on to build a tree sequence and so has to notice a lone partner itself
        other = "tc" + loader[2:]
        paired = {k for pr in PAIRS for k in pr}
        spans = [(it["key_start"], it["key_start"] + it["key_len"]) for it in lay["items"] if it["key"] in paired]
        write(path, buf)
        ref2 = image(as_tables(load_with(tskit, path, other)))
        for off, new, lab in structural_faults(buf, lay):
            if lab != "key" or not any(a <= off < b for a, b in spans):
                continue
            data = buf[:off] + new + buf[off + len(new):]
            write(path, data)
            try:
                obj = load_with(tskit, path, other)
            except acc:
                continue
            key, desc = classify_structural(tskit, lay, off, ref2, image(as_tables(obj)), lab, other, data)
            if key is not None and key in known:
                continue
            ctx.fail("structural:" + (key or "unlisted"), f"{desc} (offset {off}, new bytes {list(new)}, field {lab}, loader {other})")
    os.unlink(path)


# ------------------------------------------------------------------ (c) data region
@st.composite
def data_case(draw):
    base = draw(file_case(loaders=["ts", "tc", "ts", "tc", "ts_skip_ref", "tc_skip_ref"]))
    faults = []
    for _ in range(draw(st.integers(20, 60))):
        faults.append([draw(st.integers(0, 10**6)), draw(st.integers(0, 10**6)), draw(st.integers(1, 8)),
                       draw(st.sampled_from(["flip", "zero", "ff", "inc", "dec", "rand", "nan", "big"])),
                       draw(st.integers(0, 255))])
    base["faults"] = faults
    return base


HOT = ("_offset", "/parent", "/child", "/node", "/site", "/individual", "/population", "sequence_length",
       "indexes/", "format/", "uuid", "/left", "/right", "/position", "/time", "/source", "/dest", "/parents")


TEXT_PAYLOAD = ("metadata_schema", "time_units", "reference_sequence/", "provenances/timestamp", "provenances/record",
                "sites/ancestral_state", "mutations/derived_state")


def is_text_payload(key):
    """Free text whose bytes carry no structure the loader could check (undecodable text is not a
    'malformed object' in the sense of the property): corrupted only through its *_offset column."""
    return any(t in key for t in TEXT_PAYLOAD) and not key.endswith("_offset")


def run_data(case, ctx):
    import tskit

    acc = _accept_exc(tskit)
    t, buf = make_file(tskit, case["spec"], case["extras"])
    lay = parse_layout(buf)
    loader = case["loader"]
    path = os.path.join(os.environ.get("VF_SCRATCH", "."), "c10.data")
    items = [it for it in lay["items"] if it["array_len"] > 0 and not is_text_payload(it["key"])]
    hot = [it for it in items if any(h in it["key"] for h in HOT)]
    ctx.nt(True)
    ctx.label("loader:" + loader)
    for a, b, width, how, val in case["faults"]:
        pool = hot if (a % 4 and hot) else items
        if not pool:
            return
        it = pool[a % len(pool)]
        esz = TYPE_SIZE[it["type"]]
        nbytes = it["array_len"] * esz
        if how in ("inc", "dec", "nan", "big"):
            # element-wise semantic substitution
            j = b % it["array_len"]
            off = it["array_start"] + j * esz
            cur = buf[off:off + esz]
            if how == "nan" and it["type"] == 9:
                new = struct.pack("<d", math.nan)
            elif how == "big":
                new = b"\xff" * (esz - 1) + b"\x7f"
            else:
                iv = int.from_bytes(cur, "little")
                iv = (iv + (1 if how == "inc" else -1)) % (1 << (8 * esz))
                new = iv.to_bytes(esz, "little")
        else:
            off = it["array_start"] + (b % nbytes)
            w = min(width, it["array_start"] + nbytes - off)
            cur = buf[off:off + w]
            if how == "flip":
                new = bytes(x ^ (1 << (val % 8)) for x in cur)
            elif how == "zero":
                new = b"\x00" * w
            elif how == "ff":
                new = b"\xff" * w
            else:
                new = bytes((x + val + i) & 0xFF for i, x in enumerate(cur))
        if new == buf[off:off + len(new)]:
            continue
        data = buf[:off] + new + buf[off + len(new):]
        write(path, data)
        ctx.notes["data:" + it["key"]] = ctx.notes.get("data:" + it["key"], 0) + 1
        try:
            obj = load_with(tskit, path, loader)
        except acc:
            ctx.notes["data_rejected"] = ctx.notes.get("data_rejected", 0) + 1
            continue
        ctx.notes["data_loaded"] = ctx.notes.get("data_loaded", 0) + 1
        what = f"data:{it['key']}"
        tc = as_tables(obj)
        well_formed(ctx, tskit, tc, what + ".well_formed")
        if loader.startswith("ts"):
            check_loaded_ts(ctx, tskit, obj, what + ".valid_ts")
    if os.path.exists(path):
        os.unlink(path)


# ------------------------------------------------------------------ data faults far down long columns
def long_spec(R):
    """R leaves under one root; R sites with one mutation each; R individuals; almost every ragged cell empty (long
    runs of equal offsets), a few non-empty ones at the ends and in the middle."""
    def md(j):
        return "xy" if j in (0, R // 2, R - 1) else ""

    nodes = [[1, 0.0, 0, j, md(j)] for j in range(R)] + [[0, 1.0, 0, -1, ""]]
    edges = [[0.0, float(R), R, j, md(j)] for j in range(R)]
    sites = [[float(j), "A" if j % 1500 == 0 else "", md(j)] for j in range(R)]
    muts = [[j, j, "T" if j % 1500 == 0 else "", -1, None, md(j)] for j in range(R)]
    inds = [[0, [1.0] if j == R // 2 else [], [j - 1] if j == R - 1 else [], md(j)] for j in range(R)]
    migs = [[0.0, float(R), j, 0, 0, 0.5, md(j)] for j in range(0, R, 2)]
    return dict(L=float(R), nodes=nodes, edges=edges, sites=sites, mutations=muts, individuals=inds,
                populations=[[""]], migrations=migs)


def enum_data_large(tier, seed):
    for R in ([3000] if tier == "quick" else [1030, 3000, 70000]):
        for loader in ("tc", "ts", "tc_skip_ref"):
            yield dict(R=R, loader=loader)


def run_data_large(case, ctx):
    """Every *_offset column and every id / coordinate column of a file with thousands of rows: element-wise
    substitutions at positions beyond 1024 / 2048 / 65536 and inside long runs of equal offsets."""
    import tskit

    acc = _accept_exc(tskit)
    R = case["R"]
    t, buf = make_file(tskit, long_spec(R), dict(index=True))
    lay = parse_layout(buf)
    loader = case["loader"]
    path = os.path.join(os.environ.get("VF_SCRATCH", "."), "c10.datal")
    ctx.nt(True)
    ctx.label("loader:" + loader)
    items = [it for it in lay["items"] if it["array_len"] > 8 and not is_text_payload(it["key"])
             and any(h in it["key"] for h in HOT)]
    loaded = rejected = 0
    for it in items:
        esz = TYPE_SIZE[it["type"]]
        n = it["array_len"]
        pos = sorted({1, 2, 511, 1023, 1024, 1025, 1500, 2047, 2048, 2049, n // 2, n - 2, n - 1, 65536, 65537} & set(range(n)))
        hows = ("inc", "big", "dec") if it["key"].endswith("_offset") else ("big",)
        if not it["key"].endswith("_offset"):
            pos = pos[::3]
        for j in pos:
            for how in hows:
                off = it["array_start"] + j * esz
                cur = buf[off:off + esz]
                if how == "big":
                    new = b"\xff" * (esz - 1) + b"\x7f"
                else:
                    iv = (int.from_bytes(cur, "little") + (1 if how == "inc" else -1)) % (1 << (8 * esz))
                    new = iv.to_bytes(esz, "little")
                if new == cur:
                    continue
                write(path, buf[:off] + new + buf[off + esz:])
                try:
                    obj = load_with(tskit, path, loader)
                except acc:
                    rejected += 1
                    continue
                loaded += 1
                what = f"data_large:{it['key']}[{j}] {how}"
                well_formed(ctx, tskit, as_tables(obj), what + ".well_formed")
                if loader.startswith("ts"):
                    check_loaded_ts(ctx, tskit, obj, what + ".valid_ts")
    ctx.notes["data_rejected"] = rejected
    ctx.notes["data_loaded"] = loaded
    if os.path.exists(path):
        os.unlink(path)


# ------------------------------------------------------------------ raw (non tree sequence) collections through TableCollection.load
@st.composite
def raw_case(draw):
    spec = draw(gen.ts_spec(max_nodes=5, max_sites=3, max_intervals=2))
    if len(spec["edges"]) > 1:
        spec["edges"] = list(draw(st.permutations(spec["edges"])))
    extras = dict(index=False, refseq=draw(st.sampled_from([0, 1])), schemas=False, provenance=False)
    return dict(spec=spec, extras=extras, loader=draw(st.sampled_from(["tc", "tc_skip_tables", "tc_skip_ref"])),
                stream=1, strict=False)


def run_raw(case, ctx):
    run_truncation(case, ctx)
    run_structural(case, ctx)


# ------------------------------------------------------------------ probes for the open findings
_PROBE_SPEC = dict(L=1.0, nodes=[[1, 0.0, -1, -1, ""], [1, 0.0, -1, -1, ""], [0, 1.0, -1, -1, ""]],
                   edges=[[0.0, 1.0, 2, 0, ""], [0.0, 1.0, 2, 1, ""]], sites=[], mutations=[], individuals=[],
                   populations=[], migrations=[], metadata="{}")
_PROBE_EXTRAS = dict(index=True, refseq=0, schemas=False, provenance=False)


def _probe_only(which):
    # offsets are stable for the fixed probe file: header reserved byte 24; first key byte of 'metadata'
    return which


PROBES = {
    "kastore.unvalidated_reserved_bytes": ("C10.probe", dict(probe="reserved")),
    "kastore.optional_item_key_altered": ("C10.probe", dict(probe="optional_key")),
    "kastore.free_length_item_resized": ("C10.probe", dict(probe="resize")),
}


def run_probe(case, ctx):
    import tskit

    t, buf = make_file(tskit, _PROBE_SPEC, _PROBE_EXTRAS)
    lay = parse_layout(buf)
    path = os.path.join(os.environ.get("VF_SCRATCH", "."), "c10.probe")
    ref_img = image(t)
    ctx.nt(True)
    if case["probe"] == "reserved":
        off, new = 24, b"\x01"
    elif case["probe"] == "resize":
        j = next(k for k, i in enumerate(lay["items"]) if i["key"] == "metadata")
        off, new = HDR + j * DESC + 32, b"\x01"  # array_len of 'metadata' ('{}', 2 bytes) -> 1
    else:
        it = next(i for i in lay["items"] if i["key"] == "metadata")
        off = it["key_start"] + it["key_len"] - 1
        new = b"b"  # 'metadata' -> 'metadatb'
    data = buf[:off] + new + buf[off + 1:]
    write(path, data)
    try:
        obj = tskit.TableCollection.load(path)
    except _accept_exc(tskit):
        return
    finally:
        os.unlink(path)
    key, desc = classify_structural(tskit, lay, off, ref_img, image(obj), "probe")
    ctx.fail("structural:" + (key or "unlisted"), desc)


def enum_probe(tier, seed):
    return iter([])


# ------------------------------------------------------------------ coverage-guided fuzzing of the C loader
_FUZZ_SPECS = [
    _PROBE_SPEC,
    dict(L=2.0, nodes=[[1, 0.0, 0, 0, "ab"], [1, 0.0, -1, -1, ""], [0, 1.0, 0, -1, "x"], [0, 2.0, -1, 0, ""]],
         edges=[[0.0, 1.0, 2, 0, "e"], [0.0, 2.0, 2, 1, ""], [1.0, 2.0, 3, 0, ""], [1.0, 2.0, 3, 2, ""]],
         sites=[[0.5, "A", "s"], [1.5, "", ""]], mutations=[[0, 2, "T", -1, 1.5, "m"], [0, 0, "G", 0, 0.5, ""], [1, 1, "AC", -1, None, ""]],
         individuals=[[0, [1.0, 2.0], [-1], "i"]], populations=[["p"]],
         migrations=[[0.0, 1.0, 0, 0, 0, 0.5, "g"]], metadata="{}", time_units="generations"),
    dict(L=1.0, nodes=[], edges=[], sites=[], mutations=[], individuals=[], populations=[], migrations=[]),
]


def enum_fuzz(tier, seed):
    runs = 15000 if tier == "quick" else int(os.environ.get("VF_FUZZ_RUNS", 3000000))
    for k in range(8 if tier == "quick" else 16):
        # half of the campaigns start from small valid files, half from an empty corpus
        yield dict(fuzz_seed=seed * 1000 + k + 1, runs=runs, corpus="seeded" if k % 2 == 0 else "empty")


def run_fuzz(case, ctx):
    import shutil
    import subprocess
    import tskit

    from .. import build

    exe = build.ensure_fuzz_target(os.environ.get("VF_REPO", "/repo"))
    scratch = os.path.join(os.environ.get("VF_SCRATCH", "."), "fuzz")
    shutil.rmtree(scratch, ignore_errors=True)
    os.makedirs(os.path.join(scratch, "corpus"))
    env = dict(os.environ)
    env.pop("LD_PRELOAD", None)
    # allocations sized by a corrupted header field fail fast (NULL -> TSK_ERR_NO_MEMORY) instead of
    # spending the campaign zeroing gigabytes
    env["ASAN_OPTIONS"] = "detect_leaks=0:abort_on_error=0:allocator_may_return_null=1:max_allocation_size_mb=256"
    ctx.nt(True)
    ctx.label("corpus:" + case.get("corpus", "replay"))
    if "crash_hex" in case:
        # replay of a saved crashing input
        path = os.path.join(scratch, "input.bin")
        write(path, bytes.fromhex(case["crash_hex"]))
        r = subprocess.run([exe, path], capture_output=True, text=True, env=env, timeout=600)
        ctx.check(r.returncode == 0, "libfuzzer", "saved input still fails:\n" + _fuzz_excerpt(r.stderr))
        return
    if case["corpus"] == "seeded":
        for i, spec in enumerate(_FUZZ_SPECS):
            t, buf = make_file(tskit, spec, dict(index=True, refseq=i % 2, schemas=i == 1, provenance=i == 1))
            for opt in (0, 1, 2):
                write(os.path.join(scratch, "corpus", f"seed{i}_{opt}"), bytes([opt]) + buf)
    r = subprocess.run(
        [exe, f"-seed={case['fuzz_seed']}", f"-runs={case['runs']}", "-max_len=12000", "-timeout=25", "-rss_limit_mb=6000", "-malloc_limit_mb=1000000",
         "-print_final_stats=1", f"-artifact_prefix={scratch}/", os.path.join(scratch, "corpus")],
        capture_output=True, text=True, env=env, timeout=6 * 3600)
    for line in r.stderr.splitlines():
        if line.startswith("stat::number_of_executed_units:"):
            ctx.notes["fuzz_executions"] = int(line.split()[-1])
        if line.startswith("stat::new_units_added:"):
            ctx.notes["fuzz_new_units"] = int(line.split()[-1])
    if r.returncode != 0:
        crashes = sorted(f for f in os.listdir(scratch) if f.startswith(("crash-", "timeout-", "oom-", "leak-")))
        if crashes:
            with open(os.path.join(scratch, crashes[0]), "rb") as f:
                data = f.read()
            case["crash_hex"] = data.hex()  # the replay file then carries the reproducible unit
        ctx.fail("libfuzzer", f"{crashes[:1]} after libFuzzer campaign seed={case['fuzz_seed']}:\n" + _fuzz_excerpt(r.stderr))
    shutil.rmtree(scratch, ignore_errors=True)


def _fuzz_excerpt(text):
    for marker in ("C10-ORACLE-VIOLATION", "ERROR: AddressSanitizer", "runtime error:", "Bug detected in", "ERROR: libFuzzer"):
        i = text.find(marker)
        if i >= 0:
            return text[max(0, i - 80): i + 1500]
    return text[-1200:]


SUBCHECKS = [
    SubCheck("C10.truncation", run_truncation, strategy=file_case, quick=48, thorough=2000, shards=16,
             rule="every truncation offset of the file (and of the k-th object of a k-object stream)"),
    SubCheck("C10.structural", run_structural, strategy=file_case, quick=28, thorough=1500, shards=14,
             rule="every structural byte x 5 values + integer-field substitutions"),
    SubCheck("C10.data", run_data, strategy=data_case, quick=400, thorough=12000,
             rule="20-60 substitutions in array data per file, 75% aimed at offset/id/index/coordinate columns"),
    SubCheck("C10.raw_tables", run_raw, strategy=raw_case, quick=12, thorough=1000, shards=6,
             rule="unsorted, unindexed collections through TableCollection.load: truncation + structural enumeration"),
    SubCheck("C10.data_asan", run_data, strategy=data_case, quick=60, thorough=4000, flavour="asan",
             rule="data-region substitutions on the ASan+UBSan build (silent over-reads become visible)"),
    SubCheck("C10.struct_asan", run_structural, strategy=file_case, quick=4, thorough=300, flavour="asan", shards=2,
             rule="structural enumeration on the ASan+UBSan build"),
    SubCheck("C10.libfuzzer", run_fuzz, enumerate=enum_fuzz, quick=1, thorough=1, shards=8, hang_s=4 * 3600,
             rule="libFuzzer (clang, ASan+UBSan) campaigns over tsk_table_collection_loadf with the round-trip / tree-sweep "
                  "oracle inside the target; 8 x 15000 executions quick, 16 x 3000000 thorough; seeded and empty corpora"),
    SubCheck("C10.data_large", run_data_large, enumerate=enum_data_large, quick=1, thorough=1, shards=3, hang_s=1800,
             rule="a file with 3000 (thorough: up to 70000) rows per table, mostly empty ragged cells: every offset / id "
             "/ coordinate column altered at positions around 1024, 2048, the middle and the end"),
    SubCheck("C10.probe", run_probe, enumerate=enum_probe, quick=0, thorough=0, rule="probe only"),
]
