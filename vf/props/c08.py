"""C08 — statistics equal their documented definitions, are additive over window refinements, and
multi-threaded results equal single-threaded ones."""
import math

import numpy as np
from hypothesis import strategies as st

from .. import gen, model
from ..core import SubCheck
from ..gen import F
from . import _c08_oracle as O

META = dict(
    level="exploration",
    rule="Valid tree sequences by construction (vf/gen.py ts_spec: <=10 nodes, <=4 trees, <=5 sites, "
    "multiallelic/recurrent/back mutations, several roots, internal and isolated samples, dead "
    "branches, gaps; dyadic coordinates and times, no 'huge' times; genomes longer than 1024 are "
    "rescaled by a power of two) x weights / sample sets (disjoint and overlapping, singletons) / "
    "index tuples x windows (None, 'trees', 'sites', arbitrary lists cutting trees, ending on sites, "
    "containing no site; partial windows for divergence_matrix and genetic_relatedness_vector) x "
    "mode x polarised x span_normalise x centre/proportion. Oracles (vf/props/_c08_oracle.py): "
    "(A) literal evaluation of the documented general_stat / sample_count_stat definition per allele, "
    "branch and node from the positional table model; (B) diversity, segregating_sites, Y1-3, "
    "divergence incl. (j,j), f2-4, genetic_relatedness (+weighted, +vector), trait_covariance / "
    "correlation through the summary functions printed in docs/stats.md, Tajimas_D / Fst / "
    "proportion=True / genetic_relatedness_matrix from their docstring formulas, exact output "
    "shapes under the dimension-dropping rules 1-4; (C) enumeration of sample tuples over "
    "allele-carrier sets and branch descendant sets (diversity, divergence, Y*, f*, relatedness), "
    "pairwise genotype differences, distinct alleles - 1, direct AFS tabulation (polarised exact, "
    "folded: 1-D exact, joint: entry+mirror and empty upper half), least squares per allele/branch "
    "for trait_linear_model, divergence_matrix, GNN / mean_descendants / pair_coalescence_counts "
    "by their docstrings, r^2 from oracle genotypes, Kendall-Colijn vectors, clade-set symmetric "
    "difference; (D) every additive statistic re-evaluated on a random refinement of the windows "
    "and recombined span-weighted; (E) num_threads in {1,2,3,8} of divergence_matrix / "
    "genetic_relatedness_matrix / genealogical_nearest_neighbours against num_threads=0, and 2-8 "
    "Python threads running ten statistics on one shared larger tree sequence, bitwise equal to "
    "the serial results (thorough tier on the ASan build).",
    assumptions=[
        "reference model vf/model.py (positional parent map, nearest-mutation allele per sample)",
        "floating point: dyadic inputs, comparison |a-b| <= 1e-12 + 1e-9*max(1,|a|,|b|) (1e-7 for the "
        "trait statistics); a column whose printed formula has a zero denominator must hold nan or 0 "
        "(docs/stats.md 'division by zero'); a derived ratio with an exactly zero denominator must be "
        "non-finite in site/node mode and is not asserted in branch mode (running-sum residue)",
        "not asserted: the value f(0) contributes for an allelic state carried by no sample when f is "
        "not strict; the tie-breaking of joint-AFS folding; the diagonal of divergence_matrix for "
        "singleton sets; which denominator mean_descendants uses when the sets do not cover the "
        "samples (either documented reading accepted); pair_coalescence_counts with nested sample "
        "nodes and its span normalisation when a tree has no edges; Tajimas_D for n<4 or a radicand "
        "within 1e-6 of zero; trait_linear_model when a genotype is within 1e-6 of the covariate span",
        "input validation kept out of the domain: fewer sample sets than the arity of a k-way "
        "statistic, flat sample-set lists for allele_frequency_spectrum / genetic_relatedness_matrix, "
        "genetic_relatedness_vector in site/node mode (rejected by the library), LdCalculator on sites "
        "without exactly one non-silent mutation, KC/RF on multi-rooted trees or trees with unary nodes",
        "size bounds: <=10 nodes, <=4 elementary intervals, <=5 sites, <=4 sample sets (thread "
        "sub-check: 8-40 samples x 2-24 trees)",
        "thread interleavings are only sampled (thread count x repetition x machine noise), not "
        "enumerated; data-race freedom is not proven",
    ],
    technique="property-based testing (Hypothesis) against naive definitional oracles + metamorphic "
    "window refinement + thread-count / concurrent-vs-serial differential",
    engines=["hypothesis-runner"],
)

TIME_STYLES = ("small_int", "frac", "neg", "two")
MODES = ["site", "branch", "node", "branch", "node"]


# ------------------------------------------------------------------ generation helpers
def rescale(spec):
    """Genomes longer than 1024 are scaled by a power of two (exact in binary64) so that the
    absolute rounding residue of tskit's running sums stays far below the comparison tolerance
    when span_normalise=False."""
    L = F(spec["L"])
    if L <= 1024:
        return spec
    s = 2.0 ** (-(math.frexp(L)[1] - 9))
    spec = dict(spec)
    spec["L"] = L * s
    spec["edges"] = [[F(e[0]) * s, F(e[1]) * s] + list(e[2:]) for e in spec["edges"]]
    spec["sites"] = [[F(x[0]) * s] + list(x[1:]) for x in spec["sites"]]
    spec["migrations"] = [[F(g[0]) * s, F(g[1]) * s] + list(g[2:]) for g in spec.get("migrations", [])]
    return spec


@st.composite
def stat_spec(draw, max_nodes=9, min_samples=1, **kw):
    kw.setdefault("migrations", False)
    kw.setdefault("metadata", False)
    kw.setdefault("individuals", False)
    kw.setdefault("populations", False)
    kw.setdefault("extra_flags", False)
    kw.setdefault("min_nodes", max(1, min_samples))
    # allelic states are arbitrary strings: a quarter of the cases use states that are empty or
    # prefixes of each other (indel-style alleles), which exact string comparison must keep apart
    if "alphabet" not in kw:
        kw["alphabet"] = draw(st.sampled_from([("A", "C", "G", "T")] * 3 + [("", "A", "AT", "ATT", "G")]))
    base = gen.ts_spec(max_nodes=max_nodes, min_samples=min_samples, time_styles=TIME_STYLES, **kw)
    if draw(st.integers(0, 7)) > 0:  # a tree sequence without any edge is kept as a rare corner
        base = base.filter(lambda sp: bool(sp["edges"]))
    return rescale(draw(base))


def window_candidates(spec):
    L = F(spec["L"])
    bps = model.breakpoints(spec)
    pos = [F(s[0]) for s in spec["sites"]]
    pts = sorted(set(bps) | set(pos))
    cand = set(pts)
    for a, b in zip(pts[:-1], pts[1:]):
        cand.add((a + b) / 2)
        cand.add(a + (b - a) / 4)
    for j in range(1, 8):
        cand.add(L * j / 8)
    return sorted(c for c in cand if 0 < c < L)


def draw_windows(draw, spec, kinds=(None, "trees", "sites", "list", "list", "list")):
    """(kind, coarse list or None, fine list): fine refines the explicit meaning of coarse."""
    L = F(spec["L"])
    cand = window_candidates(spec)
    kind = draw(st.sampled_from(list(kinds)))
    if kind == "list":
        k = draw(st.integers(0, min(5, len(cand))))
        cuts = sorted(draw(st.permutations(cand))[:k]) if k else []
        coarse = [0.0] + cuts + [L]
    else:
        coarse = None
    base = O.explicit_windows(spec, kind, coarse)
    k = draw(st.integers(1, min(4, len(cand))))
    extra = draw(st.permutations(cand))[:k]
    fine = sorted(set(base) | set(extra))
    return kind, coarse, fine


def win_arg(kind, coarse):
    return coarse if kind == "list" else kind


def draw_sample_sets(draw, spec, lo=1, hi=3, disjoint=False, min_size=None, need=1):
    """k in [lo, hi] sample sets (lists of distinct sample nodes).  `need` is a hard lower bound on
    the set size, `min_size` a preferred one (reduced when the tree sequence has too few samples);
    disjoint=True falls back to overlapping sets when there are not enough samples."""
    smp = model.samples(spec)
    k = draw(st.integers(lo, hi))
    if min_size is None:
        min_size = draw(st.sampled_from([1, 2, 2, 3]))
    min_size = max(need, min_size)
    if disjoint and len(smp) >= k * need:
        ms = max(need, min(min_size, len(smp) // k))
        perm = list(draw(st.permutations(smp)))
        sizes = [ms] * k
        rest = len(perm) - k * ms
        for i in range(k):
            e = draw(st.integers(0, rest))
            sizes[i] += e
            rest -= e
        sets, i = [], 0
        for sz in sizes:
            sets.append(sorted(perm[i:i + sz]))
            i += sz
        return sets
    ms = max(need, min(min_size, len(smp)))
    assert len(smp) >= ms, "stat_spec(min_samples=...) must cover `need`"
    sets = []
    for _ in range(k):
        n = draw(st.integers(ms, len(smp)))
        sets.append(list(draw(st.permutations(smp))[:n]))
    return sets


def common_labels(ctx, spec, coarse_explicit, fine, weight_nodes):
    """Labels + the non-trivial rule shared by the sub-checks."""
    labs = gen.spec_labels(spec, model)
    for l in labs:
        ctx.label(l)
    bps = model.breakpoints(spec)
    inner = [x for w in (coarse_explicit, fine) for x in w[1:-1] if x not in bps]
    cut = "multi_tree" in labs and bool(inner)
    ctx.label("window_cuts_tree", cut)
    pos = [F(s[0]) for s in spec["sites"]]
    ctx.label("window_ends_on_site", any(x in pos for x in coarse_explicit[1:-1]))
    empty = any(not any(a <= p < b for p in pos) for a, b in zip(coarse_explicit[:-1], coarse_explicit[1:]))
    ctx.label("window_without_site", bool(pos) and empty)
    multiallelic = any(len(O.site_states(spec, j)) > 2 for j in range(len(spec["sites"])))
    ctx.label("multiallelic_site", multiallelic)
    internal = False
    for a, b, par in O.tree_intervals(spec):
        ch = model.children_of(par)
        if any(ch[u] for u in weight_nodes):
            internal = True
    ctx.label("internal_sample_used", internal)
    nt = cut or multiallelic or "multi_root" in labs or internal
    ctx.nt(nt and bool(spec["edges"]))
    return labs


NT = (">=1 edge and: (>=2 trees and a window boundary strictly inside a tree) or a site with >=3 "
      "allelic states or >=2 roots or an internal sample carrying weight / in a sample set")


# ------------------------------------------------------------------ (A)+(D) general_stat
def make_func(name, T, k):
    """Summary functions of a k-vector; T = total weights (or sample-set sizes)."""
    T = np.asarray(T, dtype=float)
    if name == "prod":
        return (lambda x: x * (T - x)), k
    if name == "cross":
        return (lambda x: np.array([x[0] * (T[k - 1] - x[k - 1])])), 1
    if name == "ind":
        return (lambda x: ((x != 0) & (x != T)).astype(float)), k
    if name == "lin":
        return (lambda x: np.array(x, dtype=float)), k
    if name == "sq":
        return (lambda x: np.array([np.sum(x * x)])), 1
    if name == "one":
        return (lambda x: np.array([1.0])), 1
    if name == "mix":
        return (lambda x: np.array([x[0] * (T[0] - x[0]), float(x[0] > 0), np.sum(x)])), 3
    raise AssertionError(name)


FUNCS = ["prod", "cross", "ind", "lin", "sq", "one", "mix"]
WEIGHTS = [0.0, 0.0, 1.0, 1.0, 2.0, -1.0, 0.5, 3.0, -0.5]


@st.composite
def gs_case(draw):
    spec = draw(stat_spec())
    smp = model.samples(spec)
    use_sets = draw(st.booleans())
    case = dict(spec=spec)
    if use_sets:
        case["sets"] = draw_sample_sets(draw, spec, min_size=1)
        k = len(case["sets"])
    else:
        k = draw(st.integers(1, 3))
        case["W"] = [[draw(st.sampled_from(WEIGHTS)) for _ in range(k)] for _ in smp]
    case["func"] = draw(st.sampled_from(FUNCS))
    case["mode"] = draw(st.sampled_from(MODES))
    case["polarised"] = draw(st.booleans())
    case["span_normalise"] = draw(st.booleans())
    case["strict"] = draw(st.booleans())
    case["kind"], case["coarse"], case["fine"] = draw_windows(draw, spec)
    return case


def run_gs(case, ctx):
    import tskit

    spec = case["spec"]
    ts = gen.build_tables(spec, tskit).tree_sequence()
    smp = model.samples(spec)
    ctx.eq(list(map(int, ts.samples())), smp, "ts.samples() order")
    mode, pol, sn = case["mode"], case["polarised"], case["span_normalise"]
    if "sets" in case:
        sets = case["sets"]
        W = O.indicator_weights(spec, sets)
        T = np.array([len(s) for s in sets], dtype=float)
        used = sorted({u for s in sets for u in s})
    else:
        W = np.array(case["W"], dtype=float).reshape(len(smp), -1)
        T = W.sum(axis=0)
        used = [u for i, u in enumerate(smp) if np.any(W[i] != 0)]
    k = W.shape[1]
    f, m = make_func(case["func"], T, k)
    coarse = O.explicit_windows(spec, case["kind"], case["coarse"])
    fine = case["fine"]
    common_labels(ctx, spec, coarse, fine, used)
    ctx.label("mode=" + mode)
    ctx.label("func=" + case["func"])
    ctx.label("sample_count_stat" if "sets" in case else "general_stat")
    ctx.label("polarised", pol)
    ctx.label("windows=" + str(case["kind"]))
    strict_ok = bool(np.allclose(f(T), 0) and np.allclose(f(T * 0.0), 0))
    ctx.label("strict_f", strict_ok)

    def call(windows, strict):
        if "sets" in case:
            return ts.sample_count_stat(case["sets"], f, m, windows=windows, polarised=pol, mode=mode,
                                        span_normalise=sn, strict=strict)
        return ts.general_stat(W, f, m, windows=windows, polarised=pol, mode=mode,
                               span_normalise=sn, strict=strict)

    if case["strict"] and not strict_ok:
        # documented: the check "throws an error" for a summary function that is not zero at 0 and
        # at the total weight
        ctx.label("strict_rejects")
        try:
            call(win_arg(case["kind"], case["coarse"]), True)
        except ValueError:
            pass
        else:
            ctx.fail("strict", "non-strict summary function accepted with strict=True")
        strict = False
    else:
        strict = case["strict"]
    got = np.asarray(call(win_arg(case["kind"], case["coarse"]), strict))
    exp, unsure = O.general_stat(spec, W, f, m, coarse, mode, pol, sn)
    if case["kind"] is None:
        ctx.check(got.shape == exp.shape[1:], "shape", f"windows=None: {got.shape} expected {exp.shape[1:]}")
        got = got[np.newaxis]
    ctx.check(got.shape == exp.shape, "shape", f"{got.shape} expected {exp.shape}")
    keep = ~unsure if (mode == "site" and not strict_ok) else np.ones(len(coarse) - 1, dtype=bool)
    ctx.label("unsure_window_skipped", bool((~keep).any()))
    ctx.close(got[keep], exp[keep], f"definition[{mode}]")
    # (D) refinement
    gfine = np.asarray(call(fine, strict))
    efine, unsure_f = O.general_stat(spec, W, f, m, fine, mode, pol, sn)
    keepf = ~unsure_f if (mode == "site" and not strict_ok) else np.ones(len(fine) - 1, dtype=bool)
    ctx.close(gfine[keepf], efine[keepf], f"definition[{mode}] on the refined windows")
    comb = O.combine_refinement(gfine, fine, coarse, sn)
    ctx.close(got, comb, f"refinement[{mode}]")



# ------------------------------------------------------------------ (B)+(C)+(D) named sample-set statistics
ONE_WAY = ["diversity", "segregating_sites", "Y1", "Tajimas_D"]
K_WAY = ["divergence", "genetic_relatedness", "Y2", "f2", "Y3", "f3", "f4", "Fst"]
ADDITIVE = {"diversity", "segregating_sites", "Y1", "divergence", "genetic_relatedness", "Y2", "f2",
            "Y3", "f3", "f4"}


@st.composite
def named_case(draw):
    stat = draw(st.sampled_from(ONE_WAY + ONE_WAY + K_WAY + K_WAY + ["genetic_relatedness"]))
    k = O.ARITY[stat]
    need = {"Y1": 3, "Tajimas_D": 4}.get(stat, 1)
    degenerate_ok = draw(st.integers(0, 3)) == 0  # keep some sets below the size the formula needs
    if degenerate_ok and stat != "Tajimas_D":
        need = 1
    min_samples = max(need, 2, draw(st.sampled_from([2, 3, 4, 5, 6])))
    spec = draw(stat_spec(min_samples=min_samples, max_nodes=10))
    smp = model.samples(spec)
    case = dict(spec=spec, stat=stat)
    case["mode"] = draw(st.sampled_from(MODES))
    case["span_normalise"] = draw(st.booleans())
    case["kind"], case["coarse"], case["fine"] = draw_windows(draw, spec)
    disjoint = draw(st.booleans())
    if k == 1:
        form = draw(st.sampled_from(["lists", "lists", "flat"] + (["none"] if stat != "Y1" else [])))
        if form == "lists":
            sets = draw_sample_sets(draw, spec, 1, 3, disjoint=disjoint, need=need)
        elif form == "flat":
            sets = draw_sample_sets(draw, spec, 1, 1, need=need)
        else:
            sets = [list(smp)]
        case.update(form=form, sets=sets, indexes=None)
    else:
        form = draw(st.sampled_from(["full", "full", "single", "none"]))
        # the C library rejects fewer sample sets than the arity of the statistic
        # (TSK_ERR_INSUFFICIENT_SAMPLE_SETS) even when the index tuples repeat a set; kept out of
        # the domain as input validation
        lo, hi = (k, k) if form == "none" else (k, 4)
        sets = draw_sample_sets(draw, spec, lo, hi, disjoint=disjoint)
        ns = len(sets)
        if form == "full":
            ni = draw(st.integers(1, 3))
            indexes = [[draw(st.integers(0, ns - 1)) for _ in range(k)] for _ in range(ni)]
        elif form == "single":
            indexes = [draw(st.integers(0, ns - 1)) for _ in range(k)]
        else:
            indexes = None
        case.update(form=form, sets=sets, indexes=indexes)
    if stat == "genetic_relatedness":
        case["polarised"] = draw(st.booleans())
        case["centre"] = draw(st.booleans())
        case["proportion"] = draw(st.booleans())
    return case


def nan_or_zero(ctx, arr, what):
    arr = np.asarray(arr, dtype=float)
    ctx.check(bool(np.all(np.isnan(arr) | (arr == 0))), what,
              lambda: f"degenerate column (zero denominator) holds a value other than nan/0: {arr!r}")


def compare_cols(ctx, got, exp, deg, what):
    """Last axis = statistics; degenerate columns must be nan or 0, the rest close."""
    deg = np.asarray(deg, dtype=bool)
    ctx.check(got.shape == exp.shape, "shape", f"{what}: {got.shape} expected {exp.shape}")
    if (~deg).any():
        ctx.close(got[..., ~deg], exp[..., ~deg], what)
    if deg.any():
        nan_or_zero(ctx, got[..., deg], what)


def call_named(ts, case, windows, **override):
    stat, mode = case["stat"], case["mode"]
    kw = dict(windows=windows, mode=mode)
    if stat != "Tajimas_D":
        kw["span_normalise"] = case["span_normalise"]
    if stat == "genetic_relatedness":
        kw.update(polarised=case["polarised"], centre=case["centre"], proportion=case["proportion"])
    kw.update(override)
    meth = getattr(ts, stat)
    if O.ARITY[stat] == 1:
        form = case["form"]
        ss = None if form == "none" else (case["sets"][0] if form == "flat" else case["sets"])
        if ss is None:
            return meth(**kw)
        return meth(ss, **kw)
    idx = case["indexes"]
    if case["form"] == "full":
        idx = [tuple(t) for t in idx]
    return meth(case["sets"], indexes=idx, **kw)


def full_dims(ctx, case, got, nw, n_nodes, ncols, what):
    """Undo the documented dimension dropping (rules 1-4) and check the shape exactly."""
    got = np.asarray(got)
    shape = []
    if case["kind"] is not None or what == "fine":
        shape.append(nw)
    if case["mode"] == "node":
        shape.append(n_nodes)
    dropped_last = case["form"] in ("flat", "none", "single")
    if not dropped_last:
        shape.append(ncols)
    ctx.check(got.shape == tuple(shape), "output dimensions",
              f"{case['stat']} form={case['form']} windows={case['kind']} mode={case['mode']}: shape "
              f"{got.shape} expected {tuple(shape)}")
    if dropped_last:
        got = got[..., np.newaxis]
    if case["kind"] is None and what != "fine":
        got = got[np.newaxis]
    return got.astype(float)


def expected_named(spec, case, windows):
    """(expected array, degenerate columns, skip mask or None) from oracle (B)."""
    stat, mode, sets = case["stat"], case["mode"], case["sets"]
    sn = case.get("span_normalise", True)
    k = O.ARITY[stat]
    if k == 1:
        idx = None
    else:
        idx = case["indexes"]
        if case["form"] == "single":
            idx = [idx]
        elif case["form"] == "none":
            idx = [list(range(k))]
    n = np.array([len(s) for s in sets], dtype=float)
    if stat in ADDITIVE and stat != "genetic_relatedness":
        exp, deg = O.sample_count_named(spec, stat, sets, idx, windows, mode, sn)
        return exp, deg, None, idx
    if stat == "genetic_relatedness":
        exp, deg = O.sample_count_named(spec, stat, sets, idx, windows, mode, sn,
                                        polarised=case["polarised"], centre=case["centre"])
        skip = None
        if case["proportion"]:
            union = sorted({u for s in sets for u in s})
            den, _ = O.sample_count_named(spec, "segregating_sites", [union], None, windows, mode, sn)
            with np.errstate(divide="ignore", invalid="ignore"):
                exp = exp / den
            skip = np.broadcast_to(den == 0, exp.shape)
        return exp, deg, skip, idx
    if stat == "Tajimas_D":
        T, dT = O.sample_count_named(spec, "diversity", sets, None, windows, mode, False)
        S, _ = O.sample_count_named(spec, "segregating_sites", sets, None, windows, mode, False)
        D, rad = O.tajimas_d(T, S, n)
        rad = np.where(np.isnan(rad), 0.0, rad)
        skip = (np.abs(rad) <= 1e-6) | np.broadcast_to(n < 4, rad.shape)
        return D, dT, skip, idx
    if stat == "Fst":
        d, _ = O.sample_count_named(spec, "diversity", sets, None, windows, mode, sn)
        dxy, _ = O.sample_count_named(spec, "divergence", sets, idx, windows, mode, sn)
        exp = np.zeros(dxy.shape)
        skip = np.zeros(dxy.shape, dtype=bool)
        for c, (u, v) in enumerate(idx):
            den = d[..., u] + d[..., v] + 2 * dxy[..., c]
            with np.errstate(divide="ignore", invalid="ignore"):
                exp[..., c] = 1 - 2 * (d[..., u] + d[..., v]) / den
            skip[..., c] = (den == 0) | np.isnan(den)
        deg = np.array([n[u] < 2 or n[v] < 2 for u, v in idx])
        return exp, deg, skip, idx
    raise AssertionError(stat)


def check_against(ctx, case, got, exp, deg, skip, what):
    """Compare with the zero-denominator policy: degenerate columns nan/0; positions whose derived
    ratio has an exactly-zero denominator must be non-finite in site/node mode and are not
    asserted in branch mode (running-sum residue)."""
    ctx.check(got.shape == exp.shape, "shape", f"{what}: {got.shape} expected {exp.shape}")
    if skip is not None and skip.any():
        ctx.label("zero_denominator")
        if case["mode"] != "branch" and case["stat"] != "Tajimas_D":
            sel = skip & ~np.broadcast_to(np.asarray(deg, dtype=bool), skip.shape)
            ctx.check(bool(np.all(~np.isfinite(got[sel]))), what,
                      lambda: f"zero denominator but finite value: got {got[sel]!r}")
        got = np.where(skip, 0.0, got)
        exp = np.where(skip, 0.0, exp)
    compare_cols(ctx, got, exp, deg, what)


def run_named(case, ctx):
    import tskit

    spec = case["spec"]
    stat, mode = case["stat"], case["mode"]
    ts = gen.build_tables(spec, tskit).tree_sequence()
    n_nodes = len(spec["nodes"])
    coarse = O.explicit_windows(spec, case["kind"], case["coarse"])
    fine = case["fine"]
    sets = case["sets"]
    used = sorted({u for s in sets for u in s})
    common_labels(ctx, spec, coarse, fine, used)
    ctx.label("stat=" + stat)
    ctx.label(f"{stat}/{mode}")
    ctx.label("form=" + case["form"])
    ctx.label("windows=" + str(case["kind"]))
    flat = [u for s in sets for u in s]
    ctx.label("overlapping_sets", len(flat) != len(set(flat)))
    ctx.label("singleton_set", any(len(s) == 1 for s in sets))
    sn = case.get("span_normalise", True)

    got = call_named(ts, case, win_arg(case["kind"], case["coarse"]))
    exp, deg, skip, idx = expected_named(spec, case, coarse)
    ncols = exp.shape[-1]
    if np.ndim(got) == 0:
        ctx.label("scalar_result")
    got = full_dims(ctx, case, got, len(coarse) - 1, n_nodes, ncols, "coarse")
    ctx.label("degenerate_column", bool(np.any(deg)))
    check_against(ctx, case, got, exp, deg, skip, f"{stat}[{mode}] summary function")

    # (C) first principles
    nondeg = ~np.asarray(deg, dtype=bool)
    if mode in ("site", "branch") and stat in ("diversity", "divergence", "Y1", "Y2", "Y3", "f2", "f3", "f4"):
        tidx = idx if idx is not None else [[i] for i in range(len(sets))]
        e2, d2 = O.tuple_stat(spec, stat, sets, tidx, coarse, mode, sn)
        ctx.eq(list(map(bool, d2)), list(map(bool, deg)), "degenerate columns (tuple enumeration)")
        if nondeg.any():
            ctx.close(got[..., nondeg], e2[..., nondeg], f"{stat}[{mode}] sample-tuple enumeration")
    if mode == "site" and stat in ("diversity", "divergence"):
        tidx = idx if idx is not None else [[i, i] for i in range(len(sets))]
        e3 = O.genotype_diversity(spec, sets, tidx, coarse, sn)
        if nondeg.any():
            ctx.close(got[..., nondeg], e3[..., nondeg], f"{stat}[site] pairwise genotype differences")
    if mode == "site" and stat == "segregating_sites":
        ctx.close(got, O.genotype_segsites(spec, sets, coarse, sn), "segregating_sites[site] distinct alleles - 1")
    if stat == "genetic_relatedness" and mode in ("site", "branch") and not case["proportion"]:
        e4 = O.relatedness_pairs(spec, sets, idx, coarse, mode, sn, case["polarised"], case["centre"])
        ctx.close(got, e4, f"genetic_relatedness[{mode}] shared alleles/branches of sample pairs")

    # (D) refinement
    additive = stat in ADDITIVE and not case.get("proportion", False)
    gfine = call_named(ts, case, fine)
    gfine = full_dims(ctx, case, gfine, len(fine) - 1, n_nodes, ncols, "fine")
    efine, degf, skipf, _ = expected_named(spec, case, fine)
    check_against(ctx, case, gfine, efine, degf, skipf, f"{stat}[{mode}] summary function, refined windows")
    if additive and nondeg.any():
        comb = O.combine_refinement(gfine[..., nondeg], fine, coarse, sn)
        ctx.close(got[..., nondeg], comb, f"{stat}[{mode}] refinement")



# ------------------------------------------------------------------ allele frequency spectrum
@st.composite
def afs_case(draw):
    min_samples = draw(st.sampled_from([2, 3, 4, 5]))
    spec = draw(stat_spec(min_samples=min_samples, max_nodes=10))
    smp = model.samples(spec)
    case = dict(spec=spec)
    case["mode"] = draw(st.sampled_from(["site", "site", "branch"]))
    case["polarised"] = draw(st.booleans())
    case["span_normalise"] = draw(st.booleans())
    case["kind"], case["coarse"], case["fine"] = draw_windows(draw, spec)
    form = draw(st.sampled_from(["lists", "lists", "lists", "none"]))
    if form == "none":
        sets = [list(smp)]
    else:
        sets = draw_sample_sets(draw, spec, 1, 3, disjoint=draw(st.booleans()))
        sets = [s[:4] for s in sets]
    case.update(form=form, sets=sets)
    return case


def run_afs(case, ctx):
    import tskit

    spec = case["spec"]
    mode, pol, sn = case["mode"], case["polarised"], case["span_normalise"]
    ts = gen.build_tables(spec, tskit).tree_sequence()
    coarse = O.explicit_windows(spec, case["kind"], case["coarse"])
    fine = case["fine"]
    sets = case["sets"]
    common_labels(ctx, spec, coarse, fine, sorted({u for s in sets for u in s}))
    ctx.label("mode=" + mode)
    ctx.label("polarised", pol)
    ctx.label("folded", not pol)
    ctx.label("joint", len(sets) > 1)
    ctx.label("windows=" + str(case["kind"]))
    dims = tuple(len(x) + 1 for x in sets)

    def call(windows):
        kw = dict(windows=windows, mode=mode, span_normalise=sn, polarised=pol)
        if case["form"] == "none":
            return np.asarray(ts.allele_frequency_spectrum(**kw), dtype=float)
        return np.asarray(ts.allele_frequency_spectrum(sets, **kw), dtype=float)

    def check(got, windows, what):
        nw = len(windows) - 1
        ctx.check(got.shape == (nw,) + dims, "shape", f"afs {what}: {got.shape} expected {(nw,) + dims}")
        unf = O.afs_unfolded(spec, sets, windows, mode, pol, sn)
        ctx.label("afs_nonzero", bool(np.any(unf != 0)))
        if pol:
            ctx.close(got, unf, f"afs[{mode}] polarised {what}")
        else:
            if len(dims) == 1:
                ctx.close(got, O.fold_1d(unf), f"afs[{mode}] folded {what}")
            ctx.close(O.symmetrise(got), O.symmetrise(unf), f"afs[{mode}] folded, entry + mirror entry {what}")
            up = O.upper_half_mask(dims)
            ctx.check(bool(np.all(got[:, up] == 0)), f"afs[{mode}] folded {what}",
                      lambda: f"entries above half of the total sample count are not zero: {got!r}")

    got = call(win_arg(case["kind"], case["coarse"]))
    if case["kind"] is None:
        ctx.check(got.shape == dims, "shape", f"afs windows=None: {got.shape} expected {dims}")
        got = got[np.newaxis]
    check(got, coarse, "")
    gfine = call(fine)
    check(gfine, fine, "(refined windows)")
    ctx.close(got, O.combine_refinement(gfine, fine, coarse, sn), f"afs[{mode}] refinement")
    if mode == "site" and len(sets) == 1:
        try:
            ts.allele_frequency_spectrum(sets, mode="node")
        except ValueError:
            pass
        except tskit.LibraryError:
            pass
        else:
            ctx.fail("afs node mode", "mode='node' did not raise (documented: not supported)")


# ------------------------------------------------------------------ weighted statistics
WSTATS = ["trait_covariance", "trait_correlation", "trait_linear_model", "genetic_relatedness_weighted",
          "genetic_relatedness_vector"]
TRAITS = [0.0, 1.0, 1.0, 2.0, -1.0, 3.0, 0.5, -2.0]


@st.composite
def weighted_case(draw):
    stat = draw(st.sampled_from(WSTATS))
    min_samples = draw(st.sampled_from([2, 3, 4, 5, 6]))
    if stat == "trait_linear_model":
        min_samples = max(min_samples, 4)
    spec = draw(stat_spec(min_samples=min_samples, max_nodes=10))
    smp = model.samples(spec)
    n = len(smp)
    case = dict(spec=spec, stat=stat)
    if stat == "genetic_relatedness_vector":
        case["mode"] = "branch"
    else:
        case["mode"] = draw(st.sampled_from(MODES))
    case["span_normalise"] = draw(st.booleans())
    case["kind"], case["coarse"], case["fine"] = draw_windows(draw, spec)
    k = draw(st.integers(1, 3))
    W = [[draw(st.sampled_from(TRAITS)) for _ in range(k)] for _ in range(n)]
    if stat == "trait_correlation":
        # every column needs positive standard deviation (documented requirement)
        for c in range(k):
            if len({row[c] for row in W}) == 1:
                W[0][c] = W[0][c] + 1.0
    case["W"] = W
    if stat == "trait_linear_model":
        nz = draw(st.integers(0, 2))
        Z = [[draw(st.sampled_from([0.0, 1.0, 2.0, -1.0])) for _ in range(nz)] for _ in range(n)]
        if nz:
            tZ = np.column_stack([np.array(Z).reshape(n, nz), np.ones(n)])
            if np.linalg.matrix_rank(tZ) < nz + 1:
                nz, Z = 0, None  # columns must be linearly independent (documented)
        else:
            Z = None
        case["Z"] = Z
    if stat == "genetic_relatedness_weighted":
        case["polarised"] = draw(st.booleans())
        case["centre"] = draw(st.booleans())
        form = draw(st.sampled_from(["full", "single"] + (["none"] if k == 2 else [])))
        if form == "full":
            ni = draw(st.integers(1, 3))
            idx = [[draw(st.integers(0, k - 1)), draw(st.integers(0, k - 1))] for _ in range(ni)]
        elif form == "single":
            idx = [draw(st.integers(0, k - 1)), draw(st.integers(0, k - 1))]
        else:
            idx = None
        case.update(form=form, indexes=idx)
    if stat == "genetic_relatedness_vector":
        # span_normalise=True is the open known finding KEY_GRV_SPAN (the C function ignores the
        # option); it is kept out of the search by construction and re-executed by the probe
        case["span_normalise"] = False
        case["centre"] = draw(st.booleans())
        nn = len(spec["nodes"])
        if not case["centre"] and draw(st.integers(0, 2)) > 0:
            case["nodes"] = [draw(st.integers(0, nn - 1)) for _ in range(draw(st.integers(1, 4)))]
        else:
            case["nodes"] = None
        if draw(st.booleans()):
            # the window check of this method allows windows that do not span the genome
            ws = case["fine"]
            if len(ws) > 2:
                a = draw(st.integers(0, len(ws) - 2))
                b = draw(st.integers(a + 1, len(ws) - 1))
                case["partial"] = ws[a:b + 1]
    return case


KEY_GRV_SPAN = "genetic_relatedness_vector.span_normalise_ignored"


def classify_weighted(case, exc):
    """genetic_relatedness_vector(span_normalise=True) returns the un-normalised sums (the C
    function never applies TSK_STAT_SPAN_NORMALISE)."""
    if (case.get("stat") == "genetic_relatedness_vector" and case.get("span_normalise")
            and "span_normalise=True" in str(exc)):
        return KEY_GRV_SPAN
    return None


def run_weighted(case, ctx):
    import tskit

    spec = case["spec"]
    stat, mode, sn = case["stat"], case["mode"], case["span_normalise"]
    ts = gen.build_tables(spec, tskit).tree_sequence()
    smp = model.samples(spec)
    n = len(smp)
    n_nodes = len(spec["nodes"])
    W = np.array(case["W"], dtype=float).reshape(n, -1)
    k = W.shape[1]
    coarse = O.explicit_windows(spec, case["kind"], case["coarse"])
    fine = case["fine"]
    common_labels(ctx, spec, coarse, fine, smp)
    ctx.label("stat=" + stat)
    ctx.label(f"{stat}/{mode}")
    ctx.label("windows=" + str(case["kind"]))
    warg = win_arg(case["kind"], case["coarse"])

    def undrop(got, nw, windows_given, ncols, dropped_last):
        got = np.asarray(got, dtype=float)
        shape = ([nw] if windows_given else []) + ([n_nodes] if mode == "node" else []) + (
            [] if dropped_last else [ncols])
        ctx.check(got.shape == tuple(shape), "output dimensions", f"{stat}: {got.shape} expected {tuple(shape)}")
        if dropped_last:
            got = got[..., np.newaxis]
        if not windows_given:
            got = got[np.newaxis]
        return got

    if stat in ("trait_covariance", "trait_correlation", "trait_linear_model"):
        Z = None
        if stat == "trait_linear_model" and case.get("Z") is not None:
            Z = np.array(case["Z"], dtype=float).reshape(n, -1)

        def call(windows):
            if stat == "trait_linear_model":
                return ts.trait_linear_model(W, Z, windows=windows, mode=mode, span_normalise=sn)
            return getattr(ts, stat)(W, windows=windows, mode=mode, span_normalise=sn)

        def oracle(windows):
            if stat == "trait_covariance":
                return O.trait_covariance(spec, W, windows, mode, sn), np.inf
            if stat == "trait_correlation":
                return O.trait_correlation(spec, W, windows, mode, sn), np.inf
            return O.trait_linear_model(spec, W, Z, windows, mode, sn)

        got = undrop(call(warg), len(coarse) - 1, case["kind"] is not None, k, False)
        exp, worst = oracle(coarse)
        if worst < 1e-6:
            ctx.label("ill_conditioned_skipped")
            return
        ctx.label("covariates", Z is not None)
        ctx.close(got, exp, f"{stat}[{mode}]", rtol=1e-7, atol=1e-9)
        gfine = undrop(call(fine), len(fine) - 1, True, k, False)
        efine, _ = oracle(fine)
        ctx.close(gfine, efine, f"{stat}[{mode}] refined windows", rtol=1e-7, atol=1e-9)
        ctx.close(got, O.combine_refinement(gfine, fine, coarse, sn), f"{stat}[{mode}] refinement",
                  rtol=1e-7, atol=1e-9)
        return

    if stat == "genetic_relatedness_weighted":
        pol, centre = case["polarised"], case["centre"]
        form, idx = case["form"], case["indexes"]
        full = [idx] if form == "single" else ([[0, 1]] if form == "none" else idx)
        ctx.label("form=" + form)

        def call(windows):
            kw = dict(windows=windows, mode=mode, span_normalise=sn, polarised=pol, centre=centre)
            if form == "none":
                return ts.genetic_relatedness_weighted(W, **kw)
            return ts.genetic_relatedness_weighted(W, indexes=[tuple(t) for t in idx] if form == "full" else idx, **kw)

        got = undrop(call(warg), len(coarse) - 1, case["kind"] is not None, len(full), form != "full")
        exp = O.relatedness_weighted(spec, W, full, coarse, mode, sn, pol, centre)
        ctx.close(got, exp, f"genetic_relatedness_weighted[{mode}] summary function")
        if mode in ("site", "branch"):
            # docstring: sum_ab W_ai W_bj C_ab with C the genetic_relatedness between samples a, b
            singles = [[u] for u in smp]
            pairs = [[a, b] for a in range(n) for b in range(n)]
            C = O.relatedness_pairs(spec, singles, pairs, coarse, mode, sn, pol, centre).reshape(-1, n, n)
            e2 = np.stack([np.array([W[:, i] @ C[w] @ W[:, j] for i, j in full]) for w in range(len(coarse) - 1)])
            ctx.close(got, e2, f"genetic_relatedness_weighted[{mode}] = W^T C W")
        gfine = undrop(call(fine), len(fine) - 1, True, len(full), form != "full")
        ctx.close(gfine, O.relatedness_weighted(spec, W, full, fine, mode, sn, pol, centre),
                  f"genetic_relatedness_weighted[{mode}] refined windows")
        ctx.close(got, O.combine_refinement(gfine, fine, coarse, sn),
                  f"genetic_relatedness_weighted[{mode}] refinement")
        return

    # genetic_relatedness_vector (branch mode only: site/node are rejected by the library)
    centre, nodes = case["centre"], case["nodes"]
    focal = smp if nodes is None else nodes
    ctx.label("focal_nodes", nodes is not None)
    ctx.label("centre", centre)

    def expected(windows, span_normalise):
        C = O.relatedness_matrix_nodes(spec, focal, windows, "branch", span_normalise)
        out = np.zeros((len(windows) - 1, len(focal), k))
        for w in range(len(windows) - 1):
            Cw = C[w]
            if centre:  # focal == samples: centred relatedness matrix (I-J/n) C (I-J/n)
                J = np.eye(n) - np.full((n, n), 1.0 / n)
                Cw = J @ Cw @ J
            out[w] = Cw @ W
        return out

    def call(windows, span_normalise):
        kw = dict(windows=windows, mode="branch", span_normalise=span_normalise, centre=centre)
        if nodes is not None:
            kw["nodes"] = nodes
        return np.asarray(ts.genetic_relatedness_vector(W, **kw), dtype=float)

    for wl, given, tag in ((coarse, case["kind"] is not None, ""), (fine, True, " refined windows"),
                           (case.get("partial"), True, " partial windows")):
        if wl is None:
            continue
        arg = warg if tag == "" else wl
        got = call(arg, False)
        if not given:
            ctx.check(got.shape == (len(focal), k), "shape", f"vector windows=None: {got.shape}")
            got = got[np.newaxis]
        ctx.check(got.shape == (len(wl) - 1, len(focal), k), "shape", f"vector: {got.shape}")
        ctx.close(got, expected(wl, False), "genetic_relatedness_vector span_normalise=False" + tag)
        if tag == " refined windows":
            g0 = call(warg, False)
            g0 = g0[np.newaxis] if case["kind"] is None else g0
            ctx.close(g0, O.combine_refinement(got, fine, coarse, False), "genetic_relatedness_vector refinement")
    if sn:
        got = call(warg, True)
        got = got[np.newaxis] if case["kind"] is None else got
        ctx.close(got, expected(coarse, True), "genetic_relatedness_vector span_normalise=True")



# ------------------------------------------------------------------ (C)+(E) divergence_matrix / genetic_relatedness_matrix
THREADS = [0, 0, 1, 2, 3, 8]


@st.composite
def matrix_case(draw):
    spec = draw(stat_spec(min_samples=draw(st.sampled_from([2, 3, 4, 5, 6])), max_nodes=10))
    smp = model.samples(spec)
    case = dict(spec=spec)
    case["stat"] = draw(st.sampled_from(["divergence_matrix", "genetic_relatedness_matrix"]))
    case["mode"] = draw(st.sampled_from(["site", "branch"] + (
        ["branch"] if case["stat"] == "genetic_relatedness_matrix" else [])))
    case["span_normalise"] = draw(st.booleans())
    case["kind"], case["coarse"], case["fine"] = draw_windows(draw, spec)
    if case["stat"] == "divergence_matrix" and draw(st.booleans()):
        # windows that do not span the genome (only this statistic's window check allows it)
        ws = case["fine"]
        a = draw(st.integers(0, len(ws) - 2))
        b = draw(st.integers(a + 1, len(ws) - 1))
        case["kind"], case["coarse"] = "list", ws[a:b + 1]
    form = draw(st.sampled_from(["none", "flat", "lists", "lists"]))
    if form == "flat" and case["stat"] == "genetic_relatedness_matrix":
        form = "lists"  # its docstring asks for a list of lists (a flat list fails in len())
    if form == "none":
        sets = [[u] for u in smp]
    elif form == "flat":
        k = draw(st.integers(1, len(smp)))
        sets = [[u] for u in draw(st.permutations(smp))[:k]]
    else:
        sets = draw_sample_sets(draw, spec, 1, 4, disjoint=True)
        flat = [u for x in sets for u in x]
        if len(flat) != len(set(flat)):  # fewer samples than sets: fall back to singletons
            sets = [[u] for u in smp]
    case.update(form=form, sets=sets)
    case["num_threads"] = draw(st.sampled_from(THREADS))
    case["repeat"] = draw(st.integers(1, 3))
    return case


def run_matrix(case, ctx):
    import tskit

    spec = case["spec"]
    stat, mode, sn = case["stat"], case["mode"], case["span_normalise"]
    ts = gen.build_tables(spec, tskit).tree_sequence()
    L = F(spec["L"])
    sets = case["sets"]
    K = len(sets)
    kind = case["kind"]
    wl = O.explicit_windows(spec, kind, case["coarse"])
    partial = wl[0] != 0.0 or wl[-1] != L
    common_labels(ctx, spec, wl, case["fine"], sorted({u for x in sets for u in x}))
    ctx.label(f"{stat}/{mode}")
    ctx.label("partial_windows", partial)
    ctx.label("form=" + case["form"])
    ctx.label("windows=" + str(kind))
    ctx.label(f"num_threads={case['num_threads']}")
    ctx.label("threads>1", case["num_threads"] > 1)

    def call(windows, num_threads):
        kw = dict(windows=windows, mode=mode, span_normalise=sn, num_threads=num_threads)
        meth = getattr(ts, stat)
        if case["form"] == "none":
            out = meth(**kw)
        elif case["form"] == "flat":
            out = meth([x[0] for x in sets], **kw)
        else:
            out = meth(sets, **kw)
        return np.asarray(out, dtype=float)

    warg = win_arg(kind, case["coarse"])
    got = call(warg, 0)
    if kind is None:
        ctx.check(got.shape == (K, K), "shape", f"{stat}: {got.shape} expected {(K, K)}")
        got = got[np.newaxis]
    ctx.check(got.shape == (len(wl) - 1, K, K), "shape", f"{stat}: {got.shape}")
    if stat == "divergence_matrix":
        exp = O.divergence_matrix(spec, sets, wl, mode, sn)
        mask = ~np.isnan(exp)  # diagonal of singleton sets: undocumented, not asserted
        ctx.close(got[mask], exp[mask], f"divergence_matrix[{mode}]")
        if not partial:
            gf = call(case["fine"], 0)
            ef = O.divergence_matrix(spec, sets, case["fine"], mode, sn)
            mf = ~np.isnan(ef)
            ctx.close(gf[mf], ef[mf], f"divergence_matrix[{mode}] refined windows")
            comb = O.combine_refinement(gf, case["fine"], wl, sn)
            ctx.close(got[mask], comb[mask], f"divergence_matrix[{mode}] refinement")
    else:
        one_mut = all(len(model.site_mutations(spec, j)) <= 1 for j in range(len(spec["sites"])))
        if mode == "branch" or one_mut:
            # documented: equal to genetic_relatedness(centre=True, proportion=False) in branch mode
            # and in site mode when every site has at most one mutation
            idx = [(i, j) for i in range(K) for j in range(K)]
            exp = O.relatedness_pairs(spec, sets, idx, wl, mode, sn, True, True).reshape(len(wl) - 1, K, K)
            ctx.label("relatedness_matrix_asserted")
            ctx.close(got, exp, f"genetic_relatedness_matrix[{mode}]")
            if K >= 2:  # (fewer sample sets than the arity are rejected by the library)
                ref = np.asarray(ts.genetic_relatedness(sets, indexes=idx, windows=wl, mode=mode,
                                                        span_normalise=sn, proportion=False), dtype=float)
                ctx.close(got, ref.reshape(len(wl) - 1, K, K),
                          f"genetic_relatedness_matrix[{mode}] vs genetic_relatedness")
    # (E) worker threads
    nt = case["num_threads"]
    if nt > 0:
        for r in range(case["repeat"]):
            gt = call(warg, nt)
            if kind is None:
                gt = gt[np.newaxis]
            ctx.check(gt.shape == got.shape, "shape", f"{stat} num_threads={nt}: {gt.shape} expected {got.shape}")
            ctx.close(gt, got, f"{stat}[{mode}] num_threads={nt} vs num_threads=0 (windows={kind})")


# ------------------------------------------------------------------ (C)+(E) GNN, mean_descendants
@st.composite
def gnn_case(draw):
    spec = draw(stat_spec(min_samples=1, max_nodes=10, min_nodes=2))
    n = len(spec["nodes"])
    perm = list(draw(st.permutations(list(range(n)))))
    k = draw(st.integers(1, min(3, n)))
    cover = draw(st.sampled_from(["any", "any", "samples"]))
    if cover == "samples":
        smp = model.samples(spec)
        perm = [u for u in perm if u in smp]
        k = min(k, len(perm))
        sizes = [1] * k
        rest = len(perm) - k
        for i in range(k - 1):
            e = draw(st.integers(0, rest))
            sizes[i] += e
            rest -= e
        sizes[k - 1] += rest
    else:
        tot = draw(st.integers(k, n))
        sizes = [1] * k
        rest = tot - k
        for i in range(k):
            e = draw(st.integers(0, rest))
            sizes[i] += e
            rest -= e
    sets, i = [], 0
    for sz in sizes:
        sets.append(sorted(perm[i:i + sz]))
        i += sz
    nf = draw(st.integers(1, 5))
    focal = [draw(st.integers(0, n - 1)) for _ in range(nf)]
    return dict(spec=spec, sets=sets, focal=focal, cover=cover, num_threads=draw(st.sampled_from(THREADS)),
                repeat=draw(st.integers(1, 3)))


def run_gnn(case, ctx):
    import tskit

    spec = case["spec"]
    ts = gen.build_tables(spec, tskit).tree_sequence()
    sets, focal = case["sets"], case["focal"]
    labs = gen.spec_labels(spec, model)
    for l in labs:
        ctx.label(l)
    allref = {u for x in sets for u in x}
    ctx.label("focal_in_reference", any(u in allref for u in focal))
    ctx.label("focal_not_in_reference", any(u not in allref for u in focal))
    ctx.label("non_sample_reference", any(not model.is_sample(spec, u) for u in allref))
    ctx.label("cover=" + case["cover"])
    ctx.label(f"num_threads={case['num_threads']}")
    ctx.nt(bool(spec["edges"]) and bool(labs & {"multi_tree", "multi_root", "internal_sample"}))
    got = np.asarray(ts.genealogical_nearest_neighbours(focal, sets), dtype=float)
    exp = O.gnn(spec, focal, sets)
    ctx.check(got.shape == exp.shape, "shape", f"gnn {got.shape} expected {exp.shape}")
    ctx.label("gnn_nonzero", bool(np.any(exp != 0)))
    ctx.close(got, exp, "genealogical_nearest_neighbours")
    nt = case["num_threads"]
    if nt > 0:
        ctx.label("threads>focal", nt > len(focal))
        for r in range(case["repeat"]):
            gt = np.asarray(ts.genealogical_nearest_neighbours(focal, sets, num_threads=nt), dtype=float)
            ctx.check(gt.shape == got.shape, "shape", f"gnn num_threads={nt}: {gt.shape} expected {got.shape}")
            ctx.close(gt, got, f"genealogical_nearest_neighbours num_threads={nt} vs 0")
    # mean_descendants
    md = np.asarray(ts.mean_descendants(sets), dtype=float)
    num, den_ref, den_smp = O.mean_descendants(spec, sets)
    ctx.check(md.shape == num.shape, "shape", f"mean_descendants {md.shape} expected {num.shape}")
    with np.errstate(divide="ignore", invalid="ignore"):
        e_ref = np.where(den_ref[:, None] > 0, num / den_ref[:, None], 0.0)
        e_smp = np.where(den_smp[:, None] > 0, num / den_smp[:, None], np.nan)
    same = bool(np.array_equal(den_ref, den_smp))
    ctx.label("mean_descendants_denominators_coincide", same)
    tol = 1e-12 + 1e-9 * np.maximum(1.0, np.abs(md))
    ok_ref = np.abs(md - e_ref) <= tol
    ok_smp = np.abs(md - e_smp) <= tol  # nan -> False
    # documentation ambiguity (any sample of the tree sequence vs any member of the given sets):
    # either denominator is accepted per node, numerators are pinned
    row_ok = ok_ref.all(axis=1) | ok_smp.all(axis=1)
    ctx.check(bool(row_ok.all()), "mean_descendants",
              lambda: f"got {md.tolist()} expected {e_ref.tolist()} (or with sample denominators {e_smp.tolist()})")


# ------------------------------------------------------------------ (C) pair_coalescence_counts
@st.composite
def forest_ts(draw, k, L, internal_start):
    """A tree sequence on samples 0..k-1 (time 0, leaves) whose trees are single-rooted and have no
    unary nodes; internal nodes are private to each tree."""
    nt = draw(st.integers(1, 3))
    cuts = sorted(draw(st.lists(st.integers(1, 7), min_size=nt - 1, max_size=nt - 1, unique=True)))
    bps = [0.0] + [L * c / 8 for c in cuts] + [L]
    times = [0.0] * k
    edges = []
    for i in range(nt):
        roots = list(range(k))
        t = 0.0
        while len(roots) > 1:
            m = draw(st.integers(2, min(3, len(roots))))
            pick = list(draw(st.permutations(roots))[:m])
            t += draw(st.sampled_from([0.5, 1.0, 2.0]))
            p = len(times)
            times.append(t)
            for c in pick:
                edges.append([bps[i], bps[i + 1], p, c, ""])
                roots.remove(c)
            roots.append(p)
    edges.sort(key=lambda e: (times[e[2]], e[2], e[3], e[0]))
    nodes = [[1 if u < k else 0, times[u], -1, -1, ""] for u in range(len(times))]
    return dict(L=L, nodes=nodes, edges=edges, sites=[], mutations=[], individuals=[], populations=[],
                migrations=[])


@st.composite
def dense_spec(draw, min_k=2, max_k=6):
    """Coalescent-like trees (every sample under one root in every tree, polytomies allowed) from
    which a few edges are deleted again on single trees (extra roots, unary nodes, empty trees)."""
    k = draw(st.integers(min_k, max_k))
    L = draw(st.sampled_from([1.0, 4.0, 10.0]))
    spec = draw(forest_ts(k, L, k))
    ndrop = draw(st.sampled_from([0, 0, 1, 2, 3]))
    edges = list(spec["edges"])
    for _ in range(min(ndrop, len(edges))):
        edges.pop(draw(st.integers(0, len(edges) - 1)))
    if draw(st.integers(0, 9)) == 0 and edges:
        left = min(e[0] for e in edges)  # one tree loses all of its edges
        edges = [e for e in edges if e[0] != left]
    spec["edges"] = edges
    return spec


@st.composite
def coal_case(draw):
    if draw(st.integers(0, 2)) > 0:
        spec = draw(dense_spec())
    else:
        spec = draw(stat_spec(min_samples=draw(st.sampled_from([2, 3, 4, 5])), max_nodes=10,
                              leaf_samples=draw(st.booleans())))
    smp = model.samples(spec)
    if len(smp) < 2:
        sets = [list(smp)]
    else:
        sets = draw_sample_sets(draw, spec, 1, 3, disjoint=True)
        flat = [u for x in sets for u in x]
        if len(flat) != len(set(flat)):
            sets = [list(smp)]
    ns = len(sets)
    case = dict(spec=spec, sets=sets, sets_none=(sets == [list(smp)] and draw(st.booleans())))
    if ns <= 2 and draw(st.booleans()):
        case["indexes"] = None
    else:
        case["indexes"] = [[draw(st.integers(0, ns - 1)), draw(st.integers(0, ns - 1))]
                           for _ in range(draw(st.integers(1, 3)))]
    kind, coarse, fine = draw_windows(draw, spec, kinds=(None, "list", "list"))
    case.update(kind=kind, coarse=coarse, fine=fine)
    case["span_normalise"] = draw(st.booleans())
    case["pair_normalise"] = draw(st.booleans())
    if draw(st.booleans()):
        case["time_windows"] = "nodes"
    else:
        times = sorted({F(x[1]) for x in spec["nodes"]})
        cand = sorted(set(times) | {t + 0.25 for t in times} | {times[0] - 1.0, times[-1] + 1.0})
        k = draw(st.integers(2, min(5, len(cand))))
        tw = sorted(draw(st.permutations(cand))[:k])
        if draw(st.booleans()):
            tw = sorted(set(tw) | {cand[0]})
        if draw(st.booleans()):
            tw = tw + ["inf"]
        case["time_windows"] = tw
    return case


def run_coal(case, ctx):
    import tskit

    spec = case["spec"]
    ts = gen.build_tables(spec, tskit).tree_sequence()
    sets = case["sets"]
    n = len(spec["nodes"])
    labs = gen.spec_labels(spec, model)
    for l in labs:
        ctx.label(l)
    if any(len(x) == 0 for x in sets):
        ctx.label("no_samples_skipped")
        return
    members = sorted({u for x in sets for u in x})
    # domain: no member of the sets is an ancestor of another member (the docstring does not say
    # whether a sample "coalesces" with its own descendants)
    for a, b, par in O.tree_intervals(spec):
        for u in members:
            if any(v in members for v in model.path_to_root(par, u)[1:]):
                ctx.label("nested_samples_skipped")
                return
    wl = O.explicit_windows(spec, case["kind"], case["coarse"])
    sn, pn = case["span_normalise"], case["pair_normalise"]
    ctx.label("span_normalise_with_gap", bool(sn and "gap" in labs))
    tw = case["time_windows"]
    if tw == "nodes":
        bins = list(range(n))
        nb = n
        targ = "nodes"
    else:
        tw = [F(x) for x in tw]
        nb = len(tw) - 1
        bins = []
        for u in range(n):
            t = model.time(spec, u)
            b = -1
            for i in range(nb):
                if tw[i] <= t < tw[i + 1]:
                    b = i
            bins.append(b)
        if all(b < 0 for b in bins):
            ctx.label("no_node_in_time_windows_skipped")
            return
        targ = np.array(tw)
    ctx.label("time_windows=" + ("nodes" if case["time_windows"] == "nodes" else "breaks"))
    idx = case["indexes"]
    full_idx = idx if idx is not None else ([[0, 0]] if len(sets) == 1 else [[0, 1]])
    ctx.label("indexes_none", idx is None)
    ctx.label("windows=" + str(case["kind"]))
    ctx.label("pair_normalise", pn)
    ctx.label("span_normalise", sn)

    def call(windows):
        kw = dict(windows=windows, span_normalise=sn, pair_normalise=pn, time_windows=targ)
        if idx is not None:
            kw["indexes"] = [tuple(t) for t in idx]
        if not case["sets_none"]:
            kw["sample_sets"] = sets
        return np.asarray(ts.pair_coalescence_counts(**kw), dtype=float)

    def undrop(g, nw, given):
        shape = ([nw] if given else []) + ([len(full_idx)] if idx is not None else []) + [nb]
        ctx.check(g.shape == tuple(shape), "output dimensions", f"pair_coalescence_counts {g.shape} expected {tuple(shape)}")
        if idx is None:
            g = g[..., np.newaxis, :]
        if not given:
            g = g[np.newaxis]
        return g

    got = undrop(call(win_arg(case["kind"], case["coarse"])), len(wl) - 1, case["kind"] is not None)
    exp = O.pair_coalescence_counts(spec, sets, full_idx, wl, bins, nb, sn, pn)
    ctx.label("coalescences", bool(np.any(exp != 0)))
    ctx.nt(bool(np.any(exp != 0)) and bool(labs & {"multi_tree", "multi_root", "polytomy"}))
    deg = np.array([(len(sets[i]) < 2) if i == j else False for i, j in full_idx]) & pn
    keep = ~deg
    ctx.close(got[:, keep], exp[:, keep], "pair_coalescence_counts")
    fine = case["fine"]
    gf = undrop(call(fine), len(fine) - 1, True)
    ef = O.pair_coalescence_counts(spec, sets, full_idx, fine, bins, nb, sn, pn)
    ctx.close(gf[:, keep], ef[:, keep], "pair_coalescence_counts refined windows")
    comb = O.combine_refinement_nonmissing(spec, gf, fine, wl) if sn else O.combine_refinement(gf, fine, wl, False)
    ctx.close(got[:, keep], comb[:, keep], "pair_coalescence_counts refinement")


# ------------------------------------------------------------------ (C) LdCalculator r2
@st.composite
def ld_case(draw):
    base = stat_spec(min_samples=draw(st.sampled_from([2, 3, 4, 5])), max_nodes=10, max_sites=5,
                     max_muts_per_site=1, mut_times="unknown")
    if draw(st.integers(0, 5)) > 0:
        base = base.filter(lambda sp: len(sp["sites"]) >= 2 and bool(sp["edges"]))
    spec = draw(base)
    # LdCalculator only supports sites with exactly one, non-silent mutation (documented): give
    # every site one such mutation
    n = len(spec["nodes"])
    spec = dict(spec)
    muts = []
    for j, site in enumerate(spec["sites"]):
        have = [m for m in spec["mutations"] if m[0] == j]
        node = have[0][1] if have else draw(st.integers(0, n - 1))
        derived = have[0][2] if have else site[1]
        if derived == site[1]:
            derived = draw(st.sampled_from([x for x in "ACGT" if x != site[1]]))
        muts.append([j, node, derived, -1, None, ""])
    spec["mutations"] = muts
    m = len(spec["sites"])
    case = dict(spec=spec)
    if m:
        case["a"] = draw(st.integers(0, m - 1))
        case["direction"] = draw(st.sampled_from([1, -1]))
        case["max_sites"] = draw(st.sampled_from([None, None, 0, 1, 2, 3]))
        pos = [F(x[0]) for x in spec["sites"]]
        dists = sorted({abs(p - pos[case["a"]]) for p in pos})
        case["max_distance"] = draw(st.sampled_from([None, None] + dists + [d / 2 for d in dists if d > 0]))
    return case


def run_ld(case, ctx):
    import tskit

    spec = case["spec"]
    ts = gen.build_tables(spec, tskit).tree_sequence()
    m = len(spec["sites"])
    labs = gen.spec_labels(spec, model)
    for l in labs:
        ctx.label(l)
    ctx.label(f"sites={min(m, 3)}{'+' if m >= 3 else ''}")
    ctx.nt(m >= 2 and bool(spec["edges"]))
    ld = tskit.LdCalculator(ts)

    def cmp(got, exp, what):
        if exp is None:
            ctx.label("degenerate_frequency")
            ctx.check(not math.isfinite(got), what, f"degenerate allele frequency but finite r2 {got}")
        else:
            ctx.close(got, exp, what)

    if m == 0:
        ctx.eq(np.asarray(ld.r2_matrix()).shape, (0, 0), "r2_matrix shape")
        return
    E = [[O.r2(spec, a, b) for b in range(m)] for a in range(m)]
    for a in range(m):
        for b in range(m):
            cmp(ld.r2(a, b), E[a][b], f"r2({a},{b})")
    A = np.asarray(ld.r2_matrix(), dtype=float)
    ctx.check(A.shape == (m, m), "r2_matrix", f"shape {A.shape}")
    for a in range(m):
        for b in range(m):
            if a == b:
                ctx.check(A[a, b] == 1.0, "r2_matrix", "diagonal is not 1")
            else:
                cmp(A[a, b], E[a][b], f"r2_matrix[{a},{b}]")
    a, d = case["a"], case["direction"]
    pos = [F(x[0]) for x in spec["sites"]]
    others = list(range(a + 1, m)) if d == 1 else list(range(a - 1, -1, -1))
    exp_list = []
    for b in others:
        if case["max_distance"] is not None and abs(pos[b] - pos[a]) > case["max_distance"]:
            break
        if case["max_sites"] is not None and len(exp_list) >= case["max_sites"]:
            break
        exp_list.append(E[a][b])
    kw = dict(direction=tskit.FORWARD if d == 1 else tskit.REVERSE)
    if case["max_sites"] is not None:
        kw["max_sites"] = case["max_sites"]
    if case["max_distance"] is not None:
        kw["max_distance"] = case["max_distance"]
    arr = np.asarray(ld.r2_array(a, **kw), dtype=float)
    ctx.label("r2_array_truncated", len(exp_list) < len(others))
    # history on ONE calculator: single-pair queries after a restricted array query are unrestricted
    for x in range(m):
        for y in range(m):
            cmp(ld.r2(x, y), E[x][y], f"r2({x},{y}) after r2_array({kw})")
    ctx.check(len(arr) == len(exp_list), "r2_array", f"length {len(arr)} expected {len(exp_list)} ({kw}, a={a})")
    for got, e in zip(arr, exp_list):
        cmp(float(got), e, "r2_array")


# ------------------------------------------------------------------ (C) KC and RF distances
@st.composite
def dist_case(draw):
    k = draw(st.integers(2, 6))
    L = draw(st.sampled_from([1.0, 4.0, 10.0]))
    s1 = draw(forest_ts(k, L, k))
    s2 = draw(forest_ts(k, L, k))
    return dict(spec1=s1, spec2=s2, lambda_=draw(st.sampled_from([0.0, 1.0, 0.5, 0.25])))


def run_dist(case, ctx):
    import tskit

    s1, s2, lam = case["spec1"], case["spec2"], case["lambda_"]
    ts1 = gen.build_tables(s1, tskit).tree_sequence()
    ts2 = gen.build_tables(s2, tskit).tree_sequence()
    L = F(s1["L"])
    iv1, iv2 = O.tree_intervals(s1), O.tree_intervals(s2)
    ctx.label("multi_tree", len(iv1) > 1 or len(iv2) > 1)
    ctx.label("polytomy", "polytomy" in gen.spec_labels(s1, model) | gen.spec_labels(s2, model))
    ctx.label(f"lambda={lam}")
    ctx.nt(len(s1["nodes"]) > 3)
    total = 0.0
    differ = False
    for a1, b1, p1 in iv1:
        t1 = ts1.at(a1, sample_lists=True)
        for a2, b2, p2 in iv2:
            t2 = ts2.at(a2, sample_lists=True)
            e = O.kc_distance(s1, p1, s2, p2, lam)
            differ = differ or e > 0
            ctx.close(t1.kc_distance(t2, lam), e, "Tree.kc_distance")
            ctx.close(t2.kc_distance(t1, lam), e, "Tree.kc_distance (symmetric)")
            total += e * O.overlap(a1, b1, a2, b2)
            rf = len(O.clades(s1, p1) ^ O.clades(s2, p2))
            ctx.eq(int(t1.rf_distance(t2)), rf, "Tree.rf_distance")
    ctx.label("trees_differ", differ)
    ctx.close(ts1.kc_distance(ts2, lam), total / L, "TreeSequence.kc_distance")
    ctx.close(ts2.kc_distance(ts1, lam), total / L, "TreeSequence.kc_distance (symmetric)")
    # trees of one tree sequence against each other
    for a1, b1, p1 in iv1:
        for a2, b2, p2 in iv1:
            t1, t2 = ts1.at(a1, sample_lists=True), ts1.at(a2, sample_lists=True)
            ctx.close(t1.kc_distance(t2, lam), O.kc_distance(s1, p1, s1, p2, lam), "Tree.kc_distance within one ts")
            ctx.eq(int(t1.rf_distance(t2)), len(O.clades(s1, p1) ^ O.clades(s1, p2)), "Tree.rf_distance within one ts")
    ctx.close(ts1.kc_distance(ts1, lam), 0.0, "kc_distance(self)")


# ------------------------------------------------------------------ (C) RF distance on trees with internal samples
@st.composite
def rf_general_case(draw):
    """Single-rooted trees by construction: node u (time u) takes a parent among the older nodes in every
    interval; leaves are samples, internal nodes are samples at random (unary nodes and polytomies occur)."""
    n = draw(st.integers(3, 8))
    nint = draw(st.integers(2, 4))
    par = []
    for i in range(nint):
        row = []
        for u in range(n - 1):
            if i > 0 and draw(st.integers(0, 2)) > 0:
                row.append(par[i - 1][u])
            else:
                row.append(draw(st.integers(u + 1, n - 1)))
        par.append(row + [-1])
    has_child = [any(u in par[i][: n - 1] for i in range(nint)) for u in range(n)]
    always_leafless = [all(u in par[i] for i in range(nint)) for u in range(n)]
    flags = [1 if not always_leafless[u] else int(draw(st.booleans())) for u in range(n)]
    edges = []
    for u in range(n - 1):
        i = 0
        while i < nint:
            k = i
            while k + 1 < nint and par[k + 1][u] == par[i][u]:
                k += 1
            edges.append([float(i), float(k + 1), par[i][u], u, ""])
            i = k + 1
    edges.sort(key=lambda e: (e[2], e[3], e[0]))
    spec = dict(L=float(nint), nodes=[[flags[u], float(u), -1, -1, ""] for u in range(n)], edges=edges,
                sites=[], mutations=[], individuals=[], populations=[], migrations=[])
    return dict(spec=spec)


def run_rf_general(case, ctx):
    """rf_distance between the trees of one tree sequence (identical sample nodes), single-rooted, every
    leaf a sample; internal and unary sample nodes allowed: clades are the sample sets below the nodes."""
    import tskit

    spec = case["spec"]
    ts = gen.build_tables(spec, tskit).tree_sequence()
    usable = []
    for a, b, par in O.tree_intervals(spec):
        ch = model.children_of(par)
        roots = model.roots(spec, par, 1)
        if len(roots) != 1:
            continue
        below = model.descendants(ch, roots[0])
        if any(not ch[u] and not model.is_sample(spec, u) for u in below):
            continue  # a dead leaf: whether the empty clade counts is not defined by the docs
        usable.append((a, par, any(ch[u] and model.is_sample(spec, u) for u in below)))
    ctx.label("pairs", len(usable) >= 2)
    ctx.label("internal_sample", any(x[2] for x in usable))
    ctx.nt(len(usable) >= 2 and any(x[2] for x in usable))
    for a1, p1, _ in usable:
        for a2, p2, _ in usable:
            t1, t2 = ts.at(a1), ts.at(a2)
            exp = len(O.clades(spec, p1) ^ O.clades(spec, p2))
            ctx.eq(int(t1.rf_distance(t2)), exp, "Tree.rf_distance (internal samples)")


# ------------------------------------------------------------------ large sample sets (closed forms on star trees)
def enum_large_sets(tier, seed):
    for k in ([30000, 70000] if tier == "quick" else [21845, 21846, 30000, 46341, 65536, 70000, 140000]):
        yield dict(k=k)
    # four sample sets of more than 2^16 nodes each (products of four set sizes pass 2^64)
    for m in ([65536, 65537] if tier == "quick" else [46341, 65535, 65536, 65537, 70000, 100000]):
        yield dict(four=m)
    # a million samples: allele frequencies of 1e-6
    for k in ([1000001] if tier == "quick" else [999999, 1000001, 2000003]):
        yield dict(traits=k)


def run_four_clades(case, ctx):
    """Root above P (all of A and C) and Q (all of B and D), every set m leaves; sites with a mutation above P, above
    one leaf of A and above Q.  Expected values from the printed summary functions applied to the allele / branch
    count vectors written down by hand."""
    import tskit

    m = case["four"]
    k = 4 * m
    P, Q, R = k, k + 1, k + 2
    t = tskit.TableCollection(1.0)
    flags = np.ones(k + 3, dtype=np.uint32)
    flags[k:] = 0
    time = np.zeros(k + 3)
    time[P] = time[Q] = 1.0
    time[R] = 2.0
    t.nodes.set_columns(flags=flags, time=time)
    child = np.arange(k, dtype=np.int32)
    parent = np.where((child // m) % 2 == 0, P, Q).astype(np.int32)  # blocks: A, B, C, D -> A, C under P
    order = np.argsort(parent, kind="stable")
    t.edges.set_columns(left=np.zeros(k), right=np.ones(k), parent=parent[order], child=child[order])
    t.edges.add_row(0, 1, R, P)
    t.edges.add_row(0, 1, R, Q)
    for j, node in enumerate((P, 0, Q)):
        t.sites.add_row((j + 1) / 8, "A")
        t.mutations.add_row(j, node, "T")
    ts = t.tree_sequence()
    sets = [np.arange(b * m, (b + 1) * m, dtype=np.int32) for b in range(4)]  # A, B, C, D
    n = np.array([m] * 4, dtype=float)
    xP, xQ = np.array([m, 0, m, 0.0]), np.array([0, m, 0, float(m)])
    leaf = [np.eye(4)[b] for b in range(4)]
    site_alleles = [[xP, n - xP], [leaf[0], n - leaf[0]], [xQ, n - xQ]]
    ctx.nt(True)
    ctx.label("four_clades")
    todo = [("diversity", None), ("Y1", None), ("segregating_sites", None),
            ("divergence", [(0, 1), (0, 2), (3, 0)]), ("Y2", [(0, 1), (2, 0)]), ("f2", [(0, 1), (0, 2), (1, 3)]),
            ("Y3", [(0, 1, 3), (1, 0, 2)]), ("f3", [(0, 1, 3), (0, 2, 1), (3, 0, 2)]),
            ("f4", [(0, 1, 2, 3), (0, 2, 1, 3), (3, 2, 1, 0)])]
    for name, idx in todo:
        f, dim, _ = O.summary_function(name, n, idx)
        site = sum(f(x) for alleles in site_alleles for x in alleles)
        branch = sum(m * (f(leaf[b]) + f(n - leaf[b])) for b in range(4)) + f(xP) + f(n - xP) + f(xQ) + f(n - xQ)
        kw = {} if idx is None else dict(indexes=idx)
        ctx.close(getattr(ts, name)(sets, mode="site", **kw), site, f"{name} site (four clades of {m})", rtol=1e-9)
        ctx.close(getattr(ts, name)(sets, mode="branch", **kw), branch, f"{name} branch (four clades of {m})", rtol=1e-9)


def run_million(case, ctx):
    """Star tree with a million samples, singleton sites: trait_correlation / trait_covariance in closed form."""
    import tskit

    k = case["traits"]
    t = tskit.TableCollection(1.0)
    flags = np.ones(k + 1, dtype=np.uint32)
    flags[k] = 0
    time = np.zeros(k + 1)
    time[k] = 1.0
    t.nodes.set_columns(flags=flags, time=time)
    t.edges.set_columns(left=np.zeros(k), right=np.ones(k), parent=np.full(k, k, dtype=np.int32),
                        child=np.arange(k, dtype=np.int32))
    carriers = [0, 12345, k - 1]
    for j, u in enumerate(carriers):
        t.sites.add_row((j + 1) / 8, "A")
        t.mutations.add_row(j, u, "T")
    ts = t.tree_sequence()
    ctx.nt(True)
    ctx.label("million_samples")
    W = ((np.arange(k) * 7) % 13).astype(float).reshape(k, 1)
    Wn = (W - W.mean()) / np.std(W, ddof=1)
    n = float(k)
    # each singleton site: both alleles give Wn_j^2 / (2 (1 - 1/n) (n - 1))
    site = sum(float(Wn[u, 0]) ** 2 for u in carriers) * n / (n - 1) ** 2
    ctx.close(ts.trait_correlation(W, mode="site"), [site], "trait_correlation site (star)", rtol=1e-4, atol=0)
    # branch: every leaf branch has length 1: sum_j Wn_j^2 n / (n-1)^2 = n / (n - 1)
    ctx.close(ts.trait_correlation(W, mode="branch"), [n / (n - 1)], "trait_correlation branch (star)", rtol=1e-4,
              atol=0)
    Wc = W - W.mean()
    cov_site = sum(float(Wc[u, 0]) ** 2 for u in carriers) * 2 / (2 * (n - 1) ** 2)
    ctx.close(ts.trait_covariance(W, mode="site"), [cov_site], "trait_covariance site (star)", rtol=1e-6, atol=0)
    ctx.close(ts.diversity(mode="site"), 3 * 2.0 / n, "diversity (star)", rtol=1e-9, atol=0)


def run_large_sets(case, ctx):
    """Sample sets of tens of thousands of nodes (counts beyond 16 and 32 bits in intermediate products) on a
    star tree, where the definitions have closed forms."""
    import numpy as np
    import tskit

    if "four" in case:
        return run_four_clades(case, ctx)
    if "traits" in case:
        return run_million(case, ctx)
    k = case["k"]
    t = tskit.TableCollection(1.0)
    flags = np.ones(k + 1, dtype=np.uint32)
    flags[k] = 0
    time = np.zeros(k + 1)
    time[k] = 1.0
    t.nodes.set_columns(flags=flags, time=time)
    t.edges.set_columns(left=np.zeros(k), right=np.ones(k), parent=np.full(k, k, dtype=np.int32),
                        child=np.arange(k, dtype=np.int32))
    nmut = 3
    for j in range(nmut):
        t.sites.add_row((j + 1) / 8, "A")
        t.mutations.add_row(j, j, "T")
    ts = t.tree_sequence()
    ctx.nt(True)
    n = k
    # site diversity: each singleton site contributes 2 (n-1) / (n (n-1)) = 2/n per site; L = 1
    ctx.close(float(ts.diversity()), nmut * 2.0 / n, "diversity (star)")
    ctx.close(float(ts.segregating_sites()), float(nmut), "segregating_sites (star)")
    h = sum(1.0 / i for i in range(1, n))
    g = sum(1.0 / (i * i) for i in range(1, n))
    a = (n + 1) / (3 * (n - 1) * h) - 1 / h**2
    b = 2 * (n * n + n + 3) / (9 * n * (n - 1)) - (n + 2) / (h * n) + g / h**2
    S, T = float(nmut), nmut * 2.0 / n
    D = (T - S / h) / np.sqrt(a * S + (b / (h**2 + g)) * S * (S - 1))
    ctx.close(float(ts.Tajimas_D()), D, "Tajimas_D (star)", rtol=1e-7)
    # branch diversity: every pair is at distance 2
    ctx.close(float(ts.diversity(mode="branch")), 2.0, "branch diversity (star)", rtol=1e-7)
    # genealogical nearest neighbours with two reference sets covering all samples
    half = k // 2
    A, B = np.arange(half, dtype=np.int32), np.arange(half, k, dtype=np.int32)
    for nt in (0, 2):
        gnn = ts.genealogical_nearest_neighbours([0, k - 1], [A, B], num_threads=nt)
        exp = [[(half - 1) / (k - 1), (k - half) / (k - 1)], [half / (k - 1), (k - half - 1) / (k - 1)]]
        ctx.close(gnn, exp, f"genealogical_nearest_neighbours (star, num_threads={nt})", rtol=1e-9)
    md = ts.mean_descendants([A, B])
    ctx.close(md[k], [float(half), float(k - half)], "mean_descendants root (star)")
    ctx.close(md[0], [1.0, 0.0], "mean_descendants leaf (star)")
    # divergence between the halves: all cross pairs differ only at the singleton sites they carry
    ctx.close(float(ts.divergence([A, B])), (nmut * (k - half)) / (half * (k - half)) if nmut <= half else 0.0,
              "divergence (star)")


# ------------------------------------------------------------------ (E) Python threads sharing one tree sequence
def big_spec(seed, k, nt, nsites):
    """Deterministic function of its arguments (seeded PRNG; the arguments are Hypothesis draws):
    nt coalescent-like trees of one unit span each on k leaf samples, internal nodes private to a
    tree, one single-mutation site per chosen tree.  Large enough for the GIL-free C sections of
    concurrent calls to overlap."""
    import random

    rng = random.Random(seed)
    times = [0.0] * k
    edges = []
    sites, muts = [], []
    for i in range(nt):
        roots = list(range(k))
        t = 0.0
        below = []
        while len(roots) > 1:
            m = 3 if (len(roots) > 2 and rng.random() < 0.15) else 2
            pick = rng.sample(roots, m)
            t += rng.choice([0.5, 1.0, 2.0])
            pnode = len(times)
            times.append(t)
            for c in pick:
                edges.append([float(i), float(i + 1), pnode, c, ""])
                roots.remove(c)
                below.append(c)
            roots.append(pnode)
        if len(sites) < nsites and below:
            sites.append([i + 0.5, "A", ""])
            muts.append([len(sites) - 1, rng.choice(below), "T", -1, None, ""])
    edges.sort(key=lambda e: (times[e[2]], e[2], e[3], e[0]))
    nodes = [[1 if u < k else 0, times[u], -1, -1, ""] for u in range(len(times))]
    return dict(L=float(nt), nodes=nodes, edges=edges, sites=sites, mutations=muts, individuals=[],
                populations=[], migrations=[])


@st.composite
def shared_case(draw):
    return dict(seed=draw(st.integers(0, 2**31 - 1)), k=draw(st.integers(8, 40)), nt=draw(st.integers(2, 24)),
                nsites=draw(st.integers(0, 24)), nthreads=draw(st.sampled_from([2, 3, 4, 8])),
                loops=draw(st.integers(1, 4)), order=list(draw(st.permutations(list(range(10))))),
                nwin=draw(st.integers(1, 6)))


def run_shared(case, ctx):
    import threading

    import tskit

    spec = big_spec(case["seed"], case["k"], case["nt"], case["nsites"])
    ts = gen.build_tables(spec, tskit).tree_sequence()
    k, nt = case["k"], case["nt"]
    smp = list(range(k))
    ctx.label(f"nthreads={case['nthreads']}")
    ctx.label("samples>=20", k >= 20)
    ctx.label("trees>=10", nt >= 10)
    ctx.nt(nt >= 2)
    A, B = smp[: k // 2], smp[k // 2:]
    wl = [nt * i / case["nwin"] for i in range(case["nwin"] + 1)]
    W = np.array([[float((i * 7 + c * 3) % 5) - 1.5 for c in range(2)] for i in range(k)])
    jobs = [
        lambda: ts.divergence_matrix(windows=wl, mode="branch"),                       # GIL released
        lambda: ts.divergence_matrix([A, B], mode="site", num_threads=2),              # GIL released + pool
        lambda: ts.genealogical_nearest_neighbours(smp, [A, B]),                       # GIL released
        lambda: ts.genealogical_nearest_neighbours(smp, [A, B], num_threads=3),        # GIL released + pool
        lambda: ts.mean_descendants([A, B]),                                           # GIL released
        lambda: ts.genetic_relatedness_vector(W, windows=wl, mode="branch", span_normalise=False),  # GIL released
        lambda: ts.diversity([A, B], windows=wl, mode="branch"),
        lambda: ts.allele_frequency_spectrum([A[:3], B[:3]], windows=wl, mode="branch", polarised=True),
        lambda: ts.f2([A, B], windows=wl, mode="site"),
        lambda: ts.general_stat(W, lambda x: x * x, 2, windows=wl, mode="branch", strict=False),
    ]
    jobs = [jobs[i] for i in case["order"]]
    serial = [np.asarray(j(), dtype=float) for j in jobs]
    K = case["nthreads"]
    results = [None] * K
    errors = []
    barrier = threading.Barrier(K)

    def work(t):
        try:
            out = []
            for r in range(case["loops"]):
                barrier.wait()
                for q in range(len(jobs)):  # different statistics at the same time
                    i = (q + t) % len(jobs)
                    out.append((i, np.asarray(jobs[i](), dtype=float)))
                for i in range(len(jobs)):  # the same statistic in every thread at the same time
                    barrier.wait()
                    for _ in range(3):
                        out.append((i, np.asarray(jobs[i](), dtype=float)))
            results[t] = out
        except BaseException as e:  # re-raised in the main thread below
            errors.append(e)
            barrier.abort()

    threads = [threading.Thread(target=work, args=(t,)) for t in range(K)]
    for th in threads:
        th.start()
    for th in threads:
        th.join()
    if errors:
        raise errors[0]
    for t in range(K):
        for i, val in results[t]:
            ctx.check(val.shape == serial[i].shape and bool(np.array_equal(val, serial[i], equal_nan=True)),
                      "concurrent == serial",
                      lambda: f"job {case['order'][i]} in thread {t}: {val!r} expected {serial[i]!r}")


FLOORS_GENERAL_STAT = {'mode=branch': 0.1, 'mode=node': 0.1, 'window_cuts_tree': 0.15, 'multiallelic_site': 0.1, 'multi_root': 0.15, 'strict_f': 0.3, 'sample_count_stat': 0.1, 'window_ends_on_site': 0.05, 'window_without_site': 0.07, 'polarised': 0.1, 'internal_sample_used': 0.1, 'strict_rejects': 0.04}
FLOORS_NAMED = {'stat=diversity': 0.02, 'stat=segregating_sites': 0.02, 'stat=Y1': 0.02, 'stat=Tajimas_D': 0.02, 'stat=divergence': 0.02, 'stat=genetic_relatedness': 0.02, 'stat=Y2': 0.02, 'stat=f2': 0.02, 'stat=Y3': 0.02, 'stat=f3': 0.02, 'stat=f4': 0.02, 'stat=Fst': 0.02, 'window_cuts_tree': 0.2, 'multiallelic_site': 0.1, 'overlapping_sets': 0.2, 'degenerate_column': 0.05, 'form=single': 0.04, 'form=none': 0.06, 'scalar_result': 0.02, 'multi_root': 0.3, 'internal_sample_used': 0.3}
FLOORS_AFS = {'mode=branch': 0.1, 'polarised': 0.1, 'folded': 0.3, 'joint': 0.12, 'afs_nonzero': 0.25, 'window_cuts_tree': 0.2, 'multiallelic_site': 0.1}
FLOORS_WEIGHTED = {'stat=trait_covariance': 0.05, 'stat=trait_correlation': 0.05, 'stat=trait_linear_model': 0.05, 'stat=genetic_relatedness_weighted': 0.05, 'stat=genetic_relatedness_vector': 0.05, 'focal_nodes': 0.01, 'window_cuts_tree': 0.2}
FLOORS_MATRIX_THREADS = {'threads>1': 0.12, 'partial_windows': 0.04, 'relatedness_matrix_asserted': 0.1, 'divergence_matrix/branch': 0.08, 'form=lists': 0.15, 'window_cuts_tree': 0.2}
FLOORS_GNN_MEAN_DESCENDANTS = {'gnn_nonzero': 0.25, 'focal_in_reference': 0.3, 'focal_not_in_reference': 0.2, 'non_sample_reference': 0.15, 'num_threads=8': 0.03, 'threads>focal': 0.08, 'mean_descendants_denominators_coincide': 0.15, 'multi_tree': 0.2}
FLOORS_PAIR_COALESCENCE = {'coalescences': 0.2, 'time_windows=breaks': 0.2, 'pair_normalise': 0.1, 'span_normalise': 0.1, 'multi_tree': 0.25}
FLOORS_LD_R2 = {'sites=3+': 0.2, 'degenerate_frequency': 0.1, 'r2_array_truncated': 0.12}
FLOORS_KC_RF = {'trees_differ': 0.3, 'multi_tree': 0.3}
FLOORS_SHARED_THREADS = {'nthreads=8': 0.05, 'trees>=10': 0.15}

SUBCHECKS = [
    SubCheck("C08.general_stat", run_gs, strategy=gs_case, quick=3000, thorough=90000, rule=NT,
             floors=FLOORS_GENERAL_STAT),
    SubCheck("C08.named", run_named, strategy=named_case, quick=4000, thorough=120000, rule=NT, floors=FLOORS_NAMED),
    SubCheck("C08.afs", run_afs, strategy=afs_case, quick=2000, thorough=60000, rule=NT, floors=FLOORS_AFS),
    SubCheck("C08.weighted", run_weighted, strategy=weighted_case, quick=2500, thorough=75000, rule=NT,
             floors=FLOORS_WEIGHTED, classify=classify_weighted),
    SubCheck("C08.matrix_threads", run_matrix, strategy=matrix_case, quick=2000, thorough=60000, rule=NT,
             floors=FLOORS_MATRIX_THREADS, thorough_flavour="asan"),
    SubCheck("C08.gnn_mean_descendants", run_gnn, strategy=gnn_case, quick=1500, thorough=45000,
             rule=">=1 edge and (>=2 trees or >=2 roots or an internal sample)",
             floors=FLOORS_GNN_MEAN_DESCENDANTS, thorough_flavour="asan"),
    SubCheck("C08.pair_coalescence", run_coal, strategy=coal_case, quick=1500, thorough=45000,
             rule="some pair coalesces and (>=2 trees or >=2 roots or a polytomy)", floors=FLOORS_PAIR_COALESCENCE),
    SubCheck("C08.ld_r2", run_ld, strategy=ld_case, quick=1000, thorough=30000,
             rule=">=2 single-mutation sites and >=1 edge", floors=FLOORS_LD_R2),
    SubCheck("C08.kc_rf", run_dist, strategy=dist_case, quick=800, thorough=24000,
             rule=">=3 samples (two tree sequences of single-rooted trees without unary nodes)", floors=FLOORS_KC_RF),
    SubCheck("C08.shared_threads", run_shared, strategy=shared_case, quick=200, thorough=3000,
             rule=">=2 trees; K in {2,3,4,8} Python threads each running 10 statistics (6 of them release "
             "the GIL) 1-4 times on one shared tree sequence of 8-40 samples x 2-24 trees; bitwise equal to "
             "the serial results", floors=FLOORS_SHARED_THREADS, thorough_flavour="asan"),
    SubCheck("C08.rf_general", run_rf_general, strategy=rf_general_case, quick=1200, thorough=36000,
             rule="tree sequence with >=2 single-rooted trees whose leaves are all samples, at least one with an internal sample",
             floors={"pairs": 0.5, "internal_sample": 0.3}),
    SubCheck("C08.large_sets", run_large_sets, enumerate=enum_large_sets, quick=1, thorough=1, shards=2,
             rule="star trees with 30000 and 70000 samples (thorough: up to 140000): closed forms for diversity, segregating sites, "
                  "Tajimas_D, divergence, GNN and mean_descendants"),
]

_PROBE_GRV = dict(
    L=4.0, nodes=[[1, 0.0, -1, -1, ""], [1, 0.0, -1, -1, ""], [0, 1.0, -1, -1, ""]],
    edges=[[0.0, 4.0, 2, 0, ""], [0.0, 4.0, 2, 1, ""]],
    sites=[], mutations=[], individuals=[], populations=[], migrations=[])
PROBES = {
    KEY_GRV_SPAN: ("C08.weighted", dict(
        spec=_PROBE_GRV, stat="genetic_relatedness_vector", mode="branch", span_normalise=True, kind=None,
        coarse=None, fine=[0.0, 1.0, 4.0], W=[[1.0], [0.0]], centre=False, nodes=None)),
}
