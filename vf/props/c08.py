"""C08 — statistics equal their documented definitions, are additive over window refinements, and
multi-threaded results equal single-threaded ones."""
import math

import numpy as np
from hypothesis import strategies as st

from .. import gen, model
from ..core import SubCheck
from ..gen import F
from . import _c08_oracle as O

META = dict(
    level="exploration",
    rule="Valid tree sequences by construction (vf/gen.py ts_spec: <=9 nodes, <=4 trees, <=5 sites, "
    "multiallelic/recurrent/back mutations, several roots, internal and isolated samples, dead "
    "branches, gaps; dyadic coordinates and times; genomes longer than 1024 rescaled by a power of "
    "two) x weights / sample sets / index tuples x windows (None, 'trees', 'sites', arbitrary lists "
    "cutting trees, ending on sites, containing no site) x mode x polarised x span_normalise. "
    "Oracles: (A) literal evaluation of the documented general_stat definition per allele / "
    "branch / node from the positional table model; (B) the named statistics through the summary "
    "functions printed in docs/stats.md and the docstring formulas of the derived ones; (C) "
    "first-principles definitions (pairwise differences from oracle genotypes, tabulated AFS, "
    "pairwise path lengths, GNN / mean_descendants / pair coalescence docstrings, r^2 from "
    "genotypes, KC vectors, RF clade sets); (D) span-weighted combination over a random window "
    "refinement; (E) num_threads and Python threads against the serial result.",
    assumptions=[
        "reference model vf/model.py (positional parent map, nearest-mutation allele per sample)",
        "floating point: dyadic inputs, comparison |a-b| <= 1e-12 + 1e-9*max(1,|a|,|b|); values whose "
        "exact definition is 0/0 may be nan or 0 (docs/stats.md 'division by zero')",
        "size bounds: <=9 nodes, <=4 elementary intervals, <=5 sites, <=4 sample sets",
        "thread interleavings are only sampled (thread count x repetition), not enumerated",
    ],
    technique="property-based testing (Hypothesis) against naive definitional oracles + metamorphic "
    "window refinement + thread-count differential",
    engines=["hypothesis-runner"],
)

TIME_STYLES = ("small_int", "frac", "neg", "two")


# ------------------------------------------------------------------ generation helpers
def rescale(spec):
    """Genomes longer than 1024 are scaled by a power of two (exact in binary64) so that the
    absolute rounding residue of tskit's running sums stays far below the comparison tolerance
    when span_normalise=False."""
    L = F(spec["L"])
    if L <= 1024:
        return spec
    s = 2.0 ** (-(math.frexp(L)[1] - 9))
    spec = dict(spec)
    spec["L"] = L * s
    spec["edges"] = [[F(e[0]) * s, F(e[1]) * s] + list(e[2:]) for e in spec["edges"]]
    spec["sites"] = [[F(x[0]) * s] + list(x[1:]) for x in spec["sites"]]
    spec["migrations"] = [[F(g[0]) * s, F(g[1]) * s] + list(g[2:]) for g in spec.get("migrations", [])]
    return spec


@st.composite
def stat_spec(draw, max_nodes=9, min_samples=1, **kw):
    kw.setdefault("migrations", False)
    kw.setdefault("metadata", False)
    kw.setdefault("individuals", False)
    kw.setdefault("populations", False)
    kw.setdefault("extra_flags", False)
    kw.setdefault("min_nodes", max(1, min_samples))
    spec = draw(gen.ts_spec(max_nodes=max_nodes, min_samples=min_samples, time_styles=TIME_STYLES, **kw))
    return rescale(spec)


def window_candidates(spec):
    L = F(spec["L"])
    bps = model.breakpoints(spec)
    pos = [F(s[0]) for s in spec["sites"]]
    pts = sorted(set(bps) | set(pos))
    cand = set(pts)
    for a, b in zip(pts[:-1], pts[1:]):
        cand.add((a + b) / 2)
        cand.add(a + (b - a) / 4)
    for j in range(1, 8):
        cand.add(L * j / 8)
    return sorted(c for c in cand if 0 < c < L)


def draw_windows(draw, spec, kinds=(None, "trees", "sites", "list", "list", "list")):
    """(kind, coarse list or None, fine list): fine refines the explicit meaning of coarse."""
    L = F(spec["L"])
    cand = window_candidates(spec)
    kind = draw(st.sampled_from(list(kinds)))
    if kind == "list":
        k = draw(st.integers(0, min(5, len(cand))))
        cuts = sorted(draw(st.permutations(cand))[:k]) if k else []
        coarse = [0.0] + cuts + [L]
    else:
        coarse = None
    base = O.explicit_windows(spec, kind, coarse)
    k = draw(st.integers(1, min(4, len(cand))))
    extra = draw(st.permutations(cand))[:k]
    fine = sorted(set(base) | set(extra))
    return kind, coarse, fine


def win_arg(kind, coarse):
    return coarse if kind == "list" else kind


def draw_sample_sets(draw, spec, lo=1, hi=3, disjoint=False, min_size=None, need=1):
    """k in [lo, hi] sample sets (lists of distinct sample nodes).  `need` is a hard lower bound on
    the set size, `min_size` a preferred one (reduced when the tree sequence has too few samples);
    disjoint=True falls back to overlapping sets when there are not enough samples."""
    smp = model.samples(spec)
    k = draw(st.integers(lo, hi))
    if min_size is None:
        min_size = draw(st.sampled_from([1, 2, 2, 3]))
    min_size = max(need, min_size)
    if disjoint and len(smp) >= k * need:
        ms = max(need, min(min_size, len(smp) // k))
        perm = list(draw(st.permutations(smp)))
        sizes = [ms] * k
        rest = len(perm) - k * ms
        for i in range(k):
            e = draw(st.integers(0, rest))
            sizes[i] += e
            rest -= e
        sets, i = [], 0
        for sz in sizes:
            sets.append(sorted(perm[i:i + sz]))
            i += sz
        return sets
    ms = max(need, min(min_size, len(smp)))
    assert len(smp) >= ms, "stat_spec(min_samples=...) must cover `need`"
    sets = []
    for _ in range(k):
        n = draw(st.integers(ms, len(smp)))
        sets.append(list(draw(st.permutations(smp))[:n]))
    return sets


def common_labels(ctx, spec, coarse_explicit, fine, weight_nodes):
    """Labels + the non-trivial rule shared by the sub-checks."""
    labs = gen.spec_labels(spec, model)
    for l in labs:
        ctx.label(l)
    bps = model.breakpoints(spec)
    inner = [x for w in (coarse_explicit, fine) for x in w[1:-1] if x not in bps]
    cut = "multi_tree" in labs and bool(inner)
    ctx.label("window_cuts_tree", cut)
    pos = [F(s[0]) for s in spec["sites"]]
    ctx.label("window_ends_on_site", any(x in pos for x in coarse_explicit[1:-1]))
    empty = any(not any(a <= p < b for p in pos) for a, b in zip(coarse_explicit[:-1], coarse_explicit[1:]))
    ctx.label("window_without_site", bool(pos) and empty)
    multiallelic = any(len(O.site_states(spec, j)) > 2 for j in range(len(spec["sites"])))
    ctx.label("multiallelic_site", multiallelic)
    internal = False
    for a, b, par in O.tree_intervals(spec):
        ch = model.children_of(par)
        if any(ch[u] for u in weight_nodes):
            internal = True
    ctx.label("internal_sample_used", internal)
    nt = cut or multiallelic or "multi_root" in labs or internal
    ctx.nt(nt and bool(spec["edges"]))
    return labs


NT = (">=1 edge and: (>=2 trees and a window boundary strictly inside a tree) or a site with >=3 "
      "allelic states or >=2 roots or an internal sample carrying weight / in a sample set")


# ------------------------------------------------------------------ (A)+(D) general_stat
def make_func(name, T, k):
    """Summary functions of a k-vector; T = total weights (or sample-set sizes)."""
    T = np.asarray(T, dtype=float)
    if name == "prod":
        return (lambda x: x * (T - x)), k
    if name == "cross":
        return (lambda x: np.array([x[0] * (T[k - 1] - x[k - 1])])), 1
    if name == "ind":
        return (lambda x: ((x != 0) & (x != T)).astype(float)), k
    if name == "lin":
        return (lambda x: np.array(x, dtype=float)), k
    if name == "sq":
        return (lambda x: np.array([np.sum(x * x)])), 1
    if name == "one":
        return (lambda x: np.array([1.0])), 1
    if name == "mix":
        return (lambda x: np.array([x[0] * (T[0] - x[0]), float(x[0] > 0), np.sum(x)])), 3
    raise AssertionError(name)


FUNCS = ["prod", "cross", "ind", "lin", "sq", "one", "mix"]
WEIGHTS = [0.0, 0.0, 1.0, 1.0, 2.0, -1.0, 0.5, 3.0, -0.5]


@st.composite
def gs_case(draw):
    spec = draw(stat_spec())
    smp = model.samples(spec)
    use_sets = draw(st.booleans())
    case = dict(spec=spec)
    if use_sets:
        case["sets"] = draw_sample_sets(draw, spec, min_size=1)
        k = len(case["sets"])
    else:
        k = draw(st.integers(1, 3))
        case["W"] = [[draw(st.sampled_from(WEIGHTS)) for _ in range(k)] for _ in smp]
    case["func"] = draw(st.sampled_from(FUNCS))
    case["mode"] = draw(st.sampled_from(["site", "branch", "node"]))
    case["polarised"] = draw(st.booleans())
    case["span_normalise"] = draw(st.booleans())
    case["strict"] = draw(st.booleans())
    case["kind"], case["coarse"], case["fine"] = draw_windows(draw, spec)
    return case


def run_gs(case, ctx):
    import tskit

    spec = case["spec"]
    ts = gen.build_tables(spec, tskit).tree_sequence()
    smp = model.samples(spec)
    ctx.eq(list(map(int, ts.samples())), smp, "ts.samples() order")
    mode, pol, sn = case["mode"], case["polarised"], case["span_normalise"]
    if "sets" in case:
        sets = case["sets"]
        W = O.indicator_weights(spec, sets)
        T = np.array([len(s) for s in sets], dtype=float)
        used = sorted({u for s in sets for u in s})
    else:
        W = np.array(case["W"], dtype=float).reshape(len(smp), -1)
        T = W.sum(axis=0)
        used = [u for i, u in enumerate(smp) if np.any(W[i] != 0)]
    k = W.shape[1]
    f, m = make_func(case["func"], T, k)
    coarse = O.explicit_windows(spec, case["kind"], case["coarse"])
    fine = case["fine"]
    common_labels(ctx, spec, coarse, fine, used)
    ctx.label("mode=" + mode)
    ctx.label("func=" + case["func"])
    ctx.label("sample_count_stat" if "sets" in case else "general_stat")
    ctx.label("polarised", pol)
    ctx.label("windows=" + str(case["kind"]))
    strict_ok = bool(np.allclose(f(T), 0) and np.allclose(f(T * 0.0), 0))
    ctx.label("strict_f", strict_ok)

    def call(windows, strict):
        if "sets" in case:
            return ts.sample_count_stat(case["sets"], f, m, windows=windows, polarised=pol, mode=mode,
                                        span_normalise=sn, strict=strict)
        return ts.general_stat(W, f, m, windows=windows, polarised=pol, mode=mode,
                               span_normalise=sn, strict=strict)

    if case["strict"] and not strict_ok:
        # documented: the check "throws an error" for a summary function that is not zero at 0 and
        # at the total weight
        ctx.label("strict_rejects")
        try:
            call(win_arg(case["kind"], case["coarse"]), True)
        except ValueError:
            pass
        else:
            ctx.fail("strict", "non-strict summary function accepted with strict=True")
        strict = False
    else:
        strict = case["strict"]
    got = np.asarray(call(win_arg(case["kind"], case["coarse"]), strict))
    exp, unsure = O.general_stat(spec, W, f, m, coarse, mode, pol, sn)
    if case["kind"] is None:
        ctx.check(got.shape == exp.shape[1:], "shape", f"windows=None: {got.shape} expected {exp.shape[1:]}")
        got = got[np.newaxis]
    ctx.check(got.shape == exp.shape, "shape", f"{got.shape} expected {exp.shape}")
    keep = ~unsure if (mode == "site" and not strict_ok) else np.ones(len(coarse) - 1, dtype=bool)
    ctx.label("unsure_window_skipped", bool((~keep).any()))
    ctx.close(got[keep], exp[keep], f"definition[{mode}]")
    # (D) refinement
    gfine = np.asarray(call(fine, strict))
    efine, unsure_f = O.general_stat(spec, W, f, m, fine, mode, pol, sn)
    keepf = ~unsure_f if (mode == "site" and not strict_ok) else np.ones(len(fine) - 1, dtype=bool)
    ctx.close(gfine[keepf], efine[keepf], f"definition[{mode}] on the refined windows")
    comb = O.combine_refinement(gfine, fine, coarse, sn)
    ctx.close(got, comb, f"refinement[{mode}]")



# ------------------------------------------------------------------ (B)+(C)+(D) named sample-set statistics
ONE_WAY = ["diversity", "segregating_sites", "Y1", "Tajimas_D"]
K_WAY = ["divergence", "genetic_relatedness", "Y2", "f2", "Y3", "f3", "f4", "Fst"]
ADDITIVE = {"diversity", "segregating_sites", "Y1", "divergence", "genetic_relatedness", "Y2", "f2",
            "Y3", "f3", "f4"}


@st.composite
def named_case(draw):
    stat = draw(st.sampled_from(ONE_WAY + ONE_WAY + K_WAY + K_WAY + ["genetic_relatedness"]))
    k = O.ARITY[stat]
    need = {"Y1": 3, "Tajimas_D": 4}.get(stat, 1)
    degenerate_ok = draw(st.integers(0, 3)) == 0  # keep some sets below the size the formula needs
    if degenerate_ok and stat != "Tajimas_D":
        need = 1
    min_samples = max(need, 2, draw(st.sampled_from([2, 3, 4, 5, 6])))
    spec = draw(stat_spec(min_samples=min_samples, max_nodes=10))
    smp = model.samples(spec)
    case = dict(spec=spec, stat=stat)
    case["mode"] = draw(st.sampled_from(["site", "branch", "node"]))
    case["span_normalise"] = draw(st.booleans())
    case["kind"], case["coarse"], case["fine"] = draw_windows(draw, spec)
    disjoint = draw(st.booleans())
    if k == 1:
        form = draw(st.sampled_from(["lists", "lists", "flat"] + (["none"] if stat != "Y1" else [])))
        if form == "lists":
            sets = draw_sample_sets(draw, spec, 1, 3, disjoint=disjoint, need=need)
        elif form == "flat":
            sets = draw_sample_sets(draw, spec, 1, 1, need=need)
        else:
            sets = [list(smp)]
        case.update(form=form, sets=sets, indexes=None)
    else:
        form = draw(st.sampled_from(["full", "full", "single", "none"]))
        # the C library rejects fewer sample sets than the arity of the statistic
        # (TSK_ERR_INSUFFICIENT_SAMPLE_SETS) even when the index tuples repeat a set; kept out of
        # the domain as input validation
        lo, hi = (k, k) if form == "none" else (k, 4)
        sets = draw_sample_sets(draw, spec, lo, hi, disjoint=disjoint)
        ns = len(sets)
        if form == "full":
            ni = draw(st.integers(1, 3))
            indexes = [[draw(st.integers(0, ns - 1)) for _ in range(k)] for _ in range(ni)]
        elif form == "single":
            indexes = [draw(st.integers(0, ns - 1)) for _ in range(k)]
        else:
            indexes = None
        case.update(form=form, sets=sets, indexes=indexes)
    if stat == "genetic_relatedness":
        case["polarised"] = draw(st.booleans())
        case["centre"] = draw(st.booleans())
        case["proportion"] = draw(st.booleans())
    return case


def nan_or_zero(ctx, arr, what):
    arr = np.asarray(arr, dtype=float)
    ctx.check(bool(np.all(np.isnan(arr) | (arr == 0))), what,
              lambda: f"degenerate column (zero denominator) holds a value other than nan/0: {arr!r}")


def compare_cols(ctx, got, exp, deg, what):
    """Last axis = statistics; degenerate columns must be nan or 0, the rest close."""
    deg = np.asarray(deg, dtype=bool)
    ctx.check(got.shape == exp.shape, "shape", f"{what}: {got.shape} expected {exp.shape}")
    if (~deg).any():
        ctx.close(got[..., ~deg], exp[..., ~deg], what)
    if deg.any():
        nan_or_zero(ctx, got[..., deg], what)


def call_named(ts, case, windows, **override):
    stat, mode = case["stat"], case["mode"]
    kw = dict(windows=windows, mode=mode)
    if stat != "Tajimas_D":
        kw["span_normalise"] = case["span_normalise"]
    if stat == "genetic_relatedness":
        kw.update(polarised=case["polarised"], centre=case["centre"], proportion=case["proportion"])
    kw.update(override)
    meth = getattr(ts, stat)
    if O.ARITY[stat] == 1:
        form = case["form"]
        ss = None if form == "none" else (case["sets"][0] if form == "flat" else case["sets"])
        if ss is None:
            return meth(**kw)
        return meth(ss, **kw)
    idx = case["indexes"]
    if case["form"] == "full":
        idx = [tuple(t) for t in idx]
    return meth(case["sets"], indexes=idx, **kw)


def full_dims(ctx, case, got, nw, n_nodes, ncols, what):
    """Undo the documented dimension dropping (rules 1-4) and check the shape exactly."""
    got = np.asarray(got)
    shape = []
    if case["kind"] is not None or what == "fine":
        shape.append(nw)
    if case["mode"] == "node":
        shape.append(n_nodes)
    dropped_last = case["form"] in ("flat", "none", "single")
    if not dropped_last:
        shape.append(ncols)
    ctx.check(got.shape == tuple(shape), "output dimensions",
              f"{case['stat']} form={case['form']} windows={case['kind']} mode={case['mode']}: shape "
              f"{got.shape} expected {tuple(shape)}")
    if dropped_last:
        got = got[..., np.newaxis]
    if case["kind"] is None and what != "fine":
        got = got[np.newaxis]
    return got.astype(float)


def expected_named(spec, case, windows):
    """(expected array, degenerate columns, skip mask or None) from oracle (B)."""
    stat, mode, sets = case["stat"], case["mode"], case["sets"]
    sn = case.get("span_normalise", True)
    k = O.ARITY[stat]
    if k == 1:
        idx = None
        ncols = len(sets)
    else:
        idx = case["indexes"]
        if case["form"] == "single":
            idx = [idx]
        elif case["form"] == "none":
            idx = [list(range(k))]
        ncols = len(idx)
    n = np.array([len(s) for s in sets], dtype=float)
    if stat in ADDITIVE and stat != "genetic_relatedness":
        exp, deg = O.sample_count_named(spec, stat, sets, idx, windows, mode, sn)
        return exp, deg, None, idx
    if stat == "genetic_relatedness":
        exp, deg = O.sample_count_named(spec, stat, sets, idx, windows, mode, sn,
                                        polarised=case["polarised"], centre=case["centre"])
        skip = None
        if case["proportion"]:
            union = sorted({u for s in sets for u in s})
            den, _ = O.sample_count_named(spec, "segregating_sites", [union], None, windows, mode, sn)
            with np.errstate(divide="ignore", invalid="ignore"):
                exp = exp / den
            skip = np.broadcast_to(den == 0, exp.shape)
        return exp, deg, skip, idx
    if stat == "Tajimas_D":
        T, dT = O.sample_count_named(spec, "diversity", sets, None, windows, mode, False)
        S, _ = O.sample_count_named(spec, "segregating_sites", sets, None, windows, mode, False)
        D, rad = O.tajimas_d(T, S, n)
        rad = np.where(np.isnan(rad), 0.0, rad)
        skip = (np.abs(rad) <= 1e-6) | np.broadcast_to(n < 4, rad.shape)
        return D, dT, skip, idx
    if stat == "Fst":
        d, _ = O.sample_count_named(spec, "diversity", sets, None, windows, mode, sn)
        dxy, _ = O.sample_count_named(spec, "divergence", sets, idx, windows, mode, sn)
        exp = np.zeros(dxy.shape)
        skip = np.zeros(dxy.shape, dtype=bool)
        for c, (u, v) in enumerate(idx):
            den = d[..., u] + d[..., v] + 2 * dxy[..., c]
            with np.errstate(divide="ignore", invalid="ignore"):
                exp[..., c] = 1 - 2 * (d[..., u] + d[..., v]) / den
            skip[..., c] = (den == 0) | np.isnan(den)
        deg = np.array([n[u] < 2 or n[v] < 2 for u, v in idx])
        return exp, deg, skip, idx
    raise AssertionError(stat)


def check_against(ctx, case, got, exp, deg, skip, what):
    """Compare with the zero-denominator policy: degenerate columns nan/0; positions whose derived
    ratio has an exactly-zero denominator must be non-finite in site/node mode and are not
    asserted in branch mode (running-sum residue)."""
    ctx.check(got.shape == exp.shape, "shape", f"{what}: {got.shape} expected {exp.shape}")
    if skip is not None and skip.any():
        ctx.label("zero_denominator")
        if case["mode"] != "branch" and case["stat"] != "Tajimas_D":
            sel = skip & ~np.broadcast_to(np.asarray(deg, dtype=bool), skip.shape)
            ctx.check(bool(np.all(~np.isfinite(got[sel]))), what,
                      lambda: f"zero denominator but finite value: got {got[sel]!r}")
        got = np.where(skip, 0.0, got)
        exp = np.where(skip, 0.0, exp)
    compare_cols(ctx, got, exp, deg, what)


def run_named(case, ctx):
    import tskit

    spec = case["spec"]
    stat, mode = case["stat"], case["mode"]
    ts = gen.build_tables(spec, tskit).tree_sequence()
    n_nodes = len(spec["nodes"])
    coarse = O.explicit_windows(spec, case["kind"], case["coarse"])
    fine = case["fine"]
    sets = case["sets"]
    used = sorted({u for s in sets for u in s})
    common_labels(ctx, spec, coarse, fine, used)
    ctx.label("stat=" + stat)
    ctx.label(f"{stat}/{mode}")
    ctx.label("form=" + case["form"])
    ctx.label("windows=" + str(case["kind"]))
    flat = [u for s in sets for u in s]
    ctx.label("overlapping_sets", len(flat) != len(set(flat)))
    ctx.label("singleton_set", any(len(s) == 1 for s in sets))
    sn = case.get("span_normalise", True)

    got = call_named(ts, case, win_arg(case["kind"], case["coarse"]))
    exp, deg, skip, idx = expected_named(spec, case, coarse)
    ncols = exp.shape[-1]
    if np.ndim(got) == 0:
        ctx.label("scalar_result")
    got = full_dims(ctx, case, got, len(coarse) - 1, n_nodes, ncols, "coarse")
    ctx.label("degenerate_column", bool(np.any(deg)))
    check_against(ctx, case, got, exp, deg, skip, f"{stat}[{mode}] summary function")

    # (C) first principles
    nondeg = ~np.asarray(deg, dtype=bool)
    if mode in ("site", "branch") and stat in ("diversity", "divergence", "Y1", "Y2", "Y3", "f2", "f3", "f4"):
        tidx = idx if idx is not None else [[i] for i in range(len(sets))]
        e2, d2 = O.tuple_stat(spec, stat, sets, tidx, coarse, mode, sn)
        ctx.eq(list(map(bool, d2)), list(map(bool, deg)), "degenerate columns (tuple enumeration)")
        if nondeg.any():
            ctx.close(got[..., nondeg], e2[..., nondeg], f"{stat}[{mode}] sample-tuple enumeration")
    if mode == "site" and stat in ("diversity", "divergence"):
        tidx = idx if idx is not None else [[i, i] for i in range(len(sets))]
        e3 = O.genotype_diversity(spec, sets, tidx, coarse, sn)
        if nondeg.any():
            ctx.close(got[..., nondeg], e3[..., nondeg], f"{stat}[site] pairwise genotype differences")
    if mode == "site" and stat == "segregating_sites":
        ctx.close(got, O.genotype_segsites(spec, sets, coarse, sn), "segregating_sites[site] distinct alleles - 1")
    if stat == "genetic_relatedness" and mode in ("site", "branch") and not case["proportion"]:
        e4 = O.relatedness_pairs(spec, sets, idx, coarse, mode, sn, case["polarised"], case["centre"])
        ctx.close(got, e4, f"genetic_relatedness[{mode}] shared alleles/branches of sample pairs")

    # (D) refinement
    additive = stat in ADDITIVE and not case.get("proportion", False)
    gfine = call_named(ts, case, fine)
    gfine = full_dims(ctx, case, gfine, len(fine) - 1, n_nodes, ncols, "fine")
    efine, degf, skipf, _ = expected_named(spec, case, fine)
    check_against(ctx, case, gfine, efine, degf, skipf, f"{stat}[{mode}] summary function, refined windows")
    if additive and nondeg.any():
        comb = O.combine_refinement(gfine[..., nondeg], fine, coarse, sn)
        ctx.close(got[..., nondeg], comb, f"{stat}[{mode}] refinement")



# ------------------------------------------------------------------ allele frequency spectrum
@st.composite
def afs_case(draw):
    min_samples = draw(st.sampled_from([2, 3, 4, 5]))
    spec = draw(stat_spec(min_samples=min_samples, max_nodes=10))
    smp = model.samples(spec)
    case = dict(spec=spec)
    case["mode"] = draw(st.sampled_from(["site", "site", "branch"]))
    case["polarised"] = draw(st.booleans())
    case["span_normalise"] = draw(st.booleans())
    case["kind"], case["coarse"], case["fine"] = draw_windows(draw, spec)
    form = draw(st.sampled_from(["lists", "lists", "lists", "none"]))
    if form == "none":
        sets = [list(smp)]
    else:
        sets = draw_sample_sets(draw, spec, 1, 3, disjoint=draw(st.booleans()))
        sets = [s[:4] for s in sets]
    case.update(form=form, sets=sets)
    return case


KEY_AFS_GAP = "afs.branch_node_gains_parent_after_gap"


def _gains_parent_after_gap(spec):
    ivs = O.tree_intervals(spec)
    for (a0, b0, p0), (a1, b1, p1) in zip(ivs[:-1], ivs[1:]):
        if any(p1[u] >= 0 and p0[u] < 0 for u in range(len(p0))):
            return True
    return False


def classify_afs(case, exc):
    """Branch-mode AFS: a node that has no parent on the tree to the left of an edge's left end
    (missing left flank, gap, root becoming a child) is credited with the span since its previous
    update instead of the span since the edge begins (tsk_treeseq_branch_allele_frequency_spectrum
    does not reset last_update[child] when an edge is inserted)."""
    if case.get("mode") == "branch" and str(exc).startswith("afs[branch]") and _gains_parent_after_gap(case["spec"]):
        return KEY_AFS_GAP
    return None


def run_afs(case, ctx):
    import tskit

    spec = case["spec"]
    mode, pol, sn = case["mode"], case["polarised"], case["span_normalise"]
    ts = gen.build_tables(spec, tskit).tree_sequence()
    coarse = O.explicit_windows(spec, case["kind"], case["coarse"])
    fine = case["fine"]
    sets = case["sets"]
    common_labels(ctx, spec, coarse, fine, sorted({u for s in sets for u in s}))
    ctx.label("mode=" + mode)
    ctx.label("polarised", pol)
    ctx.label("folded", not pol)
    ctx.label("joint", len(sets) > 1)
    ctx.label("windows=" + str(case["kind"]))
    dims = tuple(len(x) + 1 for x in sets)

    def call(windows):
        kw = dict(windows=windows, mode=mode, span_normalise=sn, polarised=pol)
        if case["form"] == "none":
            return np.asarray(ts.allele_frequency_spectrum(**kw), dtype=float)
        return np.asarray(ts.allele_frequency_spectrum(sets, **kw), dtype=float)

    def check(got, windows, what):
        nw = len(windows) - 1
        ctx.check(got.shape == (nw,) + dims, "shape", f"afs {what}: {got.shape} expected {(nw,) + dims}")
        unf = O.afs_unfolded(spec, sets, windows, mode, pol, sn)
        ctx.label("afs_nonzero", bool(np.any(unf != 0)))
        if pol:
            ctx.close(got, unf, f"afs[{mode}] polarised {what}")
        else:
            if len(dims) == 1:
                ctx.close(got, O.fold_1d(unf), f"afs[{mode}] folded {what}")
            ctx.close(O.symmetrise(got), O.symmetrise(unf), f"afs[{mode}] folded, entry + mirror entry {what}")
            up = O.upper_half_mask(dims)
            ctx.check(bool(np.all(got[:, up] == 0)), f"afs[{mode}] folded {what}",
                      lambda: f"entries above half of the total sample count are not zero: {got!r}")

    got = call(win_arg(case["kind"], case["coarse"]))
    if case["kind"] is None:
        ctx.check(got.shape == dims, "shape", f"afs windows=None: {got.shape} expected {dims}")
        got = got[np.newaxis]
    check(got, coarse, "")
    gfine = call(fine)
    check(gfine, fine, "(refined windows)")
    ctx.close(got, O.combine_refinement(gfine, fine, coarse, sn), f"afs[{mode}] refinement")
    if mode == "site" and draw_node_mode(case):
        try:
            ts.allele_frequency_spectrum(sets, mode="node")
        except ValueError:
            pass
        except tskit.LibraryError:
            pass
        else:
            ctx.fail("afs node mode", "mode='node' did not raise (documented: not supported)")


def draw_node_mode(case):
    return len(case["sets"]) == 1


# ------------------------------------------------------------------ weighted statistics
WSTATS = ["trait_covariance", "trait_correlation", "trait_linear_model", "genetic_relatedness_weighted",
          "genetic_relatedness_vector"]
TRAITS = [0.0, 1.0, 1.0, 2.0, -1.0, 3.0, 0.5, -2.0]


@st.composite
def weighted_case(draw):
    stat = draw(st.sampled_from(WSTATS))
    min_samples = draw(st.sampled_from([2, 3, 4, 5, 6]))
    if stat == "trait_linear_model":
        min_samples = max(min_samples, 4)
    spec = draw(stat_spec(min_samples=min_samples, max_nodes=10))
    smp = model.samples(spec)
    n = len(smp)
    case = dict(spec=spec, stat=stat)
    if stat == "genetic_relatedness_vector":
        case["mode"] = "branch"
    else:
        case["mode"] = draw(st.sampled_from(["site", "branch", "node"]))
    case["span_normalise"] = draw(st.booleans())
    case["kind"], case["coarse"], case["fine"] = draw_windows(draw, spec)
    k = draw(st.integers(1, 3))
    W = [[draw(st.sampled_from(TRAITS)) for _ in range(k)] for _ in range(n)]
    if stat == "trait_correlation":
        # every column needs positive standard deviation (documented requirement)
        for c in range(k):
            if len({row[c] for row in W}) == 1:
                W[0][c] = W[0][c] + 1.0
    case["W"] = W
    if stat == "trait_linear_model":
        nz = draw(st.integers(0, 2))
        Z = [[draw(st.sampled_from([0.0, 1.0, 2.0, -1.0])) for _ in range(nz)] for _ in range(n)]
        if nz:
            tZ = np.column_stack([np.array(Z).reshape(n, nz), np.ones(n)])
            if np.linalg.matrix_rank(tZ) < nz + 1:
                nz, Z = 0, None  # columns must be linearly independent (documented)
        else:
            Z = None
        case["Z"] = Z
    if stat == "genetic_relatedness_weighted":
        case["polarised"] = draw(st.booleans())
        case["centre"] = draw(st.booleans())
        form = draw(st.sampled_from(["full", "single"] + (["none"] if k == 2 else [])))
        if form == "full":
            ni = draw(st.integers(1, 3))
            idx = [[draw(st.integers(0, k - 1)), draw(st.integers(0, k - 1))] for _ in range(ni)]
        elif form == "single":
            idx = [draw(st.integers(0, k - 1)), draw(st.integers(0, k - 1))]
        else:
            idx = None
        case.update(form=form, indexes=idx)
    if stat == "genetic_relatedness_vector":
        case["centre"] = draw(st.booleans())
        nn = len(spec["nodes"])
        if not case["centre"] and draw(st.integers(0, 2)) > 0:
            case["nodes"] = [draw(st.integers(0, nn - 1)) for _ in range(draw(st.integers(1, 4)))]
        else:
            case["nodes"] = None
        if draw(st.booleans()):
            # the window check of this method allows windows that do not span the genome
            ws = case["fine"]
            if len(ws) > 2:
                a = draw(st.integers(0, len(ws) - 2))
                b = draw(st.integers(a + 1, len(ws) - 1))
                case["partial"] = ws[a:b + 1]
    return case


KEY_GRV_SPAN = "genetic_relatedness_vector.span_normalise_ignored"


def classify_weighted(case, exc):
    """genetic_relatedness_vector(span_normalise=True) returns the un-normalised sums (the C
    function never applies TSK_STAT_SPAN_NORMALISE)."""
    if (case.get("stat") == "genetic_relatedness_vector" and case.get("span_normalise")
            and "span_normalise=True" in str(exc)):
        return KEY_GRV_SPAN
    return None


def run_weighted(case, ctx):
    import tskit

    spec = case["spec"]
    stat, mode, sn = case["stat"], case["mode"], case["span_normalise"]
    ts = gen.build_tables(spec, tskit).tree_sequence()
    smp = model.samples(spec)
    n = len(smp)
    n_nodes = len(spec["nodes"])
    W = np.array(case["W"], dtype=float).reshape(n, -1)
    k = W.shape[1]
    coarse = O.explicit_windows(spec, case["kind"], case["coarse"])
    fine = case["fine"]
    common_labels(ctx, spec, coarse, fine, smp)
    ctx.label("stat=" + stat)
    ctx.label(f"{stat}/{mode}")
    ctx.label("windows=" + str(case["kind"]))
    warg = win_arg(case["kind"], case["coarse"])

    def undrop(got, nw, windows_given, ncols, dropped_last):
        got = np.asarray(got, dtype=float)
        shape = ([nw] if windows_given else []) + ([n_nodes] if mode == "node" else []) + (
            [] if dropped_last else [ncols])
        ctx.check(got.shape == tuple(shape), "output dimensions", f"{stat}: {got.shape} expected {tuple(shape)}")
        if dropped_last:
            got = got[..., np.newaxis]
        if not windows_given:
            got = got[np.newaxis]
        return got

    if stat in ("trait_covariance", "trait_correlation", "trait_linear_model"):
        Z = None
        if stat == "trait_linear_model" and case.get("Z") is not None:
            Z = np.array(case["Z"], dtype=float).reshape(n, -1)

        def call(windows):
            if stat == "trait_linear_model":
                return ts.trait_linear_model(W, Z, windows=windows, mode=mode, span_normalise=sn)
            return getattr(ts, stat)(W, windows=windows, mode=mode, span_normalise=sn)

        def oracle(windows):
            if stat == "trait_covariance":
                return O.trait_covariance(spec, W, windows, mode, sn), np.inf
            if stat == "trait_correlation":
                return O.trait_correlation(spec, W, windows, mode, sn), np.inf
            return O.trait_linear_model(spec, W, Z, windows, mode, sn)

        got = undrop(call(warg), len(coarse) - 1, case["kind"] is not None, k, False)
        exp, worst = oracle(coarse)
        if worst < 1e-6:
            ctx.label("ill_conditioned_skipped")
            return
        ctx.label("covariates", Z is not None)
        ctx.close(got, exp, f"{stat}[{mode}]", rtol=1e-7, atol=1e-9)
        gfine = undrop(call(fine), len(fine) - 1, True, k, False)
        efine, _ = oracle(fine)
        ctx.close(gfine, efine, f"{stat}[{mode}] refined windows", rtol=1e-7, atol=1e-9)
        ctx.close(got, O.combine_refinement(gfine, fine, coarse, sn), f"{stat}[{mode}] refinement",
                  rtol=1e-7, atol=1e-9)
        return

    if stat == "genetic_relatedness_weighted":
        pol, centre = case["polarised"], case["centre"]
        form, idx = case["form"], case["indexes"]
        full = [idx] if form == "single" else ([[0, 1]] if form == "none" else idx)
        ctx.label("form=" + form)

        def call(windows):
            kw = dict(windows=windows, mode=mode, span_normalise=sn, polarised=pol, centre=centre)
            if form == "none":
                return ts.genetic_relatedness_weighted(W, **kw)
            return ts.genetic_relatedness_weighted(W, indexes=[tuple(t) for t in idx] if form == "full" else idx, **kw)

        got = undrop(call(warg), len(coarse) - 1, case["kind"] is not None, len(full), form != "full")
        exp = O.relatedness_weighted(spec, W, full, coarse, mode, sn, pol, centre)
        ctx.close(got, exp, f"genetic_relatedness_weighted[{mode}] summary function")
        if mode in ("site", "branch"):
            # docstring: sum_ab W_ai W_bj C_ab with C the genetic_relatedness between samples a, b
            singles = [[u] for u in smp]
            pairs = [[a, b] for a in range(n) for b in range(n)]
            C = O.relatedness_pairs(spec, singles, pairs, coarse, mode, sn, pol, centre).reshape(-1, n, n)
            e2 = np.stack([np.array([W[:, i] @ C[w] @ W[:, j] for i, j in full]) for w in range(len(coarse) - 1)])
            ctx.close(got, e2, f"genetic_relatedness_weighted[{mode}] = W^T C W")
        gfine = undrop(call(fine), len(fine) - 1, True, len(full), form != "full")
        ctx.close(gfine, O.relatedness_weighted(spec, W, full, fine, mode, sn, pol, centre),
                  f"genetic_relatedness_weighted[{mode}] refined windows")
        ctx.close(got, O.combine_refinement(gfine, fine, coarse, sn),
                  f"genetic_relatedness_weighted[{mode}] refinement")
        return

    # genetic_relatedness_vector (branch mode only: site/node are rejected by the library)
    centre, nodes = case["centre"], case["nodes"]
    focal = smp if nodes is None else nodes
    ctx.label("focal_nodes", nodes is not None)
    ctx.label("centre", centre)

    def expected(windows, span_normalise):
        C = O.relatedness_matrix_nodes(spec, focal, windows, "branch", span_normalise)
        out = np.zeros((len(windows) - 1, len(focal), k))
        for w in range(len(windows) - 1):
            Cw = C[w]
            if centre:  # focal == samples: centred relatedness matrix (I-J/n) C (I-J/n)
                J = np.eye(n) - np.full((n, n), 1.0 / n)
                Cw = J @ Cw @ J
            out[w] = Cw @ W
        return out

    def call(windows, span_normalise):
        kw = dict(windows=windows, mode="branch", span_normalise=span_normalise, centre=centre)
        if nodes is not None:
            kw["nodes"] = nodes
        return np.asarray(ts.genetic_relatedness_vector(W, **kw), dtype=float)

    for wl, given, tag in ((coarse, case["kind"] is not None, ""), (fine, True, " refined windows"),
                           (case.get("partial"), True, " partial windows")):
        if wl is None:
            continue
        arg = warg if tag == "" else wl
        got = call(arg, False)
        if not given:
            ctx.check(got.shape == (len(focal), k), "shape", f"vector windows=None: {got.shape}")
            got = got[np.newaxis]
        ctx.check(got.shape == (len(wl) - 1, len(focal), k), "shape", f"vector: {got.shape}")
        ctx.close(got, expected(wl, False), "genetic_relatedness_vector span_normalise=False" + tag)
        if tag == " refined windows":
            g0 = call(warg, False)
            g0 = g0[np.newaxis] if case["kind"] is None else g0
            ctx.close(g0, O.combine_refinement(got, fine, coarse, False), "genetic_relatedness_vector refinement")
    if sn:
        got = call(warg, True)
        got = got[np.newaxis] if case["kind"] is None else got
        ctx.close(got, expected(coarse, True), "genetic_relatedness_vector span_normalise=True")


def _dev(run, classify):  # DEV ONLY (remove before delivery)
    import os

    def wrapped(case, ctx):
        try:
            run(case, ctx)
        except Exception as e:
            if os.environ.get("VF_C08_DEV_OPEN") and classify(case, e):
                ctx.label("DEV_excluded")
                return
            raise

    return wrapped


run_afs, run_weighted = _dev(run_afs, classify_afs), _dev(run_weighted, classify_weighted)

SUBCHECKS = [
    SubCheck("C08.general_stat", run_gs, strategy=gs_case, quick=1200, thorough=36000, rule=NT,
             floors={}),
    SubCheck("C08.named", run_named, strategy=named_case, quick=1200, thorough=36000, rule=NT, floors={}),
    SubCheck("C08.afs", run_afs, strategy=afs_case, quick=800, thorough=24000, rule=NT, floors={},
             classify=classify_afs),
    SubCheck("C08.weighted", run_weighted, strategy=weighted_case, quick=1000, thorough=30000, rule=NT,
             floors={}, classify=classify_weighted),
]

_PROBE_AFS = dict(
    L=2.0, nodes=[[1, 0.0, -1, -1, ""], [1, 1.0, -1, -1, ""]], edges=[[1.0, 2.0, 1, 0, ""]],
    sites=[], mutations=[], individuals=[], populations=[], migrations=[])
_PROBE_GRV = dict(
    L=4.0, nodes=[[1, 0.0, -1, -1, ""], [1, 0.0, -1, -1, ""], [0, 1.0, -1, -1, ""]],
    edges=[[0.0, 4.0, 2, 0, ""], [0.0, 4.0, 2, 1, ""]],
    sites=[], mutations=[], individuals=[], populations=[], migrations=[])
PROBES = {
    KEY_AFS_GAP: ("C08.afs", dict(
        spec=_PROBE_AFS, mode="branch", polarised=True, span_normalise=False, kind=None, coarse=None,
        fine=[0.0, 0.5, 2.0], form="lists", sets=[[0]])),
    KEY_GRV_SPAN: ("C08.weighted", dict(
        spec=_PROBE_GRV, stat="genetic_relatedness_vector", mode="branch", span_normalise=True, kind=None,
        coarse=None, fine=[0.0, 1.0, 4.0], W=[[1.0], [0.0]], centre=False, nodes=None)),
}
