"""C08 — statistics equal their documented definitions, are additive over window refinements, and
multi-threaded results equal single-threaded ones."""
import math

import numpy as np
from hypothesis import strategies as st

from .. import gen, model
from ..core import SubCheck
from ..gen import F
from . import _c08_oracle as O

META = dict(
    level="exploration",
    rule="Valid tree sequences by construction (vf/gen.py ts_spec: <=9 nodes, <=4 trees, <=5 sites, "
    "multiallelic/recurrent/back mutations, several roots, internal and isolated samples, dead "
    "branches, gaps; dyadic coordinates and times; genomes longer than 1024 rescaled by a power of "
    "two) x weights / sample sets / index tuples x windows (None, 'trees', 'sites', arbitrary lists "
    "cutting trees, ending on sites, containing no site) x mode x polarised x span_normalise. "
    "Oracles: (A) literal evaluation of the documented general_stat definition per allele / "
    "branch / node from the positional table model; (B) the named statistics through the summary "
    "functions printed in docs/stats.md and the docstring formulas of the derived ones; (C) "
    "first-principles definitions (pairwise differences from oracle genotypes, tabulated AFS, "
    "pairwise path lengths, GNN / mean_descendants / pair coalescence docstrings, r^2 from "
    "genotypes, KC vectors, RF clade sets); (D) span-weighted combination over a random window "
    "refinement; (E) num_threads and Python threads against the serial result.",
    assumptions=[
        "reference model vf/model.py (positional parent map, nearest-mutation allele per sample)",
        "floating point: dyadic inputs, comparison |a-b| <= 1e-12 + 1e-9*max(1,|a|,|b|); values whose "
        "exact definition is 0/0 may be nan or 0 (docs/stats.md 'division by zero')",
        "size bounds: <=9 nodes, <=4 elementary intervals, <=5 sites, <=4 sample sets",
        "thread interleavings are only sampled (thread count x repetition), not enumerated",
    ],
    technique="property-based testing (Hypothesis) against naive definitional oracles + metamorphic "
    "window refinement + thread-count differential",
    engines=["hypothesis-runner"],
)

TIME_STYLES = ("small_int", "frac", "neg", "two")


# ------------------------------------------------------------------ generation helpers
def rescale(spec):
    """Genomes longer than 1024 are scaled by a power of two (exact in binary64) so that the
    absolute rounding residue of tskit's running sums stays far below the comparison tolerance
    when span_normalise=False."""
    L = F(spec["L"])
    if L <= 1024:
        return spec
    s = 2.0 ** (-(math.frexp(L)[1] - 9))
    spec = dict(spec)
    spec["L"] = L * s
    spec["edges"] = [[F(e[0]) * s, F(e[1]) * s] + list(e[2:]) for e in spec["edges"]]
    spec["sites"] = [[F(x[0]) * s] + list(x[1:]) for x in spec["sites"]]
    spec["migrations"] = [[F(g[0]) * s, F(g[1]) * s] + list(g[2:]) for g in spec.get("migrations", [])]
    return spec


@st.composite
def stat_spec(draw, max_nodes=9, min_samples=1, **kw):
    kw.setdefault("migrations", False)
    kw.setdefault("metadata", False)
    kw.setdefault("individuals", False)
    kw.setdefault("populations", False)
    kw.setdefault("extra_flags", False)
    spec = draw(gen.ts_spec(max_nodes=max_nodes, min_samples=min_samples, time_styles=TIME_STYLES, **kw))
    return rescale(spec)


def window_candidates(spec):
    L = F(spec["L"])
    bps = model.breakpoints(spec)
    pos = [F(s[0]) for s in spec["sites"]]
    pts = sorted(set(bps) | set(pos))
    cand = set(pts)
    for a, b in zip(pts[:-1], pts[1:]):
        cand.add((a + b) / 2)
        cand.add(a + (b - a) / 4)
    for j in range(1, 8):
        cand.add(L * j / 8)
    return sorted(c for c in cand if 0 < c < L)


def draw_windows(draw, spec, kinds=(None, "trees", "sites", "list", "list", "list")):
    """(kind, coarse list or None, fine list): fine refines the explicit meaning of coarse."""
    L = F(spec["L"])
    cand = window_candidates(spec)
    kind = draw(st.sampled_from(list(kinds)))
    if kind == "list":
        k = draw(st.integers(0, min(5, len(cand))))
        cuts = sorted(draw(st.permutations(cand))[:k]) if k else []
        coarse = [0.0] + cuts + [L]
    else:
        coarse = None
    base = O.explicit_windows(spec, kind, coarse)
    k = draw(st.integers(1, min(4, len(cand))))
    extra = draw(st.permutations(cand))[:k]
    fine = sorted(set(base) | set(extra))
    return kind, coarse, fine


def win_arg(kind, coarse):
    return coarse if kind == "list" else kind


def draw_sample_sets(draw, spec, lo=1, hi=3, disjoint=False, min_size=1):
    smp = model.samples(spec)
    k = draw(st.integers(lo, hi))
    sets = []
    if disjoint:
        perm = list(draw(st.permutations(smp)))
        # sizes: every set gets min_size, the rest is distributed
        if len(perm) < k * min_size:
            return None
        sizes = [min_size] * k
        rest = len(perm) - k * min_size
        for i in range(k):
            e = draw(st.integers(0, rest))
            sizes[i] += e
            rest -= e
        i = 0
        for s in sizes:
            sets.append(sorted(perm[i:i + s]))
            i += s
        return sets
    if len(smp) < min_size:
        return None
    for _ in range(k):
        n = draw(st.integers(min_size, len(smp)))
        sets.append(list(draw(st.permutations(smp))[:n]))
    return sets


def common_labels(ctx, spec, coarse_explicit, fine, weight_nodes):
    """Labels + the non-trivial rule shared by the sub-checks."""
    labs = gen.spec_labels(spec, model)
    for l in labs:
        ctx.label(l)
    bps = model.breakpoints(spec)
    inner = [x for w in (coarse_explicit, fine) for x in w[1:-1] if x not in bps]
    cut = "multi_tree" in labs and bool(inner)
    ctx.label("window_cuts_tree", cut)
    pos = [F(s[0]) for s in spec["sites"]]
    ctx.label("window_ends_on_site", any(x in pos for x in coarse_explicit[1:-1]))
    empty = any(not any(a <= p < b for p in pos) for a, b in zip(coarse_explicit[:-1], coarse_explicit[1:]))
    ctx.label("window_without_site", bool(pos) and empty)
    multiallelic = any(len(O.site_states(spec, j)) > 2 for j in range(len(spec["sites"])))
    ctx.label("multiallelic_site", multiallelic)
    internal = False
    for a, b, par in O.tree_intervals(spec):
        ch = model.children_of(par)
        if any(ch[u] for u in weight_nodes):
            internal = True
    ctx.label("internal_sample_used", internal)
    nt = cut or multiallelic or "multi_root" in labs or internal
    ctx.nt(nt and bool(spec["edges"]))
    return labs


NT = (">=1 edge and: (>=2 trees and a window boundary strictly inside a tree) or a site with >=3 "
      "allelic states or >=2 roots or an internal sample carrying weight / in a sample set")


# ------------------------------------------------------------------ (A)+(D) general_stat
def make_func(name, T, k):
    """Summary functions of a k-vector; T = total weights (or sample-set sizes)."""
    T = np.asarray(T, dtype=float)
    if name == "prod":
        return (lambda x: x * (T - x)), k
    if name == "cross":
        return (lambda x: np.array([x[0] * (T[k - 1] - x[k - 1])])), 1
    if name == "ind":
        return (lambda x: ((x != 0) & (x != T)).astype(float)), k
    if name == "lin":
        return (lambda x: np.array(x, dtype=float)), k
    if name == "sq":
        return (lambda x: np.array([np.sum(x * x)])), 1
    if name == "one":
        return (lambda x: np.array([1.0])), 1
    if name == "mix":
        return (lambda x: np.array([x[0] * (T[0] - x[0]), float(x[0] > 0), np.sum(x)])), 3
    raise AssertionError(name)


FUNCS = ["prod", "cross", "ind", "lin", "sq", "one", "mix"]
WEIGHTS = [0.0, 0.0, 1.0, 1.0, 2.0, -1.0, 0.5, 3.0, -0.5]


@st.composite
def gs_case(draw):
    spec = draw(stat_spec())
    smp = model.samples(spec)
    use_sets = draw(st.booleans())
    case = dict(spec=spec)
    if use_sets:
        case["sets"] = draw_sample_sets(draw, spec)
        k = len(case["sets"])
    else:
        k = draw(st.integers(1, 3))
        case["W"] = [[draw(st.sampled_from(WEIGHTS)) for _ in range(k)] for _ in smp]
    case["func"] = draw(st.sampled_from(FUNCS))
    case["mode"] = draw(st.sampled_from(["site", "branch", "node"]))
    case["polarised"] = draw(st.booleans())
    case["span_normalise"] = draw(st.booleans())
    case["strict"] = draw(st.booleans())
    case["kind"], case["coarse"], case["fine"] = draw_windows(draw, spec)
    return case


def run_gs(case, ctx):
    import tskit

    spec = case["spec"]
    ts = gen.build_tables(spec, tskit).tree_sequence()
    smp = model.samples(spec)
    ctx.eq(list(map(int, ts.samples())), smp, "ts.samples() order")
    mode, pol, sn = case["mode"], case["polarised"], case["span_normalise"]
    if "sets" in case:
        sets = case["sets"]
        W = O.indicator_weights(spec, sets)
        T = np.array([len(s) for s in sets], dtype=float)
        used = sorted({u for s in sets for u in s})
    else:
        W = np.array(case["W"], dtype=float).reshape(len(smp), -1)
        T = W.sum(axis=0)
        used = [u for i, u in enumerate(smp) if np.any(W[i] != 0)]
    k = W.shape[1]
    f, m = make_func(case["func"], T, k)
    coarse = O.explicit_windows(spec, case["kind"], case["coarse"])
    fine = case["fine"]
    common_labels(ctx, spec, coarse, fine, used)
    ctx.label("mode=" + mode)
    ctx.label("func=" + case["func"])
    ctx.label("sample_count_stat" if "sets" in case else "general_stat")
    ctx.label("polarised", pol)
    ctx.label("windows=" + str(case["kind"]))
    strict_ok = bool(np.allclose(f(T), 0) and np.allclose(f(T * 0.0), 0))
    ctx.label("strict_f", strict_ok)

    def call(windows, strict):
        if "sets" in case:
            return ts.sample_count_stat(case["sets"], f, m, windows=windows, polarised=pol, mode=mode,
                                        span_normalise=sn, strict=strict)
        return ts.general_stat(W, f, m, windows=windows, polarised=pol, mode=mode,
                               span_normalise=sn, strict=strict)

    if case["strict"] and not strict_ok:
        # documented: the check "throws an error" for a summary function that is not zero at 0 and
        # at the total weight
        ctx.label("strict_rejects")
        try:
            call(win_arg(case["kind"], case["coarse"]), True)
        except ValueError:
            pass
        else:
            ctx.fail("strict", "non-strict summary function accepted with strict=True")
        strict = False
    else:
        strict = case["strict"]
    got = np.asarray(call(win_arg(case["kind"], case["coarse"]), strict))
    exp, unsure = O.general_stat(spec, W, f, m, coarse, mode, pol, sn)
    if case["kind"] is None:
        ctx.check(got.shape == exp.shape[1:], "shape", f"windows=None: {got.shape} expected {exp.shape[1:]}")
        got = got[np.newaxis]
    ctx.check(got.shape == exp.shape, "shape", f"{got.shape} expected {exp.shape}")
    keep = ~unsure if (mode == "site" and not strict_ok) else np.ones(len(coarse) - 1, dtype=bool)
    ctx.label("unsure_window_skipped", bool((~keep).any()))
    ctx.close(got[keep], exp[keep], f"definition[{mode}]")
    # (D) refinement
    gfine = np.asarray(call(fine, strict))
    efine, unsure_f = O.general_stat(spec, W, f, m, fine, mode, pol, sn)
    keepf = ~unsure_f if (mode == "site" and not strict_ok) else np.ones(len(fine) - 1, dtype=bool)
    ctx.close(gfine[keepf], efine[keepf], f"definition[{mode}] on the refined windows")
    comb = O.combine_refinement(gfine, fine, coarse, sn)
    ctx.close(got, comb, f"refinement[{mode}]")


SUBCHECKS = [
    SubCheck("C08.general_stat", run_gs, strategy=gs_case, quick=1200, thorough=36000, rule=NT,
             floors={}),
]
