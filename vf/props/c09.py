"""C09 — no API input causes out-of-bounds memory access or aborts the interpreter.

Programs (object + sequence of public-API calls with boundary / adversarial arguments) are executed
against the ASan+UBSan build in worker subprocesses that journal every program before running it.
Any Python exception is an acceptable outcome of a call; process death (signal, sanitizer report,
tsk_bug_assert abort) or a hang is the violation, attributed to the journalled program.
"""
import math
import os

from hypothesis import strategies as st

from .. import gen, model
from ..core import SubCheck
from ..gen import F
from . import c02

META = dict(
    level="exploration",
    rule="A program = object under test (valid tree sequence built by vf/gen.py, or an arbitrary table "
    "collection = valid spec damaged by the C02 boundary operators, optionally unsorted/unindexed) + "
    "1-10 calls drawn from a hand-written catalogue of the public Python API (TreeSequence, Tree, Variant, "
    "TableCollection, tables, IdentitySegments, LdCalculator, module functions); each argument is drawn by "
    "kind (node/site/... id, id list, sample sets, position, windows, intervals, time, genotype vector, "
    "weights, mask, offsets) from valid values and from boundary values {-2,-1,n-1,n,n+1,2^31-1,2^31,2^63; "
    "-1,-0.0,L-ulp,L,L+1,nan,+-inf; empty/duplicate/unsorted lists; wrong lengths}. Every program ends with "
    "an epilogue that uses the object again (iterate trees, decode variants, read every row, dump+load). "
    "Oracle: executed on the ASan+UBSan build, each call returns or raises a Python exception; worker "
    "death or a sanitizer report is a violation. Plus: at the API points documented to reject "
    "out-of-range ids, id == row count must raise.",
    assumptions=[
        "gcc 12 AddressSanitizer + UndefinedBehaviorSanitizer runtime (-fno-sanitize-recover=undefined)",
        "the call catalogue in vf/props/c09.py (hand-written; per-call outcome counters are in the evidence)",
        "SystemError / MemoryError raised by a call are Python exceptions and are only counted, not flagged",
        "size-like arguments are kept small: allocation-size overflow beyond 2^31 rows is out of reach here",
    ],
    technique="API-sequence fuzzing with boundary-value argument generators on an ASan+UBSan build; crash = violation",
    engines=["hypothesis-runner", "asan-subprocess-driver"],
)

I31 = 2**31 - 1


# ------------------------------------------------------------------ argument kinds
def _ids(draw, n, allow_n=False):
    """One identifier for a table with n rows."""
    if n > 0 and draw(st.integers(0, 99)) < 62:
        return draw(st.integers(0, n - 1))
    return draw(st.sampled_from([-2, -1, 0, n - 1, n, n + 1, I31, 2**31, -(2**31), -(2**31) - 1, 2**63, n + 7,
                                 -3, -I31]))


def _idlist(draw, n, maxlen=4):
    k = draw(st.sampled_from([0, 1, 1, 1, 2, 2, 3, maxlen]))
    out = [_ids(draw, n) for _ in range(k)]
    if out and draw(st.integers(0, 5)) == 0:
        out.append(out[0])  # duplicate
    return out


class Sizes:
    def __init__(self, spec):
        self.n = len(spec["nodes"])
        self.e = len(spec["edges"])
        self.s = len(spec.get("sites", []))
        self.m = len(spec.get("mutations", []))
        self.i = len(spec.get("individuals", []))
        self.p = len(spec.get("populations", []))
        self.g = len(spec.get("migrations", []))
        try:
            self.L = F(spec["L"])
        except Exception:
            self.L = 1.0
        if not (self.L > 0) or math.isinf(self.L):
            self.L = 1.0
        self.samples = [u for u in range(self.n) if spec["nodes"][u][0] & 1]
        self.times = sorted({F(nd[1]) for nd in spec["nodes"] if isinstance(nd[1], (int, float))})
        bps = {0.0, self.L}
        for ed in spec["edges"]:
            for x in ed[:2]:
                try:
                    x = F(x)
                    if 0 < x < self.L:
                        bps.add(x)
                except Exception:
                    pass
        self.bps = sorted(bps)


def draw_arg(draw, kind, z):
    n, L = z.n, z.L
    if kind == "node":
        return _ids(draw, n)
    if kind == "vnode":  # tree queries: n (the virtual root) is valid
        return _ids(draw, n + 1)
    if kind == "site":
        return _ids(draw, z.s)
    if kind == "mut":
        return _ids(draw, z.m)
    if kind == "edge":
        return _ids(draw, z.e)
    if kind == "ind":
        return _ids(draw, z.i)
    if kind == "pop":
        return _ids(draw, z.p)
    if kind == "mig":
        return _ids(draw, z.g)
    if kind == "tree_index":
        return _ids(draw, len(z.bps) - 1)
    if kind == "nodes":
        return _idlist(draw, n)
    if kind == "sites":
        return _idlist(draw, z.s)
    if kind == "inds":
        return _idlist(draw, z.i)
    if kind == "samples":
        if z.samples and draw(st.integers(0, 99)) < 65:
            k = draw(st.integers(0, len(z.samples)))
            return list(draw(st.permutations(z.samples)))[:k]
        return _idlist(draw, n)
    if kind == "samples_or_none":
        if draw(st.integers(0, 2)) == 0:
            return None
        return draw_arg(draw, "samples", z)
    if kind in ("indexes2", "indexes3", "indexes4"):
        k = int(kind[-1])
        m = draw(st.sampled_from([1, 1, 2, 3]))
        tups = [[draw(st.integers(0, 4)) for _ in range(k)] for _ in range(m)]
        if draw(st.integers(0, 2)) == 0:  # one bad entry in a random slot of a random tuple
            tups[draw(st.integers(0, m - 1))][draw(st.integers(0, k - 1))] = draw(
                st.sampled_from([-1, -2, 5, 6, 7, I31, -(2**31), 2**31]))
        if m == 1 and draw(st.booleans()):
            return tups[0]
        return tups
    if kind == "edge_perm":
        perm = list(draw(st.permutations(list(range(z.e))))) if draw(st.integers(0, 3)) == 0 else list(range(z.e))
        if perm and draw(st.integers(0, 1)) == 0:
            perm[draw(st.integers(0, len(perm) - 1))] = draw(st.sampled_from(
                [-1, -2, z.e, z.e + 1, 2**30, I31, -(2**31), perm[0]]))
        return perm
    if kind == "sample_sets5":
        k = draw(st.integers(3, 5))
        if z.samples:
            return [[draw(st.sampled_from(z.samples)) for _ in range(draw(st.integers(1, 2)))] for _ in range(k)]
        return [[_ids(draw, n)] for _ in range(k)]
    if kind == "sample_sets":
        k = draw(st.integers(0, 3))
        if z.samples and draw(st.integers(0, 99)) < 60:
            perm = list(draw(st.permutations(z.samples)))
            cuts = sorted(draw(st.integers(0, len(perm))) for _ in range(k))
            out, a = [], 0
            for c in cuts:
                out.append(perm[a:c])
                a = c
            return out
        return [draw_arg(draw, "samples", z) for _ in range(k)]
    if kind == "indexes":
        k = draw(st.sampled_from([1, 2, 2, 3, 4]))
        m = draw(st.integers(0, 3))
        pool = [-1, 0, 1, 2, 3, I31]
        tup = lambda: [draw(st.sampled_from(pool)) for _ in range(k)]  # noqa: E731
        if draw(st.integers(0, 3)) == 0:
            return tup()
        return [tup() for _ in range(m)]
    if kind == "pos":
        if draw(st.integers(0, 99)) < 60:
            j = draw(st.integers(0, len(z.bps) - 2))
            a, b = z.bps[j], z.bps[j + 1]
            return draw(st.sampled_from([a, (a + b) / 2, math.nextafter(b, -math.inf)]))
        return draw(st.sampled_from([-1.0, -0.0, L, L + 1, "nan", "inf", "-inf", math.nextafter(L, math.inf), 1e300]))
    if kind == "windows":
        if draw(st.integers(0, 99)) < 55:
            k = draw(st.integers(0, 2))
            inner = sorted(draw(st.lists(st.sampled_from([L / 4, L / 2, 3 * L / 4] + z.bps[1:-1]), min_size=k, max_size=k, unique=True)))
            return draw(st.sampled_from([None, "trees", "sites", [0.0] + inner + [L]]))
        return draw(st.sampled_from([
            [], [0.0], [L, 0.0], [0.0, 0.0, L], [0.0, L + 1], [-1.0, L], [0.0, "nan", L], [L / 2, L],
            [0.0, L / 2], [0.0, L / 2, L / 2, L], [0.0, "inf"], "bogus", [[0.0, L]], [0.0, L, L],
        ]))
    if kind == "intervals":
        if draw(st.integers(0, 99)) < 55:
            pts = sorted(draw(st.lists(st.sampled_from([0.0, L / 4, L / 2, 3 * L / 4, L] + z.bps), min_size=0, max_size=6, unique=True)))
            return [[pts[i], pts[i + 1]] for i in range(0, len(pts) - 1, 2)]
        return draw(st.sampled_from([
            [[0.0, 0.0]], [[L, 0.0]], [[0.0, L / 2], [L / 4, L]], [[-1.0, L]], [[0.0, L + 1]],
            [[0.0, "nan"]], [[L / 2, L], [0.0, L / 4]], [[0.0]], [[0.0, L, L]], [0.0, L], [["inf", "inf"]],
        ]))
    if kind == "time":
        pool = list(z.times) + [(a + b) / 2 for a, b in zip(z.times[:-1], z.times[1:])]
        pool += [-1e9, 1e9, "nan", "inf", "-inf", 0.0]
        return draw(st.sampled_from(pool))
    if kind == "bool":
        return draw(st.booleans())
    if kind == "mode":
        return draw(st.sampled_from(["site", "site", "branch", "branch", "node", "bogus", None]))
    if kind == "small":
        return draw(st.sampled_from([0, 1, 2, 3, -1, 10, I31, -(2**31)]))
    if kind == "threads":
        return draw(st.sampled_from([0, 0, 1, 2, 3, -1]))
    if kind == "genotypes":
        k = len(z.samples)
        if draw(st.integers(0, 99)) < 70:
            return [draw(st.sampled_from([-1, 0, 0, 1, 1, 2, 3])) for _ in range(k)]
        return draw(st.sampled_from([[], [0] * (k + 1), [0] * max(0, k - 1), [64] * k, [-2] * k, [127] * k,
                                     [63] * k, [-1] * k, [200] * k]))
    if kind == "anc":
        return draw(st.sampled_from([None, None, 0, 1, 3, 4, -1, 63, 64, "A", "Z"]))
    if kind == "weights":
        k = len(z.samples)
        rows = draw(st.sampled_from([k, k, k, k + 1, max(0, k - 1), 0]))
        cols = draw(st.sampled_from([1, 1, 2, 0]))
        vals = [1.0, 0.0, -2.5, 0.25]
        if draw(st.integers(0, 5)) == 0:
            vals += ["nan", "inf"]
        return [[draw(st.sampled_from(vals)) for _ in range(cols)] for _ in range(rows)]
    if kind == "mask_sites":
        k = draw(st.sampled_from([z.s, z.s, z.s + 1, max(0, z.s - 1)]))
        return [draw(st.booleans()) for _ in range(k)]
    if kind == "alleles":
        return draw(st.sampled_from([None, None, ["A", "C", "G", "T"], ["A"], [], ["T", "G", "C", "A", "x"], ["A", "A"],
                                     ["A", None], [""], ["AC", "G"]]))
    if kind == "order":
        return draw(st.sampled_from(["preorder", "postorder", "inorder", "levelorder", "timeasc", "timedesc",
                                     "minlex_postorder", "bogus"]))
    if kind == "span":
        return draw(st.sampled_from([0.0, -1.0, L / 4, L, 2 * L, "nan", "inf"]))
    if kind == "precision":
        return draw(st.sampled_from([None, 0, 1, 3, 17, 30, -1, 400]))
    if kind == "ploidy":
        return draw(st.sampled_from([None, 1, 2, 3, 0, -1]))
    if kind == "node_mapping":
        k = draw(st.sampled_from([n, n, n + 1, max(0, n - 1)]))
        return [draw(st.sampled_from([-1, -1, 0, max(0, n - 1), n, -2, I31])) if draw(st.integers(0, 3)) else u % max(1, n)
                for u in range(k)]
    if kind == "rows":
        return draw(st.integers(0, 6))
    if kind == "offsets":
        # ragged offsets for `rows`-many rows over a data buffer of length 6
        return draw(st.sampled_from(["ok", "ok", "decreasing", "too_long", "short", "nonzero_start", "overflow", "neg",
                                     "wrap32", "wrap32_mid", "wrap32_last", "huge"]))
    raise KeyError(kind)


# ------------------------------------------------------------------ catalogue
def _f(x):
    """JSON arg -> python value (floats encoded as strings, nested lists)."""
    if isinstance(x, str) and x in ("nan", "inf", "-inf"):
        return float(x)
    if isinstance(x, list):
        return [_f(v) for v in x]
    return x


def _consume(it, limit=200):
    k = 0
    for _ in it:
        k += 1
        if k >= limit:
            break
    return k


def _ts_calls():
    import numpy as np
    import tskit

    C = {}

    def reg(name, kinds, fn):
        C[name] = (kinds, fn)

    # row access
    reg("ts.node", ["node"], lambda S, i: S.ts.node(i))
    reg("ts.edge", ["edge"], lambda S, i: S.ts.edge(i))
    reg("ts.site", ["site"], lambda S, i: S.ts.site(i))
    reg("ts.mutation", ["mut"], lambda S, i: S.ts.mutation(i))
    reg("ts.individual", ["ind"], lambda S, i: S.ts.individual(i))
    reg("ts.population", ["pop"], lambda S, i: S.ts.population(i))
    reg("ts.migration", ["mig"], lambda S, i: S.ts.migration(i))
    reg("ts.provenance", ["small"], lambda S, i: S.ts.provenance(i))
    reg("ts.site(position)", ["pos"], lambda S, x: S.ts.site(position=x))
    reg("ts.at", ["pos"], lambda S, x: S.ts.at(x).num_edges)
    reg("ts.at_index", ["tree_index"], lambda S, i: S.ts.at_index(i).num_edges)
    # tree navigation / state
    reg("tree.new", ["samples_or_none", "bool", "small"], lambda S, tr, sl, thr: S.set_tree(
        tskit.Tree(S.ts, tracked_samples=tr, sample_lists=sl, root_threshold=thr)))
    reg("tree.seek", ["pos"], lambda S, x: S.tree.seek(x))
    reg("tree.seek_index", ["tree_index"], lambda S, i: S.tree.seek_index(i))
    reg("tree.next", [], lambda S: S.tree.next())
    reg("tree.prev", [], lambda S: S.tree.prev())
    reg("tree.first", [], lambda S: S.tree.first())
    reg("tree.last", [], lambda S: S.tree.last())
    reg("tree.clear", [], lambda S: S.tree.clear())
    reg("tree.copy", [], lambda S: S.set_tree(S.tree.copy()))
    for nm in ("parent", "left_child", "right_child", "left_sib", "right_sib", "num_children", "children",
               "time", "depth", "is_sample", "is_leaf", "is_internal", "is_isolated", "is_root", "num_samples",
               "num_tracked_samples", "branch_length", "edge", "population", "left_sample", "right_sample",
               "next_sample", "preorder", "postorder", "timeasc", "timedesc", "siblings"):
        reg("tree." + nm, ["vnode"], (lambda nm: lambda S, u: getattr(S.tree, nm)(u))(nm))
    reg("tree.samples", ["vnode"], lambda S, u: _consume(S.tree.samples(u)))
    reg("tree.leaves", ["vnode"], lambda S, u: _consume(S.tree.leaves(u)))
    reg("tree.ancestors", ["vnode"], lambda S, u: _consume(S.tree.ancestors(u)))
    reg("tree.nodes", ["vnode", "order"], lambda S, u, o: _consume(S.tree.nodes(u, order=o)))
    reg("tree.mrca", ["vnode", "vnode"], lambda S, u, v: S.tree.mrca(u, v))
    reg("tree.mrca3", ["vnode", "vnode", "vnode"], lambda S, u, v, w: S.tree.mrca(u, v, w))
    reg("tree.tmrca", ["vnode", "vnode"], lambda S, u, v: S.tree.tmrca(u, v))
    reg("tree.is_descendant", ["vnode", "vnode"], lambda S, u, v: S.tree.is_descendant(u, v))
    reg("tree.path_length", ["vnode", "vnode"], lambda S, u, v: S.tree.path_length(u, v))
    reg("tree.distance_between", ["vnode", "vnode"], lambda S, u, v: S.tree.distance_between(u, v))
    reg("tree.num_lineages", ["time"], lambda S, t: S.tree.num_lineages(t))
    reg("tree.as_newick", ["vnode", "precision", "bool"], lambda S, u, p, b: S.tree.as_newick(
        root=u, precision=p, include_branch_lengths=b))
    reg("tree.as_newick_labels", ["vnode", "precision"], lambda S, u, p: S.tree.as_newick(
        root=u, precision=p, node_labels={0: "a", 1: "b"}))
    reg("tree.newick", ["vnode", "precision"], lambda S, u, p: S.tree.newick(root=u, precision=14 if p is None else p))
    reg("tree.map_mutations", ["genotypes", "anc"], lambda S, g, a: S.tree.map_mutations(
        g, ["A", "C", "G", "T"], ancestral_state=a))
    reg("tree.map_mutations64", ["genotypes", "anc"], lambda S, g, a: S.tree.map_mutations(
        g, [str(k) for k in range(64)], ancestral_state=a))
    reg("tree.kc_distance", ["span"], lambda S, lam: S.tree.kc_distance(S.ts.first(), lam))
    reg("tree.rf_distance", [], lambda S: S.tree.rf_distance(S.ts.last()))
    reg("tree.rank", [], lambda S: S.tree.rank())
    reg("tree.count_topologies", ["sample_sets"], lambda S, ss: S.tree.count_topologies(ss))
    reg("tree.split_polytomies", ["small"], lambda S, sd: S.tree.split_polytomies(random_seed=abs(sd) % 1000 + 1).num_edges)
    reg("tree.total_branch_length", [], lambda S: S.tree.total_branch_length)
    reg("tree.indexes", [], lambda S: (S.tree.b1_index(), S.tree.colless_index(), S.tree.sackin_index(), S.tree.b2_index()))
    reg("tree.draw_text", [], lambda S: len(S.tree.draw_text()))
    reg("tree.sites", [], lambda S: _consume(S.tree.mutations()))
    # genotypes
    reg("ts.variants", ["samples_or_none", "bool", "alleles", "pos", "pos"], lambda S, sm, iso, al, l, r: _consume(
        (v.genotypes.sum() for v in S.ts.variants(samples=sm, isolated_as_missing=iso, alleles=al, left=l, right=r))))
    reg("variant.new", ["samples_or_none", "bool", "alleles"], lambda S, sm, iso, al: S.set_variant(
        tskit.Variant(S.ts, samples=sm, isolated_as_missing=iso, alleles=al)))
    reg("variant.decode", ["site"], lambda S, i: (S.variant.decode(i), S.variant.genotypes.sum(), S.variant.alleles))
    reg("variant.copy", [], lambda S: S.set_variant(S.variant.copy()))
    reg("variant.read", [], lambda S: (S.variant.site, S.variant.genotypes, S.variant.alleles, S.variant.counts(),
                                       S.variant.frequencies(), S.variant.num_missing, str(S.variant)))
    reg("ts.genotype_matrix", ["samples_or_none", "bool", "alleles"], lambda S, sm, iso, al: S.ts.genotype_matrix(
        samples=sm, isolated_as_missing=iso, alleles=al).shape)
    reg("ts.haplotypes", ["samples_or_none", "bool", "pos", "pos"], lambda S, sm, iso, l, r: _consume(
        S.ts.haplotypes(samples=sm, isolated_as_missing=iso, left=l, right=r)))
    reg("ts.alignments", ["samples_or_none", "pos", "pos"], lambda S, sm, l, r: _consume(
        S.ts.alignments(samples=sm, left=l, right=r)))
    # transformations
    reg("ts.simplify", ["samples_or_none", "bool", "bool", "bool", "bool"], lambda S, sm, a, b, c, d: S.ts.simplify(
        sm, map_nodes=True, keep_unary=a, keep_input_roots=b, filter_nodes=c, reduce_to_site_topology=d)[0].num_nodes)
    reg("ts.subset", ["nodes", "bool", "bool"], lambda S, nd, a, b: S.ts.subset(
        nd, reorder_populations=a, remove_unreferenced=b).num_nodes)
    reg("ts.union", ["node_mapping", "bool", "bool"], lambda S, nm, a, b: S.ts.union(
        S.ts, nm, check_shared_equality=a, add_populations=b).num_nodes)
    reg("ts.keep_intervals", ["intervals", "bool"], lambda S, iv, s: S.ts.keep_intervals(iv, simplify=s).num_edges)
    reg("ts.delete_intervals", ["intervals", "bool"], lambda S, iv, s: S.ts.delete_intervals(iv, simplify=s).num_edges)
    reg("ts.delete_sites", ["sites"], lambda S, ids: S.ts.delete_sites(ids).num_sites)
    reg("ts.trim", ["small"], lambda S, k: [S.ts.trim, S.ts.ltrim, S.ts.rtrim][abs(k) % 3]().num_edges)
    reg("ts.decapitate", ["time"], lambda S, t: S.ts.decapitate(t).num_edges)
    reg("ts.split_edges", ["time", "pop"], lambda S, t, p: S.ts.split_edges(t, population=p).num_edges)
    reg("ts.extend_haplotypes", ["small"], lambda S, k: S.ts.extend_haplotypes(max_iter=k).num_edges)
    reg("ts.impute_unknown_mutations_time", [], lambda S: S.ts.impute_unknown_mutations_time())
    reg("ts.text", ["precision"], lambda S, p: (S.ts.dump_text(precision=6 if p is None else p), S.ts.draw_text()))
    reg("ts.write_vcf", ["ploidy", "mask_sites", "bool", "bool"], lambda S, pl, mk, iso, z: len(S.ts.as_vcf(
        ploidy=pl, site_mask=mk, isolated_as_missing=iso, allow_position_zero=z)))
    reg("ts.as_nexus", ["precision", "bool"], lambda S, p, b: len(S.ts.as_nexus(precision=p, include_alignments=b)))
    reg("ts.as_fasta", ["small"], lambda S, w: len(S.ts.as_fasta(wrap_width=w)))
    reg("ts.edge_diffs", ["bool", "small"], lambda S, t, d: _consume(S.ts.edge_diffs(include_terminal=t, direction=1 if d % 2 else -1)))
    reg("ts.tables_roundtrip", [], lambda S: S.ts.dump_tables().tree_sequence().num_trees)
    # statistics
    for nm in ("diversity", "segregating_sites", "Tajimas_D"):
        reg("ts." + nm, ["sample_sets", "windows", "mode", "bool"], (lambda nm: lambda S, ss, w, m, sn: getattr(S.ts, nm)(
            ss, windows=w, mode=m, **({} if nm == "Tajimas_D" else {"span_normalise": sn})))(nm))
    for nm in ("divergence", "Fst", "Y2", "f2", "Y3", "f3", "f4", "genetic_relatedness"):
        reg("ts." + nm, ["sample_sets", "indexes", "windows", "mode", "bool"],
            (lambda nm: lambda S, ss, ix, w, m, sn: getattr(S.ts, nm)(ss, indexes=ix, windows=w, mode=m, span_normalise=sn))(nm))
    reg("ts.Y1", ["sample_sets", "windows", "mode"], lambda S, ss, w, m: S.ts.Y1(ss, windows=w, mode=m))
    # k-way statistics with enough sample sets to get past the "at least k sets" validation and index
    # tuples of the right arity with at most one bad entry in a random slot
    for nm, ar in (("divergence", 2), ("Y2", 2), ("f2", 2), ("Fst", 2), ("genetic_relatedness", 2), ("Y3", 3),
                   ("f3", 3), ("f4", 4)):
        reg(f"ts.{nm}/k", ["sample_sets5", f"indexes{ar}", "windows", "mode"],
            (lambda nm: lambda S, ss, ix, w, m: getattr(S.ts, nm)(ss, indexes=ix, windows=w, mode=m))(nm))
    reg("ts.pair_coalescence_counts/k", ["sample_sets5", "indexes2", "windows"], lambda S, ss, ix, w:
        S.ts.pair_coalescence_counts(ss, indexes=ix if ix and isinstance(ix[0], list) else [ix], windows=w))
    reg("ts.genetic_relatedness_weighted/k", ["weights", "indexes2", "windows", "mode"], lambda S, W, ix, w, m:
        S.ts.genetic_relatedness_weighted(np.array(W, dtype=float).reshape(len(W), -1), indexes=ix, windows=w, mode=m))
    reg("ts.allele_frequency_spectrum", ["sample_sets", "windows", "mode", "bool", "bool"], lambda S, ss, w, m, sn, po:
        S.ts.allele_frequency_spectrum(ss, windows=w, mode=m, span_normalise=sn, polarised=po))
    reg("ts.general_stat", ["weights", "windows", "mode", "bool", "bool"], lambda S, W, w, m, po, sn: S.ts.general_stat(
        np.array(W, dtype=float).reshape(len(W), -1), lambda x: x, max(1, len(W[0]) if W else 1), windows=w, mode=m,
        polarised=po, span_normalise=sn, strict=False))
    reg("ts.sample_count_stat", ["sample_sets", "windows", "mode"], lambda S, ss, w, m: S.ts.sample_count_stat(
        ss, lambda x: x, len(ss), windows=w, mode=m, strict=False))
    reg("ts.trait_covariance", ["weights", "windows", "mode"], lambda S, W, w, m: S.ts.trait_covariance(
        np.array(W, dtype=float).reshape(len(W), -1), windows=w, mode=m))
    reg("ts.trait_correlation", ["weights", "windows", "mode"], lambda S, W, w, m: S.ts.trait_correlation(
        np.array(W, dtype=float).reshape(len(W), -1), windows=w, mode=m))
    reg("ts.trait_linear_model", ["weights", "weights", "windows", "mode"], lambda S, W, Z, w, m: S.ts.trait_linear_model(
        np.array(W, dtype=float).reshape(len(W), -1), np.array(Z, dtype=float).reshape(len(Z), -1), windows=w, mode=m))
    reg("ts.genetic_relatedness_weighted", ["weights", "indexes", "windows", "mode"], lambda S, W, ix, w, m:
        S.ts.genetic_relatedness_weighted(np.array(W, dtype=float).reshape(len(W), -1), indexes=ix, windows=w, mode=m))
    reg("ts.genetic_relatedness_vector", ["weights", "windows", "bool", "samples_or_none"], lambda S, W, w, c, nd:
        S.ts.genetic_relatedness_vector(np.array(W, dtype=float).reshape(len(W), -1), windows=w, mode="branch", centre=c, nodes=nd))
    reg("ts.genetic_relatedness_matrix", ["sample_sets", "windows", "mode", "threads"], lambda S, ss, w, m, nt:
        S.ts.genetic_relatedness_matrix(ss, windows=w, mode=m, num_threads=max(0, nt)))
    reg("ts.divergence_matrix", ["sample_sets", "windows", "mode", "threads", "bool"], lambda S, ss, w, m, nt, sn:
        S.ts.divergence_matrix(ss, windows=w, mode=m, num_threads=max(0, nt), span_normalise=sn))
    reg("ts.divergence_matrix_ids", ["samples_or_none", "windows", "mode"], lambda S, sm, w, m:
        S.ts.divergence_matrix(sm, windows=w, mode=m))
    reg("ts.genealogical_nearest_neighbours", ["nodes", "sample_sets", "threads"], lambda S, f, ss, nt:
        S.ts.genealogical_nearest_neighbours(f, ss, num_threads=max(0, nt)))
    reg("ts.mean_descendants", ["sample_sets"], lambda S, ss: S.ts.mean_descendants(ss))
    reg("ts.pair_coalescence_counts", ["sample_sets", "indexes", "windows", "bool", "bool"], lambda S, ss, ix, w, sn, pn:
        S.ts.pair_coalescence_counts(ss or None, indexes=ix or None, windows=w, span_normalise=sn, pair_normalise=pn))
    reg("ts.pair_coalescence_counts_tw", ["sample_sets", "windows", "small"], lambda S, ss, w, k:
        S.ts.pair_coalescence_counts(ss or None, windows=w, time_windows=np.array([0.0, 1.0, np.inf][: 2 + abs(k) % 2])))
    reg("ts.pair_coalescence_quantiles", ["sample_sets", "windows"], lambda S, ss, w:
        S.ts.pair_coalescence_quantiles(np.array([0.25, 0.5]), sample_sets=ss or None, windows=w))
    reg("ts.pair_coalescence_rates", ["sample_sets", "windows"], lambda S, ss, w:
        S.ts.pair_coalescence_rates(np.array([0.0, 1.0, np.inf]), sample_sets=ss or None, windows=w))
    reg("ts.kc_distance", ["span"], lambda S, lam: S.ts.kc_distance(S.ts, lam))
    reg("ts.count_topologies", ["sample_sets"], lambda S, ss: _consume(S.ts.count_topologies(ss)))
    reg("ts.ibd_segments", ["samples_or_none", "sample_sets", "span", "time", "bool", "bool"],
        lambda S, wi, be, ms, mt, sp, sg: S.use_ibd(S.ts.ibd_segments(
            within=wi, between=be or None, min_span=ms, max_time=mt, store_pairs=sp, store_segments=sg)))
    reg("ts.ibd_within_only", ["nodes", "bool"], lambda S, wi, sg: S.use_ibd(S.ts.ibd_segments(within=wi, store_segments=sg, store_pairs=True)))
    reg("ts.ibd_between_only", ["sample_sets"], lambda S, be: S.use_ibd(S.ts.ibd_segments(between=be, store_segments=True)))
    reg("ld.r2", ["site", "site"], lambda S, a, b: tskit.LdCalculator(S.ts).r2(a, b))
    reg("ld.r2_array", ["site", "small", "small", "span"], lambda S, a, d, mm, md: tskit.LdCalculator(S.ts).r2_array(
        a, direction=1 if d % 2 else -1, max_mutations=None if mm < 0 else mm, max_distance=md))
    reg("ld.r2_matrix", [], lambda S: tskit.LdCalculator(S.ts).r2_matrix().shape)
    reg("ts.ld_matrix", ["sample_sets", "sites", "sites", "mode"], lambda S, ss, a, b, m: S.ts.ld_matrix(
        sample_sets=ss or None, sites=[a, b] if (a or b) else None, mode=m or "site").shape)
    reg("ts.ld_matrix_pos", ["pos", "pos", "small"], lambda S, a, b, k: S.ts.ld_matrix(
        mode="branch", positions=[[a], [b]], stat=["r2", "D", "D_prime", "pi2", "bogus"][abs(k) % 5]).shape)
    reg("ts.link_ancestors", ["samples", "nodes"], lambda S, sm, an: S.ts.dump_tables().link_ancestors(sm, an).num_rows)
    return C


def _tables_calls():
    import numpy as np
    import tskit

    C = {}

    def reg(name, kinds, fn):
        C[name] = (kinds, fn)

    TABLES = ["nodes", "edges", "sites", "mutations", "migrations", "individuals", "populations", "provenances"]

    def tab(S, k):
        return getattr(S.t, TABLES[abs(k) % len(TABLES)])

    reg("t.tree_sequence", [], lambda S: S.t.tree_sequence().num_trees)
    reg("t.sort", ["edge", "site", "mut"], lambda S, a, b, c: S.t.sort(edge_start=a, site_start=b, mutation_start=c))
    reg("t.sort0", [], lambda S: S.t.sort())
    reg("t.build_index", [], lambda S: S.t.build_index())
    reg("t.drop_index", [], lambda S: S.t.drop_index())
    reg("t.canonicalise", ["bool"], lambda S, r: S.t.canonicalise(remove_unreferenced=r))
    reg("t.sort_individuals", [], lambda S: S.t.sort_individuals())
    reg("t.compute_mutation_parents", [], lambda S: S.t.compute_mutation_parents())
    reg("t.compute_mutation_times", [], lambda S: S.t.compute_mutation_times())
    reg("t.deduplicate_sites", [], lambda S: S.t.deduplicate_sites())
    reg("t.simplify", ["samples_or_none", "bool", "bool", "bool"], lambda S, sm, a, b, c: S.t.simplify(
        sm, keep_unary=a, filter_nodes=b, keep_input_roots=c))
    reg("t.subset", ["nodes", "bool", "bool"], lambda S, nd, a, b: S.t.subset(nd, reorder_populations=a, remove_unreferenced=b))
    reg("t.union", ["node_mapping", "bool"], lambda S, nm, a: S.t.union(S.t.copy(), nm, check_shared_equality=a))
    reg("t.delete_older", ["time"], lambda S, x: S.t.delete_older(x))
    reg("t.delete_sites", ["sites"], lambda S, ids: S.t.delete_sites(ids))
    reg("t.keep_intervals", ["intervals", "bool"], lambda S, iv, s: S.t.keep_intervals(iv, simplify=s))
    reg("t.delete_intervals", ["intervals", "bool"], lambda S, iv, s: S.t.delete_intervals(iv, simplify=s))
    reg("t.trim", ["small"], lambda S, k: [S.t.trim, S.t.ltrim, S.t.rtrim][abs(k) % 3]())
    reg("t.ibd_segments", ["samples_or_none", "sample_sets", "span", "time", "bool"], lambda S, wi, be, ms, mt, sg:
        S.use_ibd(S.t.ibd_segments(within=wi, between=be or None, min_span=ms, max_time=mt, store_segments=sg, store_pairs=True)))
    reg("t.link_ancestors", ["nodes", "nodes"], lambda S, a, b: S.t.link_ancestors(a, b).num_rows)
    reg("t.clear", ["bool", "bool"], lambda S, a, b: S.t.clear(clear_provenance=a, clear_metadata_schemas=b))
    reg("t.copy_equals", ["bool", "bool"], lambda S, a, b: S.t.equals(S.t.copy(), ignore_metadata=a, ignore_provenance=b))
    reg("t.asdict_fromdict", [], lambda S: tskit.TableCollection.fromdict(S.t.asdict()).num_tables if hasattr(tskit.TableCollection, "num_tables") else tskit.TableCollection.fromdict(S.t.asdict()).nodes.num_rows)
    reg("t.str", [], lambda S: len(str(S.t)))
    reg("t.edges.squash", [], lambda S: S.t.edges.squash())
    reg("t.set_sequence_length", ["span"], lambda S, x: setattr(S.t, "sequence_length", x))

    def set_indexes(S, a, b):
        S.t.indexes = tskit.TableCollectionIndexes(np.array(a, dtype=np.int32), np.array(b, dtype=np.int32))

    reg("t.set_indexes", ["nodes", "nodes"], set_indexes)

    def set_indexes_then_use(S, a, b, which):
        set_indexes(S, a, b)
        [S.t.tree_sequence, S.t.compute_mutation_parents, S.t.compute_mutation_times,
         lambda: S.t.simplify()][abs(which) % 4]()

    reg("t.set_indexes_then_use", ["edge_perm", "edge_perm", "small"], set_indexes_then_use)
    # generic table operations
    reg("table.getitem", ["small", "node"], lambda S, k, i: tab(S, k)[i])
    reg("table.getslice", ["small", "small", "small"], lambda S, k, a, b: len(tab(S, k)[a:b]))
    reg("table.getids", ["small", "nodes"], lambda S, k, ids: len(tab(S, k)[np.array(ids, dtype=np.int64)]) if ids else 0)
    reg("table.truncate", ["small", "rows"], lambda S, k, r: tab(S, k).truncate(r))
    reg("table.truncate_bad", ["small", "small"], lambda S, k, r: tab(S, k).truncate(r))
    reg("table.clear", ["small"], lambda S, k: tab(S, k).clear())
    reg("table.copy_append", ["small"], lambda S, k: tab(S, k).append_columns(**{c: v for c, v in tab(S, k).asdict().items() if c != "metadata_schema"}))
    reg("table.keep_rows", ["small", "mask_sites"], lambda S, k, m: tab(S, k).keep_rows(m))
    reg("table.keep_rows_fit", ["small", "small"], lambda S, k, r: tab(S, k).keep_rows(
        [(j * 7 + abs(r)) % 3 != 0 for j in range(tab(S, k).num_rows)]))
    reg("table.setitem", ["small", "node", "node"], lambda S, k, i, j: tab(S, k).__setitem__(i, tab(S, k)[j]))
    reg("table.drop_metadata", ["small", "bool"], lambda S, k, b: tab(S, k).drop_metadata(keep_schema=b) if abs(k) % 8 != 7 else None)
    reg("table.str", ["small"], lambda S, k: len(str(tab(S, k))))

    def ragged(S, rows, how, data=b"abcdef"):
        base = [min(len(data), j) for j in range(rows + 1)]
        if rows >= 0:
            base[-1] = len(data)
        off = np.array(base, dtype=np.uint64)
        if how == "decreasing" and rows >= 2:
            off[1] = off[-1]
            off[2 if rows >= 2 else 1] = 0
        elif how == "too_long":
            off = np.append(off, off[-1])
        elif how == "short":
            off = off[:-1]
        elif how == "nonzero_start":
            off[0] = 1
        elif how == "overflow":
            off[-1] = len(data) + 5
        elif how == "neg":
            off = off.astype(np.int64)
            off[0] = -1
        elif how == "wrap32" and rows >= 2:
            off[1] = 2**32 + 1  # decreasing afterwards, but not in the low 32 bits
        elif how == "wrap32_mid" and rows >= 2:
            off[rows // 2 + (1 if rows // 2 == 0 else 0)] += 2**32
        elif how == "wrap32_last" and rows >= 1:
            off[-1] += 2**32
        elif how == "huge" and rows >= 2:
            off[1] = 2**63
        return np.frombuffer(data, dtype=np.int8), off

    def nodes_set(S, rows, how, append):
        md, off = ragged(S, rows, how)
        f = S.t.nodes.append_columns if append else S.t.nodes.set_columns
        f(flags=np.ones(rows, dtype=np.uint32), time=np.zeros(rows), population=np.full(rows, -1, dtype=np.int32),
          individual=np.full(rows, -1, dtype=np.int32), metadata=md, metadata_offset=off)

    reg("nodes.set_columns", ["rows", "offsets", "bool"], nodes_set)

    def sites_set(S, rows, how, how2):
        a, ao = ragged(S, rows, how)
        m, mo = ragged(S, rows, how2, b"xyzw")
        S.t.sites.set_columns(position=np.arange(rows, dtype=float), ancestral_state=a, ancestral_state_offset=ao,
                              metadata=m, metadata_offset=mo)

    reg("sites.set_columns", ["rows", "offsets", "offsets"], sites_set)

    def muts_set(S, rows, how, wrong):
        d, do = ragged(S, rows, how)
        S.t.mutations.set_columns(site=np.zeros(rows + (1 if wrong else 0), dtype=np.int32), node=np.zeros(rows, dtype=np.int32),
                                  derived_state=d, derived_state_offset=do, parent=np.full(rows, -1, dtype=np.int32))

    reg("mutations.set_columns", ["rows", "offsets", "bool"], muts_set)

    def inds_set(S, rows, how, how2):
        loc_off = ragged(S, rows, how)[1]
        par_off = ragged(S, rows, how2)[1]
        S.t.individuals.set_columns(flags=np.zeros(rows, dtype=np.uint32), location=np.arange(6, dtype=float),
                                    location_offset=loc_off, parents=np.full(6, -1, dtype=np.int32), parents_offset=par_off)

    reg("individuals.set_columns", ["rows", "offsets", "offsets"], inds_set)

    def edges_set(S, rows, wrong, how):
        md, off = ragged(S, rows, how)
        S.t.edges.set_columns(left=np.zeros(rows), right=np.ones(rows + (1 if wrong else 0)), parent=np.zeros(rows, dtype=np.int32),
                              child=np.zeros(rows, dtype=np.int32), metadata=md, metadata_offset=off)

    reg("edges.set_columns", ["rows", "bool", "offsets"], edges_set)

    def prov_set(S, rows, how, how2):
        a, ao = ragged(S, rows, how)
        b, bo = ragged(S, rows, how2)
        S.t.provenances.set_columns(timestamp=a, timestamp_offset=ao, record=b, record_offset=bo)

    reg("provenances.set_columns", ["rows", "offsets", "offsets"], prov_set)
    reg("nodes.add_row", ["small", "time", "pop", "ind"], lambda S, f, t, p, i: S.t.nodes.add_row(flags=f & 0xFFFFFFFF if f >= 0 else f, time=t, population=p, individual=i))
    reg("edges.add_row", ["pos", "pos", "node", "node"], lambda S, l, r, p, c: S.t.edges.add_row(l, r, p, c))
    reg("sites.add_row", ["pos"], lambda S, x: S.t.sites.add_row(x, "A"))
    reg("mutations.add_row", ["site", "node", "mut", "time"], lambda S, s, u, p, t: S.t.mutations.add_row(s, u, "T", parent=p, time=t))
    reg("migrations.add_row", ["pos", "pos", "node", "pop", "pop", "time"], lambda S, l, r, u, a, b, t: S.t.migrations.add_row(l, r, u, a, b, t))
    reg("individuals.add_row", ["small", "inds"], lambda S, f, par: S.t.individuals.add_row(flags=abs(f) % 2**32, location=[0.5], parents=par))
    reg("nodes.packset_metadata", ["rows"], lambda S, r: S.t.nodes.packset_metadata([b"x" * j for j in range(r)]))
    reg("sites.packset_ancestral_state", ["rows"], lambda S, r: S.t.sites.packset_ancestral_state(["A" * j for j in range(r)]))
    reg("nodes.column_assign", ["rows"], lambda S, r: setattr(S.t.nodes, "time", np.zeros(r)))
    reg("edges.column_assign", ["rows"], lambda S, r: setattr(S.t.edges, "parent", np.zeros(r, dtype=np.int32)))

    def fromdict_damaged(S, which, how):
        d = S.t.asdict()
        tn = TABLES[abs(which) % len(TABLES)]
        td = dict(d[tn])
        cols = sorted(k for k in td if k != "metadata_schema")
        col = cols[abs(which // 8) % len(cols)]
        v = td[col]
        h = abs(how) % 6
        if h == 0:
            td[col] = v[:-1] if len(v) else np.append(v, 0)
        elif h == 1:
            td[col] = np.append(v, v[-1:] if len(v) else 0)
        elif h == 2:
            td[col] = v.astype(np.float32 if v.dtype.kind != "f" else np.int64)
        elif h == 3:
            td[col] = None
        elif h == 4:
            td[col] = v[::-1].copy()
        else:
            del td[col]
        d[tn] = td
        return tskit.TableCollection.fromdict(d).nodes.num_rows

    reg("t.fromdict_damaged", ["small", "small"], fromdict_damaged)
    return C


class State:
    def __init__(self, tskit, obj_kind, obj):
        self.tskit = tskit
        self.kind = obj_kind
        self.ts = obj if obj_kind == "ts" else None
        self.t = obj if obj_kind == "tables" else None
        self.tree = tskit.Tree(self.ts) if self.ts is not None else None
        if self.tree is not None and self.ts.num_trees:
            self.tree.first()
        self.variant = tskit.Variant(self.ts) if self.ts is not None else None
        self.ibd = None

    def set_tree(self, t):
        self.tree = t

    def set_variant(self, v):
        self.variant = v

    def use_ibd(self, res):
        """Read everything an IdentitySegments object exposes."""
        out = [res.num_segments, res.total_span, str(res)]
        try:
            out.append(res.num_pairs)
            for pair in list(res.pairs)[:5]:
                lst = res[tuple(pair)]
                out.append((len(lst), lst.total_span))
                try:
                    out.append((lst.left.sum(), lst.right.sum(), lst.node.sum()))
                    _consume(iter(lst))
                except self.tskit.IdentitySegmentsNotStoredError:
                    pass
            try:
                res[(0, 2**31 - 1)]
            except (KeyError, ValueError, self.tskit.LibraryError, OverflowError):
                pass
        except self.tskit.IdentityPairsNotStoredError:
            pass
        return len(out)


_CATALOGUE = {}


def catalogue(kind):
    if kind not in _CATALOGUE:
        _CATALOGUE[kind] = _ts_calls() if kind == "ts" else _tables_calls()
    return _CATALOGUE[kind]


# kinds only (no tskit import needed) for the strategy
def _kinds_table(kind):
    # computed lazily inside the worker (tskit importable there as well)
    return {k: v[0] for k, v in catalogue(kind).items()}


@st.composite
def ts_program(draw):
    spec = draw(gen.ts_spec(max_nodes=8, max_sites=4, max_intervals=3, alphabet=("A", "C", "G", "T")))
    z = Sizes(spec)
    kt = _kinds_table("ts")
    names = sorted(kt)
    ncalls = draw(st.integers(1, 10))
    calls = []
    for _ in range(ncalls):
        nm = draw(st.sampled_from(names))
        calls.append([nm, [draw_arg(draw, k, z) for k in kt[nm]]])
    return dict(kind="ts", spec=spec, calls=calls)


@st.composite
def tables_program(draw):
    import copy

    spec = draw(gen.ts_spec(max_nodes=7, max_sites=3, max_intervals=3))
    spec = copy.deepcopy(spec)
    nops = draw(st.sampled_from([0, 0, 1, 2, 3]))
    for _ in range(nops):
        name = draw(st.sampled_from(c02._OPNAMES))
        a, b = draw(st.integers(0, 1000)), draw(st.integers(0, 63))
        backup = copy.deepcopy(spec)
        try:
            ok = c02.OPMAP[name](spec, a, b)
        except (IndexError, TypeError, ValueError, KeyError):
            ok = False
        if not ok:
            spec = backup
    spec.pop("_index", None)
    if draw(st.integers(0, 2)) == 0 and len(spec["edges"]) > 1:
        spec["edges"] = list(draw(st.permutations(spec["edges"])))
    z = Sizes(spec)
    kt = _kinds_table("tables")
    names = sorted(kt)
    calls = []
    for _ in range(draw(st.integers(1, 10))):
        nm = draw(st.sampled_from(names))
        calls.append([nm, [draw_arg(draw, k, z) for k in kt[nm]]])
    return dict(kind="tables", spec=spec, calls=calls, index=draw(st.booleans()))


def run_program(case, ctx):
    import tskit

    spec = case["spec"]
    kind = case["kind"]
    if kind == "ts":
        obj = gen.build_tables(spec, tskit).tree_sequence()
        snap = obj.dump_tables()
    else:
        try:
            obj = gen.build_tables(spec, tskit, index=False)
        except (ValueError, OverflowError, TypeError):
            ctx.label("unbuildable")
            return
        if case.get("index"):
            try:
                obj.build_index()
            except tskit.LibraryError:
                pass
    S = State(tskit, kind, obj)
    cat = catalogue(kind)
    boundary = False
    for nm, args in case["calls"]:
        kinds, fn = cat[nm]
        args = [_f(a) for a in args]
        try:
            fn(S, *args)
            ctx.notes["ret:" + nm] = ctx.notes.get("ret:" + nm, 0) + 1
        except (SystemError, MemoryError) as e:
            ctx.notes[f"anomaly:{type(e).__name__}:{nm}"] = ctx.notes.get(f"anomaly:{type(e).__name__}:{nm}", 0) + 1
        except RecursionError:
            ctx.notes["recursion:" + nm] = ctx.notes.get("recursion:" + nm, 0) + 1
        except Exception as e:  # noqa: BLE001 - the contract of C09 is "returns or raises a Python exception"
            key = f"exc:{nm}:{type(e).__name__}"
            ctx.notes[key] = ctx.notes.get(key, 0) + 1
        boundary = True
    ctx.nt(boundary)
    ctx.label(kind)
    # epilogue: use the object again so that latent corruption surfaces
    if kind == "ts":
        ts = S.ts
        for tree in ts.trees(sample_lists=True):
            for u in tree.nodes():
                tree.num_samples(u)
            list(tree.samples())
        for v in ts.variants():
            v.genotypes.sum()
        ctx.check(ts.tables.equals(snap), "ts_changed", "tree sequence tables changed by a program of read-only calls")
        path = os.path.join(os.environ.get("VF_SCRATCH", "."), "c09.trees")
        ts.dump(path)
        tskit.load(path)
        os.unlink(path)
    else:
        t = S.t
        for name in ("nodes", "edges", "sites", "mutations", "migrations", "individuals", "populations", "provenances"):
            tb = getattr(t, name)
            for j in range(tb.num_rows):
                tb[j]
            str(tb)
        path = os.path.join(os.environ.get("VF_SCRATCH", "."), "c09.tables")
        try:
            t.dump(path)
            t2 = tskit.TableCollection.load(path)
            if t.sequence_length == t.sequence_length:  # equals() compares a NaN length with ==
                ctx.check(t2.equals(t), "dump_load", "table collection does not reload equal after the program")
        except tskit.LibraryError:
            pass
        finally:
            if os.path.exists(path):
                os.unlink(path)
        try:
            ts = t.tree_sequence()
            for tree in ts.trees():
                tree.num_edges
            for v in ts.variants():
                v.genotypes.sum()
        except (tskit.LibraryError, ValueError):
            pass


# ------------------------------------------------------------------ id == row count must be rejected
def boundary_points(tskit, ts, t):
    """(name, callable) for the API points documented to reject out-of-range ids; each is called
    with id == number of rows of the table it refers to."""
    import numpy as np

    n, E, Sx, M = ts.num_nodes, ts.num_edges, ts.num_sites, ts.num_mutations
    I, P, G = ts.num_individuals, ts.num_populations, ts.num_migrations
    smp = list(ts.samples())
    pts = [
        ("ts.node(n)", lambda: ts.node(n)),
        ("ts.edge(E)", lambda: ts.edge(E)),
        ("ts.site(S)", lambda: ts.site(Sx)),
        ("ts.mutation(M)", lambda: ts.mutation(M)),
        ("ts.individual(I)", lambda: ts.individual(I)),
        ("ts.population(P)", lambda: ts.population(P)),
        ("ts.migration(G)", lambda: ts.migration(G)),
        ("tables.nodes[n]", lambda: t.nodes[n]),
        ("tables.edges[E]", lambda: t.edges[E]),
        ("tables.sites[S]", lambda: t.sites[Sx]),
        ("tables.mutations[M]", lambda: t.mutations[M]),
        ("tables.individuals[I]", lambda: t.individuals[I]),
        ("tables.populations[P]", lambda: t.populations[P]),
        ("tables.migrations[G]", lambda: t.migrations[G]),
        ("simplify(samples=[n])", lambda: ts.simplify([n])),
        ("simplify(samples=smp+[n])", lambda: ts.simplify(smp + [n])),
        ("subset([n])", lambda: ts.subset([n])),
        ("tables.subset([0..,n])", lambda: t.copy().subset(list(range(n)) + [n])),
        ("ibd_segments(within=[0,n])", lambda: ts.ibd_segments(within=[0, n] if n else [n])),
        ("ibd_segments(between=[[0],[n]])", lambda: ts.ibd_segments(between=[[0], [n]] if n else [[n], []])),
        ("tables.ibd_segments(within=[n])", lambda: t.ibd_segments(within=[n])),
        ("link_ancestors(samples=[n])", lambda: t.link_ancestors([n], [0] if n else [])),
        ("link_ancestors(ancestors=[n])", lambda: t.link_ancestors(smp[:1], [n])),
        ("variants(samples=[n])", lambda: list(ts.variants(samples=[n]))),
        ("Variant(samples=[n])", lambda: tskit.Variant(ts, samples=[n]).decode(0) if Sx else (_ for _ in ()).throw(ValueError("no sites"))),
        ("genotype_matrix(samples=[n])", lambda: ts.genotype_matrix(samples=[n])),
        ("Variant.decode(S)", lambda: tskit.Variant(ts).decode(Sx)),
        ("Tree(tracked_samples=[n])", lambda: tskit.Tree(ts, tracked_samples=[n])),
        ("tree.parent(n+1)", lambda: ts.first().parent(n + 1)),
        ("tree.num_samples(n+1)", lambda: ts.first().num_samples(n + 1)),
        ("tree.mrca(0,n+1)", lambda: ts.first().mrca(0, n + 1)),
        ("tree.is_descendant(n+1,0)", lambda: ts.first().is_descendant(n + 1, 0)),
        ("tree.children(n+1)", lambda: ts.first().children(n + 1)),
        ("tree.depth(n+1)", lambda: ts.first().depth(n + 1)),
        ("tree.time(n+1)", lambda: ts.first().time(n + 1)),
        ("tree.preorder(n+1)", lambda: ts.first().preorder(n + 1)),
        ("tree.as_newick(root=n+1)", lambda: ts.first().as_newick(root=n + 1)),
        ("at_index(T)", lambda: ts.at_index(ts.num_trees)),
        ("genealogical_nearest_neighbours(focal=[n])", lambda: ts.genealogical_nearest_neighbours([n], [smp] if smp else [[0]])),
        ("genealogical_nearest_neighbours(sets=[[n]])", lambda: ts.genealogical_nearest_neighbours(smp[:1] or [0], [[n]])),
        ("mean_descendants([[n]])", lambda: ts.mean_descendants([[n]])),
        ("diversity([[n]])", lambda: ts.diversity([[n]])),
        ("divergence([[0],[n]])", lambda: ts.divergence([smp[:1] or [0], [n]])),
        ("allele_frequency_spectrum([[n]])", lambda: ts.allele_frequency_spectrum([[n]])),
        ("divergence_matrix([[n]])", lambda: ts.divergence_matrix([[n]])),
        ("divergence_matrix(ids=[n])", lambda: ts.divergence_matrix([n])),
        ("pair_coalescence_counts([[n],[0]])", lambda: ts.pair_coalescence_counts([[n], smp[:1] or [0]])),
        ("genetic_relatedness_vector(nodes=[n])", lambda: ts.genetic_relatedness_vector(
            np.ones((len(smp), 1)), mode="branch", centre=False, nodes=[n])),
        ("count_topologies([[n]])", lambda: ts.first().count_topologies([[n]])),
        ("ld.r2(0,S)", lambda: tskit.LdCalculator(ts).r2(0, Sx)),
        ("ld.r2_array(S)", lambda: tskit.LdCalculator(ts).r2_array(Sx)),
        ("ld_matrix(sites=[[S],[0]])", lambda: ts.ld_matrix(sites=[[Sx], [0]])),
        ("delete_sites([S])", lambda: ts.delete_sites([Sx])),
        ("union(node_mapping=[n..])", lambda: ts.union(ts, [n] * n) if n else (_ for _ in ()).throw(ValueError("empty"))),
        ("split_edges(population=P)", lambda: ts.split_edges(0.5, population=P)),
        ("sort(edge_start=E+1)", lambda: t.copy().sort(edge_start=E + 1)),
        ("indexes(removal has 2^30).tree_sequence", lambda: _with_index(tskit, t, E, None, 2**30).tree_sequence()),
        ("indexes(insertion has 2^30).tree_sequence", lambda: _with_index(tskit, t, E, 2**30, None).tree_sequence()),
        ("indexes(removal has 2^30).compute_mutation_parents", lambda: _with_index(tskit, t, E, None, 2**30).compute_mutation_parents()),
        ("f4(indexes=[(0,1,2,4)])", lambda: ts.f4([smp[:1] or [0]] * 4, indexes=[(0, 1, 2, 4)])),
        ("f4(indexes=[(0,1,2,2^31-1)])", lambda: ts.f4([smp[:1] or [0]] * 4, indexes=[(0, 1, 2, 2**31 - 1)])),
        ("f3(indexes=[(0,1,3)])", lambda: ts.f3([smp[:1] or [0]] * 3, indexes=[(0, 1, 3)])),
        ("f2(indexes=[(0,2)])", lambda: ts.f2([smp[:1] or [0]] * 2, indexes=[(0, 2)])),
        ("Y3(indexes=[(0,1,-1)])", lambda: ts.Y3([smp[:1] or [0]] * 3, indexes=[(0, 1, -1)])),
        ("divergence(indexes=[(0,2^31-1)])", lambda: ts.divergence([smp[:1] or [0]] * 2, indexes=[(0, 2**31 - 1)])),
        # negative identifiers in id lists are out of range like any other
        ("simplify(samples=[-1])", lambda: ts.simplify([-1])),
        ("subset([-1])", lambda: ts.subset([-1])),
        ("tables.subset([-1], remove_unreferenced=False)", lambda: t.copy().subset([-1], remove_unreferenced=False)),
        ("tables.subset([0..,n], remove_unreferenced=False)", lambda: t.copy().subset(list(range(n)) + [n], remove_unreferenced=False)),
        ("ibd_segments(within=[-1])", lambda: ts.ibd_segments(within=[-1])),
        ("ibd_segments(between=[[-1],[0]])", lambda: ts.ibd_segments(between=[[-1], [0]])),
        ("link_ancestors(samples=[-1])", lambda: t.link_ancestors([-1], [0])),
        ("variants(samples=[-1])", lambda: list(ts.variants(samples=[-1]))),
        ("genotype_matrix(samples=[-2])", lambda: ts.genotype_matrix(samples=[-2])),
        ("Tree(tracked_samples=[-1])", lambda: tskit.Tree(ts, tracked_samples=[-1])),
        ("genealogical_nearest_neighbours(focal=[-1])", lambda: ts.genealogical_nearest_neighbours([-1], [smp] if smp else [[0]])),
        ("mean_descendants([[-1]])", lambda: ts.mean_descendants([[-1]])),
        ("diversity([[-1]])", lambda: ts.diversity([[-1]])),
        ("divergence_matrix(ids=[-1])", lambda: ts.divergence_matrix([-1])),
        ("count_topologies([[-1]])", lambda: ts.first().count_topologies([[-1]])),
        ("ld_matrix(sites=[[-1],[0]])", lambda: ts.ld_matrix(sites=[[-1], [0]])),
        ("ld_matrix(sites=[[0],[-1]])", lambda: ts.ld_matrix(sites=[[0], [-1]])),
        ("ld_matrix(sites=[[-2147483648],[0]])", lambda: ts.ld_matrix(sites=[[-(2**31)], [0]])),
        ("ld.r2(-1,0)", lambda: tskit.LdCalculator(ts).r2(-1, 0)),
        ("Variant.decode(-1)", lambda: tskit.Variant(ts).decode(-1)),
        ("genetic_relatedness_vector(nodes=[-1])", lambda: ts.genetic_relatedness_vector(
            np.ones((len(smp), 1)), mode="branch", centre=False, nodes=[-1])),
        ("union(node_mapping=[-2..])", lambda: ts.union(ts, [-2] * n) if n else (_ for _ in ()).throw(ValueError("empty"))),
        ("nodes.truncate(n+1)", lambda: t.copy().nodes.truncate(n + 1)),
    ]
    # huge identifiers that alias a valid id modulo 2^32 (or 2^64) must be rejected, not truncated
    for H, hn in ((2**32, "2^32"), (-(2**32), "-2^32"), (2**64, "2^64"), (2**32 + 2**31, "2^32+2^31")):
        tr = ts.first()
        pts += [
            (f"tree.parent({hn})", lambda H=H: tr.parent(H)),
            (f"tree.left_child({hn})", lambda H=H: tr.left_child(H)),
            (f"tree.right_sib({hn})", lambda H=H: tr.right_sib(H)),
            (f"tree.num_samples({hn})", lambda H=H: tr.num_samples(H)),
            (f"tree.num_tracked_samples({hn})", lambda H=H: tr.num_tracked_samples(H)),
            (f"tree.time({hn})", lambda H=H: tr.time(H)),
            (f"tree.depth({hn})", lambda H=H: tr.depth(H)),
            (f"tree.branch_length({hn})", lambda H=H: tr.branch_length(H)),
            (f"tree.is_sample({hn})", lambda H=H: tr.is_sample(H)),
            (f"tree.children({hn})", lambda H=H: tr.children(H)),
            (f"tree.edge({hn})", lambda H=H: tr.edge(H)),
            (f"tree.mrca({hn},0)", lambda H=H: tr.mrca(H, 0)),
            (f"tree.mrca(0,{hn})", lambda H=H: tr.mrca(0, H)),
            (f"tree.is_descendant({hn},0)", lambda H=H: tr.is_descendant(H, 0)),
            (f"tree.is_descendant(0,{hn})", lambda H=H: tr.is_descendant(0, H)),
            (f"tree.preorder({hn})", lambda H=H: tr.preorder(H)),
            (f"tree.samples({hn})", lambda H=H: list(tr.samples(H))),
            (f"tree.as_newick(root={hn})", lambda H=H: tr.as_newick(root=H)),
            (f"ts.node({hn})", lambda H=H: ts.node(H)),
            (f"ts.edge({hn})", lambda H=H: ts.edge(H)),
            (f"ts.site({hn})", lambda H=H: ts.site(H)),
            (f"ts.mutation({hn})", lambda H=H: ts.mutation(H)),
            (f"tables.nodes[{hn}]", lambda H=H: t.nodes[H]),
            (f"tables.edges[{hn}]", lambda H=H: t.edges[H]),
            (f"at_index({hn})", lambda H=H: ts.at_index(H)),
            (f"seek_index({hn})", lambda H=H: tskit.Tree(ts).seek_index(H)),
            (f"Variant.decode({hn})", lambda H=H: tskit.Variant(ts).decode(H)),
            (f"ld.r2({hn},0)", lambda H=H: tskit.LdCalculator(ts).r2(H, 0)),
            (f"ld.r2(0,{hn})", lambda H=H: tskit.LdCalculator(ts).r2(0, H)),
            (f"ld.r2_array({hn})", lambda H=H: tskit.LdCalculator(ts).r2_array(H)),
            (f"simplify([{hn}])", lambda H=H: ts.simplify([H])),
            (f"subset([{hn}])", lambda H=H: ts.subset([H])),
            (f"variants(samples=[{hn}])", lambda H=H: list(ts.variants(samples=[H]))),
            (f"Tree(tracked_samples=[{hn}])", lambda H=H: tskit.Tree(ts, tracked_samples=[H])),
            (f"diversity([[{hn}]])", lambda H=H: ts.diversity([[H]])),
            (f"delete_sites([{hn}])", lambda H=H: ts.delete_sites([H])),
            (f"ibd_segments(within=[{hn}])", lambda H=H: ts.ibd_segments(within=[H])),
        ]
    return pts


def _with_index(tskit, t, E, bad_ins, bad_rem):
    import numpy as np

    t2 = t.copy()
    if E == 0:
        raise ValueError("no edges")
    ins = t2.indexes.edge_insertion_order.copy()
    rem = t2.indexes.edge_removal_order.copy()
    if bad_ins is not None:
        ins[-1] = bad_ins
    if bad_rem is not None:
        rem[-1] = bad_rem
    t2.indexes = tskit.TableCollectionIndexes(ins.astype(np.int32), rem.astype(np.int32))
    return t2


@st.composite
def boundary_case(draw):
    return dict(spec=draw(gen.ts_spec(max_nodes=8, max_sites=4, max_intervals=3, min_nodes=2)))


def run_boundary(case, ctx):
    import tskit

    spec = case["spec"]
    t = gen.build_tables(spec, tskit)
    ts = t.tree_sequence()
    ctx.nt(ts.num_edges > 0)
    for name, fn in boundary_points(tskit, ts, t):
        try:
            fn()
        except Exception as e:  # noqa: BLE001 - any Python exception is the documented rejection
            ctx.notes["rejected:" + type(e).__name__] = ctx.notes.get("rejected:" + type(e).__name__, 0) + 1
            continue
        ctx.fail("boundary_id_accepted", f"{name}: an identifier equal to the row count was accepted "
                 f"(nodes={ts.num_nodes} edges={ts.num_edges} sites={ts.num_sites} mutations={ts.num_mutations})")


# ------------------------------------------------------------------ size regimes no generated program reaches
BIG_TABLES = ("nodes", "edges", "sites", "mutations", "migrations", "individuals", "populations", "provenances")


def enum_big(tier, seed):
    counts = [32766, 32767, 32768, 40000, 65535, 65536, 70000]
    for n in (counts if tier != "quick" else [32767, 32768, 40000, 65536]):
        for op in ("gnn", "mean_descendants", "sample_count_stat"):
            yield dict(op=op, nsets=n)
    rows = 2_200_000
    for tb in (BIG_TABLES if tier != "quick" else ("nodes", "edges", "mutations", "individuals")):
        for how in (("set", "append", "set_copy", "set_extend") if tier != "quick" else ("set_append", "copy_extend")):
            yield dict(op="grow", table=tb, rows=rows, how=how)
    # big genealogies through the algorithms with block allocators / growable queues
    for shape in ("twostar800", "stagger700", "alternating1100", "manytrees600", "comb300", "star5000"):
        yield dict(op="big_shape", shape=shape)
    # one call that grows a ragged column by more than 100 MiB (and one that crosses 65536 bytes)
    for tb, col in (RAGGED_BIG if tier != "quick" else RAGGED_BIG[:2]):
        yield dict(op="ragged", table=tb, col=col, nrows=11, width=10_000_000)
        yield dict(op="ragged", table=tb, col=col, nrows=3, width=30_000)


RAGGED_BIG = [("nodes", "metadata"), ("sites", "ancestral_state"), ("mutations", "derived_state"),
              ("edges", "metadata"), ("migrations", "metadata"), ("individuals", "metadata"),
              ("populations", "metadata"), ("provenances", "record")]


def _ragged_columns(np, name, col, nrows, width):
    """nrows rows whose ragged column `col` holds `width` bytes each; every other column minimal."""
    cols = _big_columns(np, name, nrows)
    data = (np.arange(nrows * width, dtype=np.uint32) % 251).astype(np.int8)
    off = np.arange(nrows + 1, dtype=np.uint64) * width
    if name == "individuals":
        cols["location"] = np.zeros(0)
        cols["location_offset"] = np.zeros(nrows + 1, dtype=np.uint64)
    cols[col] = data
    cols[col + "_offset"] = off
    return cols, data


def _big_columns(np, name, n):
    z32 = np.zeros(n, dtype=np.int32)
    off = np.arange(n + 1, dtype=np.uint64)
    ch = np.full(n, 65, dtype=np.int8)
    ar = np.arange(n, dtype=np.float64)
    if name == "nodes":
        return dict(flags=np.ones(n, dtype=np.uint32), time=ar, population=z32 - 1, individual=z32 - 1)
    if name == "edges":
        return dict(left=np.zeros(n), right=np.ones(n), parent=z32 + 1, child=z32)
    if name == "sites":
        return dict(position=ar, ancestral_state=ch, ancestral_state_offset=off)
    if name == "mutations":
        return dict(site=z32, node=z32, derived_state=ch, derived_state_offset=off, parent=z32 - 1, time=ar)
    if name == "migrations":
        return dict(left=np.zeros(n), right=np.ones(n), node=z32, source=z32, dest=z32 + 1, time=ar)
    if name == "individuals":
        return dict(flags=np.arange(n, dtype=np.uint32), location=ar, location_offset=off)
    if name == "populations":
        return dict(metadata=ch, metadata_offset=off)
    return dict(timestamp=ch, timestamp_offset=off, record=ch, record_offset=off)


def run_big(case, ctx):
    """More than 2^15 / 2^16 reference or sample sets in one call; one call that grows a table by more than 2^21
    rows.  Oracle: a clean exception or the right answer (by comparison with the same call on the non-empty sets /
    the columns read back), under ASan."""
    import numpy as np
    import tskit

    ctx.nt(True)
    ctx.label(case["op"])
    if case["op"] == "big_shape":
        from . import _shapes as SH
        from .c01 import many_trees_spec

        sh = case["shape"]
        spec = {"twostar800": lambda: SH.two_tree_spec("twostar", "star", 800, internal_samples=False),
                "stagger700": lambda: SH.staggered_twostar(700),
                "alternating1100": lambda: SH.alternating_unary_spec(1100),
                "manytrees600": lambda: many_trees_spec(600, 1),
                "comb300": lambda: SH.shape_spec("comb", 300, internal_samples=True),
                "star5000": lambda: SH.shape_spec("star", 5000, internal_samples=False)}[sh]()
        tc = gen.build_tables(spec, tskit)
        ts = tc.tree_sequence()
        smp = list(ts.samples())
        ctx.label("big_shape:" + sh)

        def attempt(name, fn):
            try:
                fn()
                ctx.notes["ret:" + name] = 1
            except Exception as e:  # noqa: BLE001 - the contract of C09 is "returns or raises a Python exception"
                ctx.notes[f"exc:{name}:{type(e).__name__}"] = 1

        attempt("simplify", lambda: ts.simplify())
        attempt("simplify_half", lambda: ts.simplify(smp[::2], keep_unary=True))
        attempt("simplify_roots", lambda: ts.simplify(smp[: max(2, len(smp) // 3)], keep_input_roots=True, filter_nodes=False))
        internal = [u for u in range(ts.num_nodes) if u not in set(smp)]
        attempt("link_ancestors", lambda: tc.link_ancestors(smp, internal[: max(1, len(internal) // 2)]))
        attempt("link_ancestors_all", lambda: tc.link_ancestors(smp[:50], internal))
        attempt("ibd", lambda: ts.ibd_segments(within=smp[:300], store_segments=True))
        attempt("ibd_between", lambda: ts.ibd_segments(between=[smp[:100], smp[100:250]], store_pairs=True))
        attempt("extend", lambda: ts.extend_haplotypes(max_iter=2))
        attempt("genotypes", lambda: ts.genotype_matrix())
        attempt("divmat", lambda: ts.divergence_matrix(smp[:200]))
        attempt("gnn", lambda: ts.genealogical_nearest_neighbours(smp[:100], [smp[::2], smp[1::2]]))
        attempt("newick", lambda: [tr.as_newick(root=tr.root) for tr in ts.trees() if tr.num_roots == 1][:1])
        attempt("map_mutations", lambda: ts.first().map_mutations([j % 3 for j in range(len(smp))], ["A", "C", "G"]))
        attempt("sort", lambda: tc.copy().sort())
        attempt("canonicalise", lambda: tc.copy().canonicalise())
        attempt("subset", lambda: tc.copy().subset(list(range(0, ts.num_nodes, 2))))
        attempt("kc", lambda: ts.first(sample_lists=True).kc_distance(ts.last(sample_lists=True)))
        attempt("decapitate", lambda: ts.decapitate(0.5))
        attempt("keep_intervals", lambda: ts.keep_intervals([[0, ts.sequence_length / 3]]))
        return
    if case["op"] == "ragged":
        name, col, nrows, width = case["table"], case["col"], case["nrows"], case["width"]
        cols, data = _ragged_columns(np, name, col, nrows, width)
        tc = tskit.TableCollection(1.0)
        tb = getattr(tc, name)
        tb.set_columns(**cols)
        for reps in (1, 2, 3):
            if reps > 1:
                tb.append_columns(**cols)
            got = getattr(tb, col)
            off = getattr(tb, col + "_offset")
            ctx.check(tb.num_rows == reps * nrows and len(got) == reps * nrows * width, "ragged.size",
                      f"{name}.{col}: {tb.num_rows} rows / {len(got)} bytes after {reps} blocks")
            for r in range(reps):
                ctx.check(np.array_equal(got[r * nrows * width:(r + 1) * nrows * width], data), "ragged.column",
                          f"{name}.{col} block {r} of {reps}")
            ctx.check(np.array_equal(off, np.arange(reps * nrows + 1, dtype=np.uint64) * width), "ragged.offsets",
                      f"{name}.{col}_offset after {reps} blocks")
            del got
        t2 = tc.copy()
        ctx.check(np.array_equal(getattr(getattr(t2, name), col), getattr(tb, col)), "ragged.copy", f"{name}.{col}")
        return
    if case["op"] == "grow":
        n, name = case["rows"], case["table"]
        cols = _big_columns(np, name, n)
        tc = tskit.TableCollection(1.0)
        tb = getattr(tc, name)
        steps = case["how"].split("_")

        def same(table, reps):
            ctx.check(table.num_rows == reps * n, "grow.num_rows", f"{name}: {table.num_rows} rows, expected {reps * n}")
            for k, v in cols.items():
                got = getattr(table, k)
                if k.endswith("_offset"):
                    ctx.check(len(got) == reps * n + 1 and int(got[-1]) == reps * n and int(got[n]) == n
                              and bool((np.diff(got.astype(np.int64)) == 1).all()), "grow.offsets", f"{name}.{k}")
                else:
                    for r in range(reps):
                        ctx.check(np.array_equal(got[r * n:(r + 1) * n], v), "grow.column", f"{name}.{k} block {r}")

        reps = 0
        if "set" in steps or "copy" in steps or "extend" in steps:
            tb.set_columns(**cols)
            reps = 1
            same(tb, 1)
        if "append" in steps:
            tb.append_columns(**cols)
            reps += 1
            same(tb, reps)
        if "copy" in steps:
            t2 = tc.copy()
            same(getattr(t2, name), reps)
            del t2
        if "extend" in steps:
            t3 = tskit.TableCollection(1.0)
            getattr(t3, name).replace_with(tb)
            same(getattr(t3, name), reps)
            t4 = tb.copy()
            same(t4, reps)
            del t4
            getattr(t3, name).keep_rows(np.ones(reps * n, dtype=bool))
            same(getattr(t3, name), reps)
        return
    # ---- many sets
    K = case["nsets"]
    spec = dict(L=2.0, nodes=[[1, 0.0, -1, -1, ""]] * 6 + [[0, 1.0, -1, -1, ""], [0, 2.0, -1, -1, ""], [0, 3.0, -1, -1, ""]],
                edges=[[0.0, 2.0, 6, 0, ""], [0.0, 2.0, 6, 1, ""], [0.0, 2.0, 7, 2, ""], [0.0, 2.0, 7, 3, ""],
                       [0.0, 1.0, 8, 4, ""], [0.0, 2.0, 8, 5, ""], [0.0, 2.0, 8, 6, ""], [0.0, 2.0, 8, 7, ""]],
                sites=[[0.5, "A", ""]], mutations=[[0, 6, "T", -1, None, ""]], individuals=[], populations=[],
                migrations=[])
    ts = gen.build_tables(spec, tskit).tree_sequence()
    # non-empty sets sit at the far end of the list
    where = {K - 1: [0, 2], K - 2: [1, 4], K // 2 + 1: [3], 0: [5]}
    sets = [where.get(j, []) for j in range(K)]
    small_idx = sorted(where)
    small = [where[j] for j in small_idx]
    focal = [0, 1, 2, 3, 4, 5]
    try:
        if case["op"] == "gnn":
            big = ts.genealogical_nearest_neighbours(focal, sets)
            ref = ts.genealogical_nearest_neighbours(focal, small)
        elif case["op"] == "mean_descendants":
            big = ts.mean_descendants(sets)
            ref = ts.mean_descendants(small)
        else:
            one = [s if len(s) > 1 else [4, 5] for s in sets]
            big = ts.diversity(one, mode="branch")
            ref = ts.diversity([one[j] for j in small_idx] + [[4, 5]], mode="branch")
            ctx.close(big[small_idx], ref[:-1], "many_sets.diversity")
            ctx.close(np.delete(big, small_idx), np.full(K - len(small_idx), ref[-1]), "many_sets.diversity_filler")
            ctx.label("returned")
            return
    except (tskit.LibraryError, ValueError, MemoryError) as e:
        ctx.label("rejected")
        ctx.notes["rejected:" + type(e).__name__] = 1
        return
    ctx.label("returned")
    ctx.check(big.shape == (ref.shape[0], K), "many_sets.shape", f"{big.shape}")
    ctx.close(big[:, small_idx], ref, "many_sets." + case["op"])
    rest = np.delete(big, small_idx, axis=1)
    ctx.check(bool((rest == 0).all()), "many_sets.empty_set_columns", "a column of an empty reference set is not zero")


SUBCHECKS = [
    SubCheck("C09.ts_programs", run_program, strategy=ts_program, quick=3200, thorough=300000, flavour="asan",
             rule="every program reaches C code with generated (35% boundary) arguments; distinct by program text"),
    SubCheck("C09.tables_programs", run_program, strategy=tables_program, quick=3200, thorough=300000, flavour="asan",
             rule="idem on arbitrary (possibly invalid / unsorted / unindexed) table collections"),
    SubCheck("C09.boundary_ids", run_boundary, strategy=boundary_case, quick=320, thorough=8000, flavour="asan",
             rule="tree sequence with >=1 edge; every listed API point is called with id == row count, a negative id, or a huge id that aliases a valid one modulo 2^32 / 2^64"),
    SubCheck("C09.big_sizes", run_big, enumerate=enum_big, quick=1, thorough=1, flavour="asan", shards=8, hang_s=900,
             rule="calls with 32767..70000 reference / sample sets; one table call that grows a table by 2.2 million rows, or a ragged column by 110 MB"),
]
