"""C12 — metadata codecs decode what they encode and honour the schema."""
import copy
import json
import struct

from hypothesis import strategies as st

from ..core import SubCheck
from . import _c12_gen as G
from . import _c12_ref as R

META = dict(
    level="exploration",
    rule="Schemas are generated recursively (vf/props/_c12_gen.py): struct-codec objects with "
    "0-4 properties whose order is set by names and optional numeric `index` values (ties, "
    "negatives, fractions), every numeric/bool/char/string/pad format, strings in four encodings "
    "with and without nullTerminated, arrays with length prefix B/H/I/L/Q, fixed length (incl. 0) "
    "and exhaust-buffer arrays in last position, nested objects <=3 deep, defaults at every level, "
    "required given or implied, top level object|null; JSON-codec schemas with typed properties, "
    "required, additionalProperties (true/false/schema), top-level defaults, value constraints. "
    "Objects conforming by construction (values at the bounds of each format, strings shorter / "
    "equal / longer than their field) and one-defect non-conforming mutants. Oracle: an "
    "independent reference codec written from docs/metadata.md (vf/props/_c12_ref.py): bytes "
    "equal byte for byte, decode equals reference decode equals the object with defaults filled "
    "and the documented conversions applied; numpy structured view checked field by field; "
    "string form is canonical and a fixed point; rejection leaves tables byte-identical.",
    assumptions=[
        "reference codec vf/props/_c12_ref.py (int.to_bytes, struct.pack of single floats, str.encode)",
        "conformance of generated objects is by construction over the JSON-Schema keywords used "
        "(type, properties, required, additionalProperties, items, minimum/maximum, maxLength, enum, maxItems)",
        "property names are lower-case ASCII (order 'alphabetically by name' unambiguous); an object "
        "either gives an index to every property or to none (mixed use is not specified by the docs)",
        "strings whose fixed-width bytes do not decode (truncation inside a character) are only "
        "required not to change the encoded bytes; the docs leave their decoding undefined",
        "bounds: <=4 properties per object, nesting <=3, arrays <=3 elements (255/256 for the B prefix), strings <=8 chars",
        "never generated: exhaust-buffer arrays with zero-size items (open known finding, probe only); "
        "binaryFormat '0p' (CPython's struct cannot unpack it); a property named 'properties'",
        "the thorough tier does not use atheris (DESIGN mentions it): the same strategies run with 30x budgets",
    ],
    technique="property-based testing (Hypothesis) against an independent reference codec",
    engines=["hypothesis-runner"],
)

K_HANG = "struct.exhaust_array_zero_size_items"
K_BARE_NULL = "struct.numpy_dtype_bare_null"
K_JSON_SKIP = "json.no_properties_schema_skips_validation"
K_NULL_FMT = "struct.null_nonpadding_format_accepted"
K_NESTED = "struct.nested_schema_rules_unchecked"


# ------------------------------------------------------------------ hang guard
class _Hang(BaseException):
    pass


def _rss():
    with open("/proc/self/statm") as f:
        return int(f.read().split()[1]) * 4096


def guarded(ctx, fn, *args, limit=2.0, max_growth=300 << 20):
    """Run fn under an interval timer: a pure-Python loop that neither returns within `limit`
    seconds nor stays below `max_growth` bytes of extra resident memory is reported as a hang."""
    import signal
    import time

    t0 = time.monotonic()
    r0 = _rss()

    def handler(signum, frame):
        if time.monotonic() - t0 >= limit or _rss() - r0 > max_growth:
            raise _Hang()

    old = signal.signal(signal.SIGALRM, handler)
    signal.setitimer(signal.ITIMER_REAL, 0.05, 0.05)
    try:
        try:
            return fn(*args)
        finally:
            signal.setitimer(signal.ITIMER_REAL, 0, 0)
            signal.signal(signal.SIGALRM, old)
    except _Hang:
        ctx.fail("hang", f"{getattr(fn, '__qualname__', fn)} did not return within {limit}s "
                         f"(or grew by more than {max_growth >> 20} MiB) on {args!r:.200}")


# ------------------------------------------------------------------ oracles per codec
class Oracle:
    def __init__(self, codec, schema):
        self.codec = codec
        self.schema = schema

    def encode(self, obj):
        if self.codec == "struct":
            return R.enc(self.schema, obj)
        if self.codec == "json":
            return R.canonical(obj).encode()
        return obj

    def expected(self, obj):
        """What decode(encode(obj)) must be; raises R.Undecodable where the docs are silent."""
        if self.codec == "struct":
            b = R.enc(self.schema, obj)
            want = R.dec(self.schema, b)  # may raise Undecodable
            if R.is_nullable_top(self.schema) and obj is not None and b == b"":
                raise R.Undecodable()  # an object of zero encoded size reads back as "no metadata"
            exp = R.expected(self.schema, obj)
            assert R.deq(want, exp), ("reference codec inconsistent", self.schema, obj, want, exp)
            return want
        if self.codec == "json":
            return R.json_expected(self.schema, obj)
        return obj


def rejection_classes(tskit, codec, kind):
    ex = tskit.exceptions
    if codec == "struct":
        if G.STRUCT_MUTANT_CLASS[kind] == G.VALIDATION:
            return (ex.MetadataValidationError,)
        return (struct.error, ValueError)  # UnicodeEncodeError is a ValueError
    if codec == "json":
        if kind == "unserialisable":
            return (ex.MetadataEncodingError, ex.MetadataValidationError)
        return (ex.MetadataValidationError,)
    return (TypeError,)


def struct_labels(ctx, schema, objs):
    maxd = 0
    for n, d in R.walk_schema(schema):
        maxd = max(maxd, d)
        t = R.node_type(n)
        if t == "array":
            ctx.label("array_" + R.array_mode(n))
            if R.array_mode(n) == "prefix":
                ctx.label("prefix_" + n.get("arrayLengthFormat", "default"))
        elif t == "object":
            names = list(n.get("properties", {}))
            if [k for k, _ in R.ordered(n)] != sorted(names):
                ctx.label("index_reordered")
            if any("index" in v for v in n.get("properties", {}).values()):
                ctx.label("indexed")
                idx = [v["index"] for v in n["properties"].values()]
                ctx.label("index_ties", len(set(idx)) < len(idx))
            ctx.label("explicit_required", "required" in n and d > 0)
            ctx.label("nested_default", d > 0 and any("default" in v for v in n.get("properties", {}).values()))
        elif t == "string":
            k, ch = R.fmt_parts(n["binaryFormat"])
            ctx.label("fmt_" + ch)
            ctx.label("null_terminated", bool(n.get("nullTerminated")))
            ctx.label("enc_" + n.get("stringEncoding", "utf-8"))
        elif t == "null":
            ctx.label("pad" if "binaryFormat" in n else "bare_null")
        else:
            f = n["binaryFormat"]
            ctx.label("fmt_float" if f in "fd" else ("fmt_bool" if f == "?" else "fmt_int"))
    ctx.label("depth>=2", maxd >= 2)
    ctx.label("nullable_top", R.is_nullable_top(schema))
    ctx.label("has_default", any("default" in n for n, _ in R.walk_schema(schema)))
    filled_default = False
    for o in objs:
        for path, s, v in G.obj_nodes(schema, o):
            if R.node_type(s) == "object" and isinstance(v, dict):
                if any(k not in v for k in s.get("properties", {})):
                    filled_default = True
    ctx.label("filled_default", filled_default)
    return maxd, filled_default


def struct_nontrivial(ctx, schema, objs):
    maxd, fd = struct_labels(ctx, schema, objs)
    has_arr = any(R.node_type(n) == "array" for n, _ in R.walk_schema(schema))
    ctx.nt(maxd >= 2 or has_arr or "index_reordered" in ctx.labels or fd)


# ------------------------------------------------------------------ numpy view
def check_dtype(ctx, s, dt, where="numpy_dtype"):
    """The dtype describes exactly the byte layout of the reference encoding."""
    import numpy as np

    t = R.node_type(s)
    ctx.check(dt.itemsize == R.min_size(s), where, f"itemsize {dt.itemsize} of {dt} expected {R.min_size(s)}")
    if t == "object":
        names = tuple(dt.names or ())
        want = tuple(k for k, _ in R.ordered(s))
        ctx.check(names == want, where, f"field order {names} expected {want}")
        off = 0
        for k, sub in R.ordered(s):
            fdt, foff = dt.fields[k][:2]
            ctx.check(foff == off, where, f"field {k!r} at offset {foff} expected {off}")
            check_dtype(ctx, sub, fdt, where)
            off += R.min_size(sub)
    elif t == "array":
        ctx.check(dt.subdtype is not None and dt.subdtype[1][0] == s["length"], where,
                  f"{dt} is not a sub-array of length {s['length']}")
        base, shape = dt.subdtype
        check_dtype(ctx, s["items"], np.dtype((base, shape[1:])) if len(shape) > 1 else base, where)
    elif t == "null":
        ctx.check(dt.kind == "V" and dt.names is None, where, f"pad dtype {dt}")
    elif t == "string":
        ctx.check(dt.kind == "S", where, f"string dtype {dt}")
    else:
        f = s["binaryFormat"]
        kind = "b" if f == "?" else (("i" if R.INT_FMT[f][1] else "u") if f in R.INT_FMT else "f")
        ctx.check(dt.kind == kind and dt.byteorder in "<|=", where, f"dtype {dt} for format {f}")


def walk_np(ctx, s, npv, v, where="numpy_view"):
    """Field-by-field comparison of one element of the structured array with the row's object
    (defaults filled in)."""
    t = R.node_type(s)
    if t == "object":
        for k, sub in R.ordered(s):
            walk_np(ctx, sub, npv[k], v[k], where)
    elif t == "array":
        ctx.check(len(npv) == s["length"], where, f"sub-array length {len(npv)} expected {s['length']}")
        for i in range(s["length"]):
            walk_np(ctx, s["items"], npv[i], v[i], where)
    elif t == "null":
        pass
    elif t == "string":
        raw = R.string_field_bytes(s, v)
        ctx.check(bytes(npv) == raw.rstrip(b"\x00"), where, f"string field {bytes(npv)!r} expected {raw!r}")
    else:
        f = s["binaryFormat"]
        exp = R.expected(s, v)
        if f == "?":
            ctx.check(bool(npv) == exp, where, f"bool {npv!r} expected {exp}")
        elif f in R.INT_FMT:
            ctx.check(int(npv) == exp, where, f"int {npv!r} expected {exp}")
        else:
            ctx.check(R.deq(float(npv), exp), where, f"float {npv!r} expected {exp!r}")


def numpy_representable(schema):
    """In the documented subset, and no array whose items take zero bytes (numpy itself refuses a
    sub-array of a zero-size base: 'invalid itemsize in generic type tuple')."""
    return R.in_numpy_subset(schema) and not any(
        R.node_type(n) == "array" and R.min_size(n["items"]) == 0 for n, _ in R.walk_schema(schema))


def check_numpy(ctx, ms, schema, objs, probe_bare_null=True):
    """numpy_dtype / structured_array_from_buffer on the concatenated reference rows."""
    if R.in_numpy_subset(schema) and not numpy_representable(schema):
        ctx.label("numpy_zero_size_items")
        try:
            ms.numpy_dtype()
        except (ValueError, KeyError):
            pass
        return None
    if R.in_numpy_subset(schema):
        ctx.label("numpy_subset")
        if R.has_bare_null(schema):
            try:
                ms.numpy_dtype()
            except KeyError as e:
                ctx.fail("numpy_dtype_bare_null", f"numpy_dtype() raised KeyError({e}) for a fixed-size schema "
                                                  "with a null property that has no binaryFormat")
        dt = ms.numpy_dtype()
        check_dtype(ctx, schema, dt)
        rows = [R.enc(schema, o) for o in objs]
        for r in rows:
            ctx.check(len(r) == dt.itemsize, "numpy_dtype", f"itemsize {dt.itemsize} but a row has {len(r)} bytes")
        if dt.itemsize == 0:
            ctx.label("numpy_itemsize_0")
            return None
        arr = ms.structured_array_from_buffer(b"".join(rows))
        ctx.check(len(arr) == len(rows) and arr.dtype == dt, "numpy_view", "length/dtype of the structured array")
        for k, o in enumerate(objs):
            walk_np(ctx, schema, arr[k], R.filled(schema, o))
        ctx.label("numpy_view_checked")
        return dt
    ctx.label("numpy_unsupported")
    accepted = (ValueError, KeyError) if R.has_bare_null(schema) else (ValueError,)
    try:
        ms.numpy_dtype()
    except accepted:
        return None
    ctx.fail("numpy_dtype_outside_subset", "numpy_dtype() returned a dtype for a schema with variable-size "
                                           "arrays / pascal strings / object|null top level")


# ------------------------------------------------------------------ sub-check: struct codec
def schema_string_checks(ctx, tskit, schema, ms):
    """String form: canonical, a fixed point, independent of key order, same behaviour."""
    text = repr(ms)
    ctx.check(isinstance(text, str) and text == R.canonical(json.loads(text)), "schema_string",
              f"repr is not canonical JSON (sorted keys, no whitespace): {text[:300]}")
    ms2 = tskit.MetadataSchema(json.loads(text))
    ms3 = tskit.metadata.parse_metadata_schema(text)
    ms4 = tskit.MetadataSchema(R.reorder_keys(copy.deepcopy(schema)))
    for nm, m in (("MetadataSchema(json.loads(repr))", ms2), ("parse_metadata_schema(repr)", ms3)):
        ctx.check(repr(m) == text, "schema_string", f"{nm}: repr {repr(m)[:300]} expected {text[:300]}")
        ctx.check(m == ms, "schema_string", f"{nm}: == is False")
    # the same JSON value written with another key order has the same string form, up to the order of
    # the `required` lists that the struct codec derives from the properties it was given
    ctx.check(_sorted_required(json.loads(repr(ms4))) == _sorted_required(json.loads(text)) and
              repr(ms4) == R.canonical(json.loads(repr(ms4))), "schema_string",
              f"same schema, other key order: repr {repr(ms4)[:300]} expected {text[:300]}")
    ctx.check(R.tag(ms.schema) == R.tag(schema) and R.tag(ms.asdict()) == R.tag(schema), "schema_accessor",
              "MetadataSchema.schema / asdict() differ from the schema given")
    return [ms2, ms3, ms4]


def _sorted_required(o):
    if isinstance(o, dict):
        return {k: (sorted(v) if k == "required" and isinstance(v, list) and all(isinstance(x, str) for x in v)
                    else _sorted_required(v)) for k, v in o.items()}
    if isinstance(o, list):
        return [_sorted_required(v) for v in o]
    return o


def run_struct(case, ctx):
    import tskit

    schema = R.untag(case["schema"])
    objs = R.untag(case["objs"])
    bad = R.untag(case["bad"])
    orc = Oracle("struct", schema)
    ms = tskit.MetadataSchema(copy.deepcopy(schema))
    ctx.check(R.tag(ms.schema) == case["schema"], "schema_accessor", "constructor modified its argument's copy")
    struct_nontrivial(ctx, schema, objs)
    others = schema_string_checks(ctx, tskit, schema, ms)
    for obj in objs:
        ref = orc.encode(obj)
        for m in [ms] + others:
            got = m.validate_and_encode_row(copy.deepcopy(obj))
            ctx.check(got == ref, "byte_layout", f"validate_and_encode_row({obj!r}) = {got!r} expected {ref!r}")
        got = ms.encode_row(copy.deepcopy(obj))
        ctx.check(got == ref, "byte_layout", f"encode_row({obj!r}) = {got!r} expected {ref!r}")
        try:
            want = orc.expected(obj)
        except R.Undecodable:
            ctx.label("decode_not_asserted")
            try:
                guarded(ctx, ms.decode_row, ref)
            except UnicodeDecodeError:
                pass
            continue
        for m in [ms] + others[:2]:
            got = guarded(ctx, m.decode_row, ref)
            ctx.check(R.deq(got, want), "roundtrip", f"decode_row({ref!r}) = {got!r} expected {want!r} for {obj!r}")
            scribble(got)
            again = guarded(ctx, m.decode_row, ref)
            ctx.check(R.deq(again, want), "decode_aliasing",
                      f"decode_row({ref!r}) = {again!r} after the previous result was modified; expected {want!r}")
    for kind, b in bad:
        ctx.label("reject_" + kind)
        try:
            got = ms.validate_and_encode_row(copy.deepcopy(b))
        except rejection_classes(tskit, "struct", kind):
            continue
        ctx.fail("nonconforming_accepted", f"{kind}: validate_and_encode_row({b!r}) returned {got!r}")
    check_numpy(ctx, ms, schema, [o for o in objs if o is not None])


def classify_struct(case, exc):
    schema = R.untag(case["schema"])
    if exc.what == "hang" and R.exhaust_zero_size(schema):
        return K_HANG
    if exc.what == "numpy_dtype_bare_null":
        return K_BARE_NULL
    return None


# ------------------------------------------------------------------ sub-check: JSON codec
def json_labels(ctx, schema, objs, bad):
    props = schema.get("properties", {})
    ctx.label("has_properties", bool(props))
    ctx.label("typed_top", "type" in schema)
    ctx.label("required", bool(schema.get("required")))
    ctx.label("additional_false", schema.get("additionalProperties", True) is False)
    ctx.label("additional_schema", isinstance(schema.get("additionalProperties"), dict))
    has_def = any("default" in p for p in props.values())
    ctx.label("has_default", has_def)
    fd = any(isinstance(o, dict) and any("default" in p and k not in o for k, p in props.items()) for o in objs)
    ctx.label("filled_default", fd)
    ctx.label("default_overridden",
              any(isinstance(o, dict) and any("default" in p and k in o for k, p in props.items()) for o in objs))
    ctx.label("nested", any(p.get("type") in ("object", "array") for p in props.values()))
    ctx.label("non_dict_top", any(not isinstance(o, dict) for o in objs))
    ctx.nt(has_def or bool(bad))


def scribble(x):
    """Modify a decoded value in place (recursively where it is a container)."""
    if isinstance(x, dict):
        for k in list(x):
            if isinstance(x[k], (dict, list)):
                scribble(x[k])
            else:
                x[k] = "#scribbled#"
        x["#scribble_key#"] = 1
    elif isinstance(x, list):
        for i, v in enumerate(x):
            if isinstance(v, (dict, list)):
                scribble(v)
            else:
                x[i] = "#scribbled#"
        x.append("#scribbled#")


def run_json(case, ctx):
    import tskit

    schema = R.untag(case["schema"])
    objs = R.untag(case["objs"])
    bad = R.untag(case["bad"])
    orc = Oracle("json", schema)
    ms = tskit.MetadataSchema(copy.deepcopy(schema))
    json_labels(ctx, schema, objs, bad)
    others = schema_string_checks(ctx, tskit, schema, ms)
    for obj in objs:
        ref = orc.encode(obj)
        for m in [ms] + others:
            got = m.validate_and_encode_row(copy.deepcopy(obj))
            ctx.check(got == ref, "byte_layout", f"validate_and_encode_row({obj!r}) = {got!r} expected {ref!r}")
            got = m.validate_and_encode_row(R.reorder_keys(copy.deepcopy(obj)))
            ctx.check(got == ref, "byte_layout", f"key order changed the encoding of {obj!r}: {got!r}")
        want = orc.expected(obj)
        for m in [ms] + others[:2]:
            got = m.decode_row(ref)
            ctx.check(R.deq(got, want), "roundtrip", f"decode_row({ref!r}) = {got!r} expected {want!r}")
            # a decoded value belongs to the caller: scribbling on it must not change later decodes
            scribble(got)
            again = m.decode_row(ref)
            ctx.check(R.deq(again, want), "decode_aliasing",
                      f"decode_row({ref!r}) = {again!r} after the previous result was modified; expected {want!r}")
    # docs: 'empty metadata is interpreted as an empty object'
    got = ms.decode_row(b"")
    ctx.check(R.deq(got, orc.expected({})), "empty_metadata", f"decode_row(b'') = {got!r}")
    scribble(got)
    for m in [ms] + others[:2]:
        again = m.decode_row(b"")
        ctx.check(R.deq(again, orc.expected({})), "decode_aliasing",
                  f"decode_row(b'') = {again!r} after an earlier result was modified; expected {orc.expected({})!r}")
        scribble(again)
    for kind, b in bad:
        ctx.label("reject_" + kind)
        try:
            got = ms.validate_and_encode_row(copy.deepcopy(b))
        except rejection_classes(tskit, "json", kind):
            continue
        ctx.fail("nonconforming_accepted", f"{kind}: validate_and_encode_row({b!r}) returned {got!r}")


def classify_json(case, exc):
    schema = R.untag(case["schema"])
    if exc.what == "nonconforming_accepted" and not schema.get("properties"):
        return K_JSON_SKIP
    return None


# ------------------------------------------------------------------ sub-check: through tables
TABLES = ["individuals", "nodes", "edges", "sites", "mutations", "migrations", "populations"]
SINGULAR = dict(individuals="individual", nodes="node", edges="edge", sites="site", mutations="mutation",
                migrations="migration", populations="population")


def base_rows(tskit, tables, name, k):
    """Fill the other tables so that k rows in table `name` give a valid tree sequence; returns
    the keyword arguments (without metadata) of those k rows."""
    if name == "nodes":
        return [dict(flags=1, time=0.0) for _ in range(k)]
    if name == "individuals":
        return [dict(flags=i) for i in range(k)]
    if name == "populations":
        return [dict() for _ in range(k)]
    if name == "edges":
        for _ in range(k):
            tables.nodes.add_row(flags=1, time=0.0)
        tables.nodes.add_row(flags=0, time=1.0)
        return [dict(left=0.0, right=1.0, parent=k, child=i) for i in range(k)]
    if name == "sites":
        return [dict(position=i / (k + 1), ancestral_state="A") for i in range(k)]
    if name == "mutations":
        tables.nodes.add_row(flags=1, time=0.0)
        for i in range(k):
            tables.sites.add_row(position=i / (k + 1), ancestral_state="A")
        return [dict(site=i, node=0, derived_state="T") for i in range(k)]
    if name == "migrations":
        tables.nodes.add_row(flags=1, time=0.0)
        tables.populations.add_row()
        return [dict(left=0.0, right=1.0, node=0, source=0, dest=0, time=float(i)) for i in range(k)]
    raise AssertionError(name)


def snapshot(t):
    d = {c: getattr(t, c).tobytes() for c in t.column_names}
    d["schema"] = repr(t.metadata_schema)
    d["n"] = len(t)
    return d


def loose_eq(a, b):
    import math

    if isinstance(a, list) and isinstance(b, list):
        return len(a) == len(b) and all(loose_eq(x, y) for x, y in zip(a, b))
    if isinstance(a, float) and isinstance(b, float) and math.isnan(a) and math.isnan(b):
        return True
    return type(a) is type(b) and a == b


@st.composite
def tables_case(draw):
    which = draw(st.integers(0, 9))
    if which < 5:
        c = draw(G.struct_case(nobj=(1, 4), nbad=(0, 3)))
    elif which < 9:
        c = draw(G.json_case(nobj=(1, 4), nbad=(0, 3)))
        # add_row(metadata=None) is documented as "use the schema's empty value", not as storing null
        c["objs"] = [{} if o is None else o for o in c["objs"]]
    else:
        objs = draw(st.lists(st.binary(max_size=5), min_size=1, max_size=4))
        bad = [["not_bytes", draw(st.sampled_from([{"a": 1}, "text", 5, [1]]))]
               for _ in range(draw(st.integers(0, 2)))]
        c = dict(codec="none", schema=None, objs=R.tag(objs), bad=R.tag(bad))
    c["table"] = draw(st.sampled_from(TABLES))
    c["perm"] = draw(st.permutations(list(range(len(c["objs"])))))
    c["how"] = draw(st.lists(st.integers(0, 2), min_size=4, max_size=4))
    return c


def run_tables(case, ctx):
    import numpy as np
    import tskit

    codec = case["codec"]
    schema = R.untag(case["schema"])
    objs = R.untag(case["objs"])
    bad = R.untag(case["bad"])
    name = case["table"]
    orc = Oracle(codec, schema)
    ms = tskit.MetadataSchema(copy.deepcopy(schema))
    ctx.label("codec_" + codec)
    ctx.label("table_" + name)
    if codec == "struct":
        struct_labels(ctx, schema, objs)
    k = len(objs)
    refs = [orc.encode(o) for o in objs]
    wants = []
    for o in objs:
        try:
            wants.append(orc.expected(o))
        except R.Undecodable:
            wants.append(R.Undecodable)
    ctx.label("decode_not_asserted", any(w is R.Undecodable for w in wants))
    ctx.nt(bool(bad) or k >= 2)

    tables = tskit.TableCollection(1.0)
    rows = base_rows(tskit, tables, name, k)
    t = getattr(tables, name)
    t.metadata_schema = ms
    ctx.check(t.metadata_schema == ms and repr(t.metadata_schema) == repr(ms), "table_schema",
              "schema read back from the table differs")

    def check_rows(exp_refs, exp_wants, what):
        ctx.check(len(t) == len(exp_refs), what, f"{len(t)} rows expected {len(exp_refs)}")
        ctx.check(t.metadata.tobytes() == b"".join(exp_refs), what,
                  f"metadata column {t.metadata.tobytes()!r} expected {b''.join(exp_refs)!r}")
        off = [0]
        for r in exp_refs:
            off.append(off[-1] + len(r))
        ctx.check(list(map(int, t.metadata_offset)) == off, what, f"metadata_offset {list(t.metadata_offset)} expected {off}")
        for j, w in enumerate(exp_wants):
            if w is R.Undecodable:
                continue
            got = guarded(ctx, lambda j=j: t[j].metadata)
            ctx.check(R.deq(got, w), what, f"row {j} metadata {got!r} expected {w!r}")

    def row_like(j, md):
        tmp = type(t)()
        tmp.add_row(**rows[j])
        return tmp[0].replace(metadata=md)

    # (A) insertion of conforming objects: add_row / append(row-like)
    for j, o in enumerate(objs):
        if j % 2 == 0:
            rid = t.add_row(**rows[j], metadata=copy.deepcopy(o))
        else:
            rid = t.append(row_like(j, copy.deepcopy(o)))
        ctx.check(rid == j, "add_row", f"row id {rid} expected {j}")
        check_rows(refs[: j + 1], wants[: j + 1], "add_row")
    # (A2) history with ONE mutable object: inserted, changed in place, inserted again - every insertion must treat
    # the object as it is at that moment (no memo keyed on identity, no encoded bytes kept from an earlier read)
    if k >= 2 and isinstance(objs[0], dict) and isinstance(objs[1], dict):
        ctx.label("alias_history")
        holder = copy.deepcopy(objs[0])
        t.add_row(**rows[0], metadata=holder)
        check_rows(refs + [refs[0]], wants + [wants[0]], "alias.add_row")
        holder.clear()
        holder.update(copy.deepcopy(objs[1]))
        t.add_row(**rows[0], metadata=holder)
        check_rows(refs + [refs[0], refs[1]], wants + [wants[0], wants[1]], "alias.add_row_after_inplace_change")
        bad_dicts = [(kind, b) for kind, b in bad if isinstance(b, dict)]
        if bad_dicts:
            kind, b = bad_dicts[0]
            holder.clear()
            holder.update(copy.deepcopy(b))
            before = snapshot(t)
            try:
                t.add_row(**rows[0], metadata=holder)
            except rejection_classes(tskit, codec, kind):
                pass
            else:
                ctx.fail("nonconforming_accepted", f"{kind}: an object changed in place after a successful insertion was "
                                                   f"stored without validation: {b!r}")
            ctx.check(snapshot(t) == before, "rejection_changed_table", f"{kind} (alias history) raised but the table changed")
            ctx.label("alias_history_bad")
        # a row read from the table, its decoded metadata changed in place, assigned to another row
        if wants[0] is not R.Undecodable and wants[1] is not R.Undecodable:
            row = t[k]
            md = row.metadata
            if isinstance(md, dict):
                md.clear()
                md.update(copy.deepcopy(objs[1]))
                t[k] = row
                check_rows(refs + [refs[1], refs[1]], wants + [wants[1], wants[1]], "alias.setitem_after_inplace_change")
                if bad_dicts:
                    kind, b = bad_dicts[0]
                    row = t[k + 1]
                    md = row.metadata
                    md.clear()
                    md.update(copy.deepcopy(b))
                    before = snapshot(t)
                    try:
                        t[k] = row
                    except rejection_classes(tskit, codec, kind):
                        pass
                    else:
                        ctx.fail("nonconforming_accepted", f"{kind}: row metadata changed in place to {b!r} was stored by "
                                                           "row assignment without validation")
                    ctx.check(snapshot(t) == before, "rejection_changed_table",
                              f"{kind} (alias setitem) raised but the table changed")
        t.truncate(k)
        check_rows(refs, wants, "alias.truncate")
    # (B) non-conforming objects are rejected and leave the table unchanged
    for i, (kind, b) in enumerate(bad):
        ctx.label("reject_" + kind)
        before = snapshot(t)
        how = case["how"][i % 4]
        if b is None:
            how = 2  # add_row/append document metadata=None as "use the schema's empty value"
        j = i % k
        try:
            if how == 0:
                t.add_row(**rows[j], metadata=copy.deepcopy(b))
            elif how == 1:
                t.append(row_like(j, copy.deepcopy(b)))
            else:
                t[j] = row_like(j, copy.deepcopy(b))
        except rejection_classes(tskit, codec, kind):
            pass
        else:
            ctx.fail("nonconforming_accepted", f"{kind} via {['add_row', 'append', '__setitem__'][how]}: {b!r} "
                                               f"was stored (table now has {len(t)} rows)")
        ctx.check(snapshot(t) == before, "rejection_changed_table",
                  f"{kind} via {['add_row', 'append', '__setitem__'][how]} raised but the table changed")
    # (C) row assignment with other objects (different encoded lengths: rewrite path)
    perm = case["perm"]
    cur_refs, cur_wants = list(refs), list(wants)
    for j in range(k):
        p = perm[j]
        t[j] = row_like(j, copy.deepcopy(objs[p]))
        cur_refs[j], cur_wants[j] = refs[p], wants[p]
        check_rows(cur_refs, cur_wants, "setitem")
    ctx.label("setitem_changed_length", any(len(refs[perm[j]]) != len(refs[j]) for j in range(k)))
    # (D) packset_metadata with rows encoded through the schema
    t.packset_metadata([t.metadata_schema.validate_and_encode_row(copy.deepcopy(o)) for o in objs])
    check_rows(refs, wants, "packset_metadata")
    # (E) metadata_vector over a scalar top-level (or one level nested) key
    if codec in ("struct", "json") and all(isinstance(w, dict) for w in wants):
        paths = []
        for nm, sub in schema.get("properties", {}).items():
            if sub.get("type") in ("number", "integer", "boolean"):
                paths.append([nm])
            elif sub.get("type") == "object" and codec == "struct":
                for nm2, sub2 in sub.get("properties", {}).items():
                    if sub2.get("type") in ("number", "integer", "boolean"):
                        paths.append([nm, nm2])
        for path in paths[:3]:
            vals, missing = [], False
            for w in wants:
                v = w
                for p in path:
                    if isinstance(v, dict) and p in v:
                        v = v[p]
                    else:
                        v, missing = None, True
                        break
                vals.append(v)
            key = path[0] if len(path) == 1 else path
            if missing:
                got = t.metadata_vector(key, default_value=None)
                try:
                    t.metadata_vector(key)
                    ctx.fail("metadata_vector", f"key {key} missing in a row but no KeyError")
                except KeyError:
                    pass
            else:
                got = t.metadata_vector(key)
            want = np.array(vals)
            ctx.check(got.dtype == want.dtype and loose_eq(got.tolist(), want.tolist()), "metadata_vector",
                      f"metadata_vector({key}) = {got!r} expected {want!r}")
            ctx.label("metadata_vector")
    # (F) tree sequence views
    ts = tables.tree_sequence()
    sing = SINGULAR[name]
    ctx.check(getattr(ts.table_metadata_schemas, sing) == ms, "ts_schema", "table_metadata_schemas differs")
    for j, w in enumerate(wants):
        if w is R.Undecodable:
            continue
        got = guarded(ctx, lambda j=j: getattr(ts, sing)(j).metadata)
        ctx.check(R.deq(got, w), "ts_row_metadata", f"ts.{sing}({j}).metadata = {got!r} expected {w!r}")
    if codec == "struct" and all(o is not None for o in objs):
        if numpy_representable(schema) and not R.has_bare_null(schema):
            dt = ms.numpy_dtype()
            if dt.itemsize > 0:
                arr = getattr(ts, name + "_metadata")
                ctx.check(arr.dtype == dt and len(arr) == k and arr.tobytes() == b"".join(refs), "ts_structured_array",
                          f"ts.{name}_metadata dtype {arr.dtype} len {len(arr)}")
                for j, o in enumerate(objs):
                    walk_np(ctx, schema, arr[j], R.filled(schema, o), "ts_structured_array")
                ctx.label("ts_structured_array")
        elif not R.in_numpy_subset(schema):
            try:
                getattr(ts, name + "_metadata")
                ctx.fail("ts_structured_array", "a structured array was returned for a variable-size schema")
            except (ValueError, KeyError):
                pass
    # (G) top-level and reference-sequence metadata use the same machinery
    for holder_name in ("tables", "reference_sequence"):
        holder = tables if holder_name == "tables" else tables.reference_sequence
        holder.metadata_schema = ms
        holder.metadata = copy.deepcopy(objs[0])
        ctx.check(holder.metadata_bytes == refs[0], "toplevel_metadata", f"{holder_name}.metadata_bytes {holder.metadata_bytes!r}")
        if wants[0] is not R.Undecodable:
            got = guarded(ctx, lambda: holder.metadata)
            ctx.check(R.deq(got, wants[0]), "toplevel_metadata", f"{holder_name}.metadata = {got!r} expected {wants[0]!r}")
            # history: read, replace the schema while the stored bytes stay, read again -> decoded by the NEW schema
            holder.metadata_schema = tskit.MetadataSchema(None)
            raw = holder.metadata
            ctx.check(raw == refs[0], "toplevel_metadata_history",
                      f"{holder_name}.metadata after switching to the null schema = {raw!r} expected the raw bytes {refs[0]!r}")
            holder.metadata_schema = ms
            again = guarded(ctx, lambda: holder.metadata)
            ctx.check(R.deq(again, wants[0]), "toplevel_metadata_history",
                      f"{holder_name}.metadata after switching the schema back = {again!r} expected {wants[0]!r}")
        for kind, b in bad[:1]:
            try:
                holder.metadata = copy.deepcopy(b)
            except rejection_classes(tskit, codec, kind):
                pass
            else:
                ctx.fail("nonconforming_accepted", f"{kind}: {holder_name}.metadata = {b!r} was accepted")
            ctx.check(holder.metadata_bytes == refs[0], "rejection_changed_table", f"{holder_name}.metadata changed by a rejected assignment")
    if wants[0] is not R.Undecodable:
        ts2 = tables.tree_sequence()
        got = guarded(ctx, lambda: ts2.metadata)
        ctx.check(R.deq(got, wants[0]), "toplevel_metadata", f"ts.metadata = {got!r}")
        rs = ts2.reference_sequence
        if rs is None:  # a reference sequence with nothing in it does not exist
            ctx.check(repr(ms) == "" and refs[0] == b"", "toplevel_metadata", "ts.reference_sequence is None")
        else:
            got = guarded(ctx, lambda: rs.metadata)
            ctx.check(R.deq(got, wants[0]), "toplevel_metadata", f"ts.reference_sequence.metadata = {got!r}")


def classify_tables(case, exc):
    if case["codec"] == "struct":
        return classify_struct(case, exc)
    if case["codec"] == "json":
        return classify_json(case, exc)
    return None


# ------------------------------------------------------------------ sub-check: meta-schema
# rule/placement pairs for which the unchanged tree raises something other than
# MetadataSchemaValidationError (still a rejection at construction; counted in the labels)
def run_meta(case, ctx):
    import tskit

    schema = R.untag(case["schema"])
    rule, where = case["rule"], case["where"]
    ctx.label("rule_" + rule)
    ctx.label("where_" + where)
    ctx.nt(True)
    try:
        ms = tskit.MetadataSchema(copy.deepcopy(schema))
    except tskit.exceptions.MetadataSchemaValidationError:
        ctx.label("MetadataSchemaValidationError")
        return
    except (KeyError, TypeError, ValueError, AttributeError) as e:
        # rejected at construction, but not by the meta-schema validation proper
        ctx.label("rejected_by_" + type(e).__name__)
        ctx.check(where == "nested" or rule in LOOSE_TOP, "meta_schema_exception_type",
                  f"{rule} at top level raised {type(e).__name__}: {e} instead of MetadataSchemaValidationError")
        return
    ctx.fail("meta_schema_violation_accepted", f"{rule} ({where}): MetadataSchema accepted {schema!r} -> {ms!r:.300}")


# order_by_index sorts by `index` before the meta-schema is consulted: a non-numeric index raises TypeError
LOOSE_TOP = {"index_not_number"}


def classify_meta(case, exc):
    if exc.what != "meta_schema_violation_accepted":
        return None
    if case["rule"] == "null_with_non_padding_format":
        return K_NULL_FMT
    if case["rule"] in G.NESTED_UNCHECKED and case["where"] == "nested":
        return K_NESTED
    return None


# ------------------------------------------------------------------ probes (minimal reproducers)
_I = {"type": "integer", "binaryFormat": "i"}
PROBES = {
    K_HANG: ("C12.struct_codec", dict(
        codec="struct",
        schema={"codec": "struct", "type": "object", "properties": {
            "a": {"type": "array", "noLengthEncodingExhaustBuffer": True,
                  "items": {"type": "string", "binaryFormat": "0s"}}}},
        objs=[{"a": []}], bad=[])),
    K_BARE_NULL: ("C12.struct_codec", dict(
        codec="struct",
        schema={"codec": "struct", "type": "object", "properties": {"a": {"type": "null"}, "b": dict(_I)}},
        objs=[{"a": None, "b": 1}], bad=[])),
    K_JSON_SKIP: ("C12.json_codec", dict(
        codec="json", schema={"codec": "json", "type": "object", "required": ["a"]},
        objs=[{"a": 1}], bad=[["missing_required", {}]])),
    K_NULL_FMT: ("C12.meta_schema", dict(
        rule="null_with_non_padding_format", where="top",
        schema={"codec": "struct", "type": "object", "properties": {"n": {"type": "null", "binaryFormat": "i"}}})),
    K_NESTED: ("C12.meta_schema", dict(
        rule="negative_length", where="nested",
        schema={"codec": "struct", "type": "object", "properties": {
            "o": {"type": "object", "properties": {"a": {"type": "array", "length": -1, "items": dict(_I)}}}}})),
}

SUBCHECKS = [
    SubCheck("C12.struct_codec", run_struct, strategy=G.struct_case, quick=2200, thorough=66000,
             classify=classify_struct,
             rule="struct schema nested >=2 levels, or with an array, or an index-reordered object, or an object "
                  "that left out a property with a default",
             floors={"index_reordered": 0.15, "array_prefix": 0.1, "array_fixed": 0.1, "array_exhaust": 0.02,
                     "filled_default": 0.1, "nested_default": 0.05, "numpy_view_checked": 0.1,
                     "null_terminated": 0.05, "fmt_p": 0.015, "nullable_top": 0.03, "depth>=2": 0.15}),
    SubCheck("C12.json_codec", run_json, strategy=G.json_case, quick=1200, thorough=36000,
             classify=classify_json,
             rule="JSON schema with a top-level default, or a case with >=1 rejected mutant",
             floors={"filled_default": 0.1, "default_overridden": 0.1, "required": 0.1, "additional_false": 0.05}),
    SubCheck("C12.tables", run_tables, strategy=tables_case, quick=1300, thorough=39000,
             classify=classify_tables,
             rule=">=2 rows or >=1 non-conforming object offered to the table",
             floors={"codec_struct": 0.3, "codec_json": 0.2, "codec_none": 0.03, "ts_structured_array": 0.05,
                     "setitem_changed_length": 0.06, "metadata_vector": 0.1}),
    SubCheck("C12.meta_schema", run_meta, strategy=G.meta_case, quick=500, thorough=15000,
             classify=classify_meta, rule="every case plants exactly one meta-schema violation"),
]
