"""C02 — only table collections meeting the data-model requirements become tree sequences."""
import copy
import math
import os

from hypothesis import strategies as st

from .. import gen, model
from ..core import SubCheck
from ..gen import F
from ..validity import canonical_index, validity
from . import c01

META = dict(
    level="exploration",
    rule="(i) every by-construction valid spec (vf/gen.py) must be accepted by tree_sequence() and by "
    "dump+tskit.load and yield the model's trees; (ii) the same specs perturbed by 1-3 operators from a "
    "catalogue of single-requirement boundary departures (one table field at its nearest invalid value, row "
    "swaps/duplicates, stale/duplicated/out-of-range/unsorted user indexes, NaN/inf/zero/negative "
    "values). Oracle: the three-valued validity predicate vf/validity.py written from "
    "docs/data-model.md; VALID => accepted and trees equal the positional model, INVALID => "
    "LibraryError/ValueError and byte-identical table rows afterwards, UNSPECIFIED => nothing asserted "
    "except 'no crash' and, if accepted, correct trees.",
    assumptions=[
        "validity predicate vf/validity.py (transcribed from docs/data-model.md, independent of the C checks)",
        "UNSPECIFIED (not asserted): sequence_length=+inf, individual listed as its own parent, user index with a tie order other than build_index's",
        "size bounds of vf/gen.py (<=10 nodes, <=4 intervals)",
    ],
    technique="property-based testing: boundary-mutation operators over valid-by-construction tables against a reference validity predicate",
)

ULP = lambda x, d: math.nextafter(x, d)  # noqa: E731


# ------------------------------------------------------------------ operators
# each: f(spec, a, b) -> True if applied.  a, b are raw non-negative ints.
def _pick(lst, a):
    return a % len(lst) if lst else None


def op_edge_field(spec, a, b):
    E = spec["edges"]
    if not E:
        return False
    e = E[a % len(E)]
    n = len(spec["nodes"])
    L = F(spec["L"])
    k = b % 16
    if k == 0:
        e[1] = e[0]  # left == right
    elif k == 1:
        e[0], e[1] = e[1], e[0]
    elif k == 2:
        e[0] = -1.0
    elif k == 3:
        e[0] = ULP(0.0, -1.0)
    elif k == 4:
        e[1] = ULP(L, math.inf)
    elif k == 5:
        e[1] = L + 1
    elif k == 6:
        e[0] = "nan"
    elif k == 7:
        e[1] = "inf"
    elif k == 8:
        e[2] = -1
    elif k == 9:
        e[2] = n
    elif k == 10:
        e[3] = -1
    elif k == 11:
        e[3] = n
    elif k == 12:
        e[2] = n + 1
    elif k == 13:
        e[3] = -2
    elif k == 14:
        e[1] = "nan"
    else:
        e[0] = "-inf"
    return True


def op_edge_time(spec, a, b):
    E = spec["edges"]
    if not E:
        return False
    e = E[a % len(E)]
    nodes = spec["nodes"]
    if b % 2 == 0:
        nodes[e[2]][1] = nodes[e[3]][1]  # time[parent] == time[child]
    else:
        nodes[e[2]][1] = ULP(F(nodes[e[3]][1]), -math.inf)
    return True


def op_edge_rows(spec, a, b):
    E = spec["edges"]
    k = b % 4
    if k == 0 and len(E) >= 2:
        i = a % (len(E) - 1)
        E[i], E[i + 1] = E[i + 1], E[i]
        return True
    if k == 1 and len(E) >= 2:
        i, j = a % len(E), (a // 7 + 1) % len(E)
        if i == j:
            return False
        E[i], E[j] = E[j], E[i]
        return True
    if k == 2 and E:
        i = a % len(E)
        E.insert(i, list(E[i]))  # exact duplicate
        return True
    if k == 3 and E:
        # same child, another (older) parent over an overlapping interval
        e = E[a % len(E)]
        times = [F(nd[1]) for nd in spec["nodes"]]
        cands = [u for u in range(len(times)) if times[u] > times[e[3]] and u != e[2]]
        if not cands:
            return False
        p = cands[(a // 3) % len(cands)]
        E.append([e[0], e[1], p, e[3], ""])
        E.sort(key=lambda r: (times[r[2]], r[2], r[3], F(r[0])))
        return True
    return False


def op_edge_noncontig(spec, a, b):
    """Move the last edge of one parent's block behind one or more later blocks of parents with
    the SAME time (A B A, A B C A, ...): parents stay time-sorted but are no longer contiguous."""
    E = spec["edges"]
    times = [F(nd[1]) for nd in spec["nodes"]]
    blocks = []  # [parent, first, last] in table order
    for i, e in enumerate(E):
        if blocks and blocks[-1][0] == e[2]:
            blocks[-1][2] = i
        else:
            blocks.append([e[2], i, i])
    cands = []
    for bi, (p, lo, hi) in enumerate(blocks):
        if hi > lo:
            run = 0
            while bi + 1 + run < len(blocks) and times[blocks[bi + 1 + run][0]] == times[p]:
                run += 1
            if run >= 1:
                cands.append((bi, run))
    if not cands:
        return False
    bi, run = cands[a % len(cands)]
    skip = 1 + (b % run)  # how many equal-time blocks to jump over
    p, lo, hi = blocks[bi]
    dest = blocks[bi + skip][2]  # after the last edge of that block
    row = E.pop(hi)
    E.insert(dest, row)
    return True


def op_edge_overlap(spec, a, b):
    # extend an edge to the right so it overlaps the next edge of the same (parent, child) or child
    E = spec["edges"]
    L = F(spec["L"])
    c = [i for i, e in enumerate(E) if F(e[1]) < L]
    if not c:
        return False
    e = E[c[a % len(c)]]
    e[1] = L
    return True


def op_node(spec, a, b):
    N = spec["nodes"]
    if not N:
        return False
    nd = N[a % len(N)]
    k = b % 6
    if k == 0:
        nd[1] = "nan"
    elif k == 1:
        nd[1] = "inf"
    elif k == 2:
        nd[2] = len(spec["populations"])
    elif k == 3:
        nd[2] = -2
    elif k == 4:
        nd[3] = len(spec["individuals"])
    else:
        nd[3] = -2
    return True


def op_site(spec, a, b):
    S = spec["sites"]
    if not S:
        return False
    i = a % len(S)
    L = F(spec["L"])
    k = b % 7
    if k == 0:
        S[i][0] = L
    elif k == 1:
        S[i][0] = ULP(0.0, -1.0)
    elif k == 2:
        S[i][0] = "nan"
    elif k == 3:
        S[i][0] = "inf"
    elif k == 4 and len(S) >= 2:
        j = (i + 1) % len(S)
        S[i][0] = S[j][0]  # duplicate position (possibly also unsorted)
    elif k == 5 and len(S) >= 2:
        i = a % (len(S) - 1)
        S[i], S[i + 1] = S[i + 1], S[i]  # swapped rows (mutations keep their site ids)
    elif k == 6:
        S[i][0] = -1.0
    else:
        return False
    return True


def op_mutation(spec, a, b):
    M = spec["mutations"]
    if not M:
        return False
    i = a % len(M)
    m = M[i]
    n = len(spec["nodes"])
    times = [F(nd[1]) for nd in spec["nodes"]]
    k = b % 16
    if k == 0:
        m[0] = len(spec["sites"])
    elif k == 1:
        m[0] = -1
    elif k == 2:
        m[1] = n
    elif k == 3:
        m[1] = -1
    elif k == 4:
        m[3] = len(M)
    elif k == 5:
        m[3] = -2
    elif k == 6:
        m[3] = i
    elif k == 7:
        other = [j for j, q in enumerate(M) if q[0] != m[0]]
        if not other:
            return False
        m[3] = other[(a // 5) % len(other)]
    elif k == 8:
        later = [j for j, q in enumerate(M) if q[0] == m[0] and j > i]
        if not later:
            return False
        m[3] = later[0]
    elif k == 9 and len(M) >= 2:
        i = a % (len(M) - 1)
        M[i], M[i + 1] = M[i + 1], M[i]
    elif k == 10:
        m[4] = ULP(times[m[1]], -math.inf) if 0 <= m[1] < n else None  # younger than node
        for q in M:
            if q[0] == m[0] and q is not m and q[4] is None:
                q[4] = times[q[1]]
    elif k == 11:
        # at / above the time of the node above
        x = F(spec["sites"][m[0]][0])
        par = model.parent_at(spec, x)
        if par[m[1]] < 0:
            return False
        m[4] = times[par[m[1]]] if (a // 3) % 2 == 0 else times[par[m[1]]] + 1
        for q in M:
            if q[0] == m[0] and q is not m and q[4] is None:
                q[4] = times[q[1]]
    elif k == 12:
        if m[3] < 0 or M[m[3]][4] is None or m[4] is None:
            return False
        m[4] = ULP(F(M[m[3]][4]), math.inf)
    elif k == 13:
        same = [q for q in M if q[0] == m[0]]
        if len(same) < 2:
            return False
        m[4] = None if m[4] is not None else times[m[1]]  # mixed known/unknown at a site
    elif k == 14:
        m[4] = "inf"
    elif k == 15:
        m[4] = "-inf"
    else:
        return False
    return True


def op_migration(spec, a, b):
    G = spec["migrations"]
    if not G:
        return False
    i = a % len(G)
    g = G[i]
    L = F(spec["L"])
    k = b % 10
    if k == 0:
        g[2] = len(spec["nodes"])
    elif k == 1:
        g[3] = len(spec["populations"])
    elif k == 2:
        g[4] = -1
    elif k == 3:
        g[5] = "nan"
    elif k == 4 and len(G) >= 2:
        G.reverse()
    elif k == 5:
        g[1] = g[0]
    elif k == 6:
        g[1] = ULP(L, math.inf)
    elif k == 7:
        g[0] = ULP(0.0, -1.0)
    elif k == 8:
        g[2] = -1
    elif k == 9:
        g[0] = "nan"
    else:
        return False
    return True


def op_individual(spec, a, b):
    I = spec["individuals"]
    if not I:
        return False
    ind = I[a % len(I)]
    ind[2] = list(ind[2]) + [len(I) if b % 2 == 0 else -2]
    return True


def op_seqlen(spec, a, b):
    spec["L"] = [0.0, -1.0, "nan", "-inf"][b % 4]
    return True


def op_index(spec, a, b):
    """Attach a user-supplied index derived from the canonical one and damaged in one way."""
    I, O = canonical_index(spec)
    E = len(I)
    k = b % 8
    if E == 0:
        return False
    if k == 0:
        pass  # canonical index, user supplied: must be accepted
    elif k == 1 and E >= 2:
        I.reverse()
    elif k == 2 and E >= 2:
        O.reverse()
    elif k == 3 and E >= 2:
        i = a % (E - 1)
        I[i], I[i + 1] = I[i + 1], I[i]
    elif k == 4 and E >= 2:
        i = a % (E - 1)
        O[i], O[i + 1] = O[i + 1], O[i]
    elif k == 5 and E >= 2:
        # duplicated entry (insertion or removal order; the last positions matter for removal)
        tgt = I if (a // 2) % 2 == 0 else O
        if (a // 4) % 2 == 0:
            tgt[a % E] = tgt[(a + 1) % E]
        else:
            tgt[E - 1] = tgt[E - 2]
    elif k == 6:
        # out of range: just past the end (inside the table's allocation slack) and far outside
        (I if a % 2 else O)[a % E] = [E, E + 1, 2**30, 2**31 - 1][(a // 2) % 4]
    elif k == 7:
        (I if a % 2 else O)[a % E] = [-1, -2, -(2**31)][(a // 2) % 3]
    else:
        return False
    spec["_index"] = [I, O]
    return True


def op_stale_index(spec, a, b):
    """Index built for the valid tables, then two edge rows of one parent/child order swapped so the
    tables may still be sorted but the index refers to the old row numbers."""
    E = spec["edges"]
    if len(E) < 2:
        return False
    I, O = canonical_index(spec)
    i, j = a % len(E), (a // 11 + 1) % len(E)
    if i == j:
        return False
    E[i], E[j] = E[j], E[i]
    spec["_index"] = [I, O]
    return True


OPS = [
    ("edge_field", op_edge_field, 6),
    ("edge_time", op_edge_time, 2),
    ("edge_rows", op_edge_rows, 4),
    ("edge_overlap", op_edge_overlap, 2),
    ("edge_noncontig", op_edge_noncontig, 3),
    ("node", op_node, 3),
    ("site", op_site, 4),
    ("mutation", op_mutation, 8),
    ("migration", op_migration, 3),
    ("individual", op_individual, 1),
    ("seqlen", op_seqlen, 1),
    ("index", op_index, 4),
    ("stale_index", op_stale_index, 2),
]
OPMAP = {k: f for k, f, _ in OPS}
_OPNAMES = [k for k, f, w in OPS for _ in range(w)]


@st.composite
def perturbed_case(draw):
    base = draw(gen.ts_spec(max_nodes=8, max_sites=4, mut_times=draw(st.sampled_from(["unknown", "known", "known"]))))
    spec = copy.deepcopy(base)
    nops = draw(st.sampled_from([1, 1, 1, 2, 3]))
    applied = []
    for _ in range(nops):
        name = draw(st.sampled_from(_OPNAMES))
        a, b = draw(st.integers(0, 1000)), draw(st.integers(0, 63))
        backup = copy.deepcopy(spec)
        try:
            ok = OPMAP[name](spec, a, b)
        except (IndexError, TypeError, ValueError, KeyError):
            # an earlier operator already broke the references this one navigates by
            ok = False
        if ok:
            applied.append([name, b])
        else:
            spec = backup
    idx = spec.pop("_index", None)
    return dict(spec=spec, index=idx, ops=applied, via_file=draw(st.integers(0, 3)) == 0)


def table_bytes(t):
    out = {}
    for name in ("nodes", "edges", "sites", "mutations", "migrations", "individuals", "populations",
                 "provenances"):
        d = getattr(t, name).asdict()
        for k, v in d.items():
            out[name + "." + k] = v.tobytes() if hasattr(v, "tobytes") else bytes(str(v), "utf8")
    out["L"] = repr(t.sequence_length)
    return out


REJECT_TYPES = None


def _reject_types(tskit):
    import _tskit

    return (tskit.LibraryError, _tskit.LibraryError, ValueError, tskit.FileFormatError)


def run_case(case, ctx):
    import numpy as np
    import tskit

    spec = case["spec"]
    idx = case.get("index")
    verdict, reasons = validity(spec, idx)
    for name, _ in case.get("ops", []):
        ctx.label("op:" + name)
    ctx.label(verdict)
    for r in reasons:
        ctx.label("why:" + r)
    rej = _reject_types(tskit)
    try:
        t = gen.build_tables(spec, tskit, index=False)
    except (ValueError, OverflowError):
        # the value cannot even be put into a table row (e.g. id -2 in individuals.parents)
        ctx.check(verdict != "VALID", "valid_rejected", "add_row rejected a value of a valid collection")
        ctx.label("rejected_at_add_row")
        return
    if idx is not None:
        try:
            t.indexes = tskit.TableCollectionIndexes(
                np.array(idx[0], dtype=np.int32), np.array(idx[1], dtype=np.int32)
            )
        except rej:
            ctx.label("index_rejected_at_set")
            return
    before = table_bytes(t)
    accepted, ts, err = True, None, None
    try:
        ts = t.tree_sequence()
    except rej as e:
        accepted, err = False, e
    after = table_bytes(t)
    ctx.check(before == after, "rows_changed",
              lambda: f"table rows changed by tree_sequence() ({'accepted' if accepted else 'rejected'}): "
              + ",".join(k for k in before if before[k] != after.get(k)))
    if verdict == "VALID":
        ctx.check(accepted, "valid_rejected", f"a valid collection was rejected: {err!r}")
    elif verdict == "INVALID":
        ctx.check(not accepted, "invalid_accepted",
                  f"tree_sequence() accepted a collection that violates {reasons}")
    if accepted:
        check_trees(ctx, tskit, spec, ts)
    ctx.nt((verdict == "INVALID" and len(reasons) == 1 and len(case.get("ops", [])) == 1)
           or (verdict == "VALID" and ts is not None and ts.num_trees >= 2))
    if case.get("via_file"):
        ctx.label("via_file")
        path = os.path.join(os.environ.get("VF_SCRATCH", "."), "c02.trees")
        try:
            t.dump(path)
        except rej:
            ctx.label("dump_rejected")
            return
        loaded, lerr = None, None
        try:
            loaded = tskit.load(path)
        except rej as e:
            lerr = e
        finally:
            try:
                os.unlink(path)
            except OSError:
                pass
        if verdict == "VALID":
            ctx.check(loaded is not None, "valid_rejected", f"tskit.load rejected a valid file: {lerr!r}")
        elif verdict == "INVALID":
            ctx.check(loaded is None, "invalid_accepted",
                      f"tskit.load accepted a collection that violates {reasons}")
        if loaded is not None:
            check_trees(ctx, tskit, spec, loaded)


def check_trees(ctx, tskit, spec, ts):
    bps = model.breakpoints(spec)
    ctx.check(ts.num_trees == len(bps) - 1, "trees", f"num_trees {ts.num_trees} expected {len(bps) - 1}")
    n = len(spec["nodes"])
    for tree in ts.trees():
        a = tree.interval.left
        ctx.check(a in bps and tree.interval.right == bps[bps.index(a) + 1], "trees", "interval")
        ctx.eq(list(map(int, tree.parent_array[:n])), model.parent_at(spec, a), "trees.parent_array")
        msites = [j for j, s in enumerate(spec["sites"]) if a <= F(s[0]) < tree.interval.right]
        ctx.eq([s.id for s in tree.sites()], msites, "trees.sites")


# ------------------------------------------------------------------ every G1 spec is accepted
@st.composite
def valid_case(draw):
    return dict(spec=draw(gen.ts_spec()), index=None, ops=[], via_file=draw(st.integers(0, 2)) == 0)


def run_valid(case, ctx):
    verdict, reasons = validity(case["spec"], None)
    ctx.check(verdict == "VALID", "generator_selftest",
              f"by-construction spec judged {verdict} {reasons} by the validity predicate")
    for l in gen.spec_labels(case["spec"], model):
        ctx.label(l)
    run_case(case, ctx)


# ------------------------------------------------------------------ the same departures, far down long tables
def big_spec(K):
    """Two stars over [0,K/2) and [K/2,K): K leaves, 2K edges, K sites with one mutation each (every second one with
    a parent mutation above it at the root), K/8 migrations, K/4 individuals: every table is tens of thousands of
    rows long, so a departure planted at row a sits beyond 2^15 / 2^16."""
    h = float(K // 2)
    nodes = [[1, 0.0, u % 3, (u // 2 if u % 4 < 2 and u // 2 < K // 4 else -1), ""] for u in range(K)]
    nodes += [[0, 1.0, 0, -1, ""], [0, 2.0, 1, -1, ""]]
    edges = [[0.0, h, K, u, ""] for u in range(K)] + [[h, float(K), K + 1, u, ""] for u in range(K)]
    sites = [[float(j), "A", ""] for j in range(K)]
    muts = []
    for j in range(K):
        if j % 2 == 0:
            muts.append([j, j, "T", -1, None, ""])
        else:
            top = K if j < h else K + 1
            muts.append([j, top, "G", -1, None, ""])
            muts.append([j, j, "T", len(muts) - 1, None, ""])
    migs = [[0.0, h, u, u % 3, (u + 1) % 3, 0.5, ""] for u in range(0, K, 8)]
    inds = [[0, [], [], ""] for _ in range(K // 4)]
    return dict(L=float(K), nodes=nodes, edges=edges, sites=sites, mutations=muts, migrations=migs, individuals=inds,
                populations=[[""], [""], [""]])


def enum_big(tier, seed):
    K = 70000
    rows = [K - 1, 65536 + 1] if tier == "quick" else [K - 1, 65536 + 1, 65535, 32768 + 1]
    for name, _, _ in OPS:
        bs = range(0, 64) if tier != "quick" else [(seed * 7 + 11 * k) % 64 for k in range(8)]
        for a in rows:
            for b in sorted(set(bs)):
                yield dict(K=K, op=name, a=a, b=b)
    yield dict(K=K, op=None, a=0, b=0)


def run_big(case, ctx):
    spec = big_spec(case["K"])
    ops = []
    if case["op"] is not None:
        try:
            ok = OPMAP[case["op"]](spec, case["a"], case["b"])
        except (IndexError, TypeError, ValueError, KeyError):
            ok = False
        if not ok:
            ctx.label("not_applied")
            return
        ops = [[case["op"], case["b"]]]
    idx = spec.pop("_index", None)
    run_case(dict(spec=spec, index=idx, ops=ops, via_file=(case["b"] % 4 == 0)), ctx)
    ctx.nt(True)


# ------------------------------------------------------------------ valid collections at the edge of the doubles
def enum_extreme(tier, seed):
    import sys

    M = sys.float_info.max
    tiny = 5e-324
    variants = {
        "L_max": dict(L=M),
        "L_tiny": dict(L=2 * tiny),
        "times_pm_max": dict(t_leaf=-M, t_root=M),
        "times_max_neighbours": dict(t_leaf=math.nextafter(M, 0), t_root=M),
        "times_tiny": dict(t_leaf=0.0, t_root=tiny),
        "times_neg_tiny": dict(t_leaf=-tiny, t_root=0.0),
        "mutation_time_max": dict(t_leaf=0.0, t_root=1e308, t_mut=M),
        "mutation_time_neg_max": dict(t_leaf=-M, t_root=0.0, t_mut_leaf=-M),
        "migration_time_max": dict(t_mig=M),
        "migration_time_neg_max": dict(t_mig=-M),
        "all": dict(L=M, t_leaf=-M, t_root=M, t_mig=M),
    }
    for name, v in variants.items():
        for via_file in (False, True):
            yield dict(name=name, v=v, via_file=via_file)


def run_extreme(case, ctx):
    v = case["v"]
    L = F(v.get("L", 10.0))
    tl, tr = F(v.get("t_leaf", 0.0)), F(v.get("t_root", 1.0))
    half = L / 2
    nodes = [[1, tl, 0, -1, ""], [1, tl, 0, -1, ""], [0, tr, 0, -1, ""]]
    edges = [[0.0, L, 2, 0, ""], [0.0, half, 2, 1, ""]]
    sites = [[0.0, "A", ""], [math.nextafter(L, 0.0), "C", ""]]
    muts = []
    if "t_mut" in v:
        muts.append([0, 2, "T", -1, F(v["t_mut"]), ""])
    if "t_mut_leaf" in v:
        muts.append([1, 0, "G", -1, F(v["t_mut_leaf"]), ""])
    migs = [[0.0, L, 0, 0, 0, F(v.get("t_mig", 0.5)), ""]]
    spec = dict(L=L, nodes=nodes, edges=edges, sites=sites, mutations=muts, migrations=migs, individuals=[],
                populations=[[""]])
    verdict, reasons = validity(spec, None)
    if verdict != "VALID":
        raise AssertionError(f"harness: extreme spec {case['name']} is not valid by the predicate: {reasons}")
    run_case(dict(spec=spec, index=None, ops=[], via_file=case["via_file"]), ctx)
    ctx.nt(True)


SUBCHECKS = [
    SubCheck("C02.perturbed", run_case, strategy=perturbed_case, quick=6000, thorough=300000,
             rule="INVALID by exactly one reason through a single boundary operator, or VALID with >=2 trees",
             floors={"INVALID": 0.3, "VALID": 0.05}),
    SubCheck("C02.perturbed_asan", run_case, strategy=perturbed_case, quick=1500, thorough=100000,
             flavour="asan",
             rule="same as C02.perturbed, executed on the ASan+UBSan build so that a rejection path that reads out of bounds dies visibly"),
    SubCheck("C02.valid_accepted", run_valid, strategy=valid_case, quick=1500, thorough=50000,
             rule="valid collection with >=2 trees", floors={"multi_tree": 0.2}),
    SubCheck("C02.large_tables", run_big, enumerate=enum_big, quick=1, thorough=1, shards=16,
             rule="the operators of C02.perturbed applied at rows beyond 2^16 of a collection with 70000 "
             "leaves, 2K edges, K sites, 1.5K mutations; one unperturbed case"),
    SubCheck("C02.extreme_valid", run_extreme, enumerate=enum_extreme, quick=1, thorough=1,
             rule="valid collections whose sequence length, node, mutation or migration times are +-DBL_MAX, the "
             "neighbouring doubles, or subnormal; tree_sequence() and dump + tskit.load must accept them"),
]
