"""Hypothesis strategies for C12: struct-codec and JSON-codec schemas, conforming objects and
non-conforming mutants, meta-schema violations.  Everything produced is plain JSON (non-finite
floats / bytes are tagged, see _c12_ref.tag)."""
import copy

from hypothesis import strategies as st

from . import _c12_ref as R

# lower-case ASCII only: "alphabetically by name" is unambiguous there.  Schema keywords are
# included on purpose; "properties" is not (see the report: a property with that name makes the
# schema walkers crash, which is outside the stated property).
NAMES = ["a", "b", "c", "d", "ab", "ba", "abc", "k", "m", "z", "zz", "index", "codec", "default",
         "items", "required", "length", "id", "name", "null"]
INDEXES = [-2, -1, 0, 1, 2, 0.5, 1.5, -0.5, 10, 1000]
INT_FORMATS = list("bBhHiIlLqQ")
ASCII_CH = ["a", "b", "Z", "0", " ", "~", "\x00"]
LATIN_CH = ["\xe9", "\xff", "\xa0"]
WIDE_CH = ["€", "\U0001F600", "Ā"]
ENCODINGS = ["utf-8", "utf-8", "ascii", "latin-1", "utf-16-le"]


def chars_for(encoding):
    if encoding == "ascii":
        return ASCII_CH * 3
    if encoding == "latin-1":
        return ASCII_CH * 3 + LATIN_CH
    return ASCII_CH * 4 + LATIN_CH + WIDE_CH


# ------------------------------------------------------------------ struct: values
def draw_int(draw, f):
    lo, hi = R.int_range(f)
    pool = [lo, hi, 0, 1, hi - 1, lo + 1] + ([-1] if lo < 0 else [])
    if draw(st.booleans()):
        return draw(st.sampled_from(pool))
    return draw(st.integers(lo, hi))


F32 = [0.0, -0.0, 1.0, 0.1, -2.5, 1e-45, 3.4028234663852886e38, 1e38, float("inf"),
       float("-inf"), float("nan"), 16777217.0, 1 / 3, 5e-324, 1e-39]


def draw_leaf(draw, s):
    t = s["type"]
    if t == "null":
        return None
    if t == "string":
        encoding = s.get("stringEncoding", "utf-8")
        n, ch = R.fmt_parts(s["binaryFormat"])
        if ch == "c":
            alpha = [c for c in chars_for(encoding) if len(c.encode(encoding)) == 1]
            return draw(st.sampled_from(alpha))
        v = "".join(draw(st.lists(st.sampled_from(chars_for(encoding)), max_size=8)))
        # mostly avoid fields whose stored bytes do not decode (truncation inside a character)
        try:
            R._dec_string(s, R.string_field_bytes(s, v))
        except R.Undecodable:
            if draw(st.integers(0, 7)) != 0:
                v = "".join(c for c in v if ord(c) < 128)
        return v
    f = s["binaryFormat"]
    if t == "boolean":
        return draw(st.booleans())
    if f == "?":
        return draw(st.sampled_from([0, 1, 2, -1, 10**20] + ([0.0, 0.5] if t == "number" else [])))
    if f in R.INT_FMT:
        return draw_int(draw, f)
    if t == "integer":
        return draw(st.integers(-(2**24), 2**24))
    k = draw(st.integers(0, 3))
    if k == 0:
        return draw(st.sampled_from(F32))
    if k == 1:
        return draw(st.integers(-(2**24), 2**24))
    if f == "f":
        return draw(st.floats(width=32, allow_nan=True, allow_infinity=True))
    return draw(st.floats(allow_nan=True, allow_infinity=True))


def draw_value(draw, s, top=False):
    """A conforming object for sub-schema s (properties with a default may be left out)."""
    t = s["type"]
    if isinstance(t, list):
        if draw(st.integers(0, 3)) == 0:
            return None
        t = "object"
    if t == "object":
        req = set(R.effective_required(s))
        v = {}
        for name, sub in s.get("properties", {}).items():
            if "default" in sub and name not in req and draw(st.booleans()):
                continue
            v[name] = draw_value(draw, sub)
        return v
    if t == "array":
        m = R.array_mode(s)
        if m == "fixed":
            k = s["length"]
        elif (m == "prefix" and s.get("arrayLengthFormat") == "B" and R.min_size(s["items"]) <= 1
              and s["items"]["type"] not in ("object", "array") and draw(st.integers(0, 15)) == 0):
            e = draw_value(draw, s["items"])
            return [e] * 255  # the largest length a one-byte prefix can hold
        elif (m != "fixed" and s["items"]["type"] not in ("object", "array") and draw(st.integers(0, 11)) == 0):
            # long arrays of scalars (bulk pack/unpack regimes: 63 / 64 / 65 / 130 elements)
            k = draw(st.sampled_from([63, 64, 65, 130]))
            e = [draw_value(draw, s["items"]) for _ in range(3)]
            return [e[i % 3] for i in range(k)]
        else:
            k = draw(st.integers(0, 3))
        return [draw_value(draw, s["items"]) for _ in range(k)]
    return draw_leaf(draw, s)


# ------------------------------------------------------------------ struct: schemas
def gen_leaf(draw, npmode):
    kind = draw(st.sampled_from(["int", "int", "num", "num", "bool", "str", "str", "null"]))
    if kind == "int":
        f = draw(st.sampled_from(INT_FORMATS + INT_FORMATS + ["?"]))
        return {"type": "integer", "binaryFormat": f}
    if kind == "num":
        f = draw(st.sampled_from(INT_FORMATS + ["f", "d", "f", "d", "f", "d", "?"]))
        return {"type": "number", "binaryFormat": f}
    if kind == "bool":
        f = draw(st.sampled_from(["?", "?", "?", "B", "b", "i", "d"]))
        return {"type": "boolean", "binaryFormat": f}
    if kind == "null":
        k = draw(st.integers(0, 4 if not npmode else 3))
        if k == 4:
            return {"type": "null"}
        return {"type": "null", "binaryFormat": ["x", "0x", "3x", "12x"][k]}
    encoding = draw(st.sampled_from(ENCODINGS))
    fk = draw(st.sampled_from(["s", "s", "p", "p", "c"] if not npmode else ["s", "s", "s", "c"]))
    if fk == "c":
        if R._unit(encoding) > 1:
            encoding = "latin-1"
        bf = "c"
    elif fk == "s":
        # utf-16: an odd field width can never decode, so widths are even there
        wide = R._unit(encoding) > 1
        n = draw(st.sampled_from([0, 2, 4, 6, 8, 12] if wide else [None, 0, 1, 2, 3, 4, 5, 6, 8, 12]))
        bf = "s" if n is None else f"{n}s"
    else:
        # "0p" is never drawn: CPython's struct cannot unpack it (SystemError)
        wide = R._unit(encoding) > 1
        n = draw(st.sampled_from([None, 1, 3, 5, 9] if wide else [None, 1, 2, 3, 4, 5, 8, 12]))
        bf = "p" if n is None else f"{n}p"
    s = {"type": "string", "binaryFormat": bf}
    if encoding != "utf-8" or draw(st.integers(0, 3)) == 0:
        s["stringEncoding"] = encoding
    nt = draw(st.integers(0, 2))
    if nt == 0:
        s["nullTerminated"] = True
    elif nt == 1 and draw(st.booleans()):
        s["nullTerminated"] = False
    return s


def gen_node(draw, depth, last, npmode):
    if depth >= 3:
        k = "leaf"
    else:
        k = draw(st.sampled_from(["leaf"] * (3 + depth) + ["arr", "arr", "obj", "obj"]))
    if k == "leaf":
        return gen_leaf(draw, npmode)
    if k == "obj":
        return gen_object(draw, depth, last, npmode)
    items = gen_node(draw, depth + 1, False, npmode)
    s = {"type": "array", "items": items}
    modes = ["fixed", "fixed"] if npmode else ["prefix", "prefix", "fixed"]
    if last and not npmode and R.min_size(items) > 0:
        # docs: 'an array with this option must be the last type in the encoded struct';
        # items of zero encoded size are the open known finding and are never drawn here
        modes = modes + ["exhaust", "exhaust", "exhaust"]
    m = draw(st.sampled_from(modes))
    if m == "fixed":
        s["length"] = draw(st.sampled_from([0, 1, 2, 3]))
    elif m == "exhaust":
        s["noLengthEncodingExhaustBuffer"] = True
    else:
        f = draw(st.sampled_from([None, "B", "H", "I", "L", "Q"]))
        if f is not None:
            s["arrayLengthFormat"] = f
        if draw(st.integers(0, 5)) == 0:
            s["noLengthEncodingExhaustBuffer"] = False
    return s


def gen_object(draw, depth, last, npmode, top=False):
    n = draw(st.sampled_from([1, 2, 2, 3, 3, 0] + ([4] if top else [])))
    names = draw(st.lists(st.sampled_from(NAMES), min_size=n, max_size=n, unique=True))
    idx = {}
    if draw(st.booleans()):
        for nm in names:
            idx[nm] = draw(st.sampled_from(INDEXES))
    order = sorted(names, key=lambda nm: (idx.get(nm, 0), nm))
    props = {}
    for nm in names:
        sub = gen_node(draw, depth + 1, bool(last and order and nm == order[-1]), npmode)
        if nm in idx:
            sub["index"] = idx[nm]
        props[nm] = sub
    for nm in names:
        if draw(st.integers(0, 3)) == 0:
            props[nm]["default"] = draw_value(draw, props[nm])
    s = {"type": "object", "properties": props}
    if draw(st.integers(0, 2)) == 0:
        nodef = [nm for nm in names if "default" not in props[nm]]
        withdef = [nm for nm in names if "default" in props[nm]]
        s["required"] = nodef + [nm for nm in withdef if draw(st.booleans())]
    if draw(st.integers(0, 5)) == 0:
        s["additionalProperties"] = False
    if draw(st.integers(0, 5)) == 0:
        s["description"] = "d"
    return s


@st.composite
def struct_schema(draw, npmode=None):
    if npmode is None:
        npmode = draw(st.integers(0, 9)) < 4
    s = gen_object(draw, 0, True, npmode, top=True)
    out = {"codec": "struct"}
    out.update(s)
    if not npmode and draw(st.integers(0, 4)) == 0:
        out["type"] = ["object", "null"]
    if draw(st.integers(0, 6)) == 0:
        out["title"] = "t"
    # a schema of the documented numpy subset with a format-less null is the (reported) finding
    # struct.numpy_dtype_bare_null: never drawn; outside the subset bare nulls stay.
    if R.in_numpy_subset(out) and R.has_bare_null(out):
        for node, _ in R.walk_schema(out):
            if node.get("type") == "null" and "binaryFormat" not in node:
                node["binaryFormat"] = "0x"
    return out


# ------------------------------------------------------------------ struct: mutants
def obj_nodes(s, v, path=()):
    """(path, sub-schema, value) for every node present in v."""
    yield path, s, v
    t = R.node_type(s)
    if t == "object" and isinstance(v, dict):
        for name, sub in s.get("properties", {}).items():
            if name in v:
                yield from obj_nodes(sub, v[name], path + (name,))
    elif t == "array" and isinstance(v, list):
        for i, e in enumerate(v):
            yield from obj_nodes(s["items"], e, path + (i,))


def replace_at(obj, path, fn):
    obj = copy.deepcopy(obj)
    if not path:
        return fn(obj)
    cur = obj
    for p in path[:-1]:
        cur = cur[p]
    cur[path[-1]] = fn(cur[path[-1]])
    return obj


# kind -> exception class names accepted as "rejected" (checked in c12.py)
VALIDATION = "validation"
ENCODING = "encoding"
STRUCT_MUTANT_CLASS = {
    "int_out_of_range": ENCODING, "float_for_int_format": ENCODING, "missing_required": VALIDATION,
    "extra_property": VALIDATION, "wrong_type": VALIDATION, "fixed_length_mismatch": ENCODING,
    "prefix_overflow": ENCODING, "unencodable_char": ENCODING, "c_wrong_length": ENCODING,
    "top_not_object": VALIDATION,
}


def struct_mutant(draw, schema, obj):
    """One non-conforming variant of obj, or None if there is no place for the drawn kind."""
    nodes = list(obj_nodes(schema, obj))
    cands = []
    for path, s, v in nodes:
        t = R.node_type(s)
        if t == "object" and isinstance(v, dict):
            cands.append(("extra_property", path, s))
            if any(k in v for k in R.effective_required(s)):
                cands.append(("missing_required", path, s))
        elif t == "array":
            m = R.array_mode(s)
            if m == "fixed":
                cands.append(("fixed_length_mismatch", path, s))
            if (m == "prefix" and s.get("arrayLengthFormat") == "B" and R.min_size(s["items"]) <= 2
                    and s["items"]["type"] not in ("object", "array")):
                cands.append(("prefix_overflow", path, s))
        elif t == "string":
            n, ch = R.fmt_parts(s["binaryFormat"])
            if s.get("stringEncoding", "utf-8") in ("ascii", "latin-1"):
                cands.append(("unencodable_char", path, s))
            if ch == "c":
                cands.append(("c_wrong_length", path, s))
        elif t in ("number", "integer") and s["binaryFormat"] in R.INT_FMT:
            cands.append(("int_out_of_range", path, s))
            if t == "number":
                cands.append(("float_for_int_format", path, s))
        if path:
            cands.append(("wrong_type", path, s))
    cands.append(("top_not_object", (), schema))
    common = {"extra_property", "top_not_object", "wrong_type", "missing_required"}
    kinds = [k for k in sorted({c[0] for c in cands}) for _ in range(1 if k in common else 4)]
    kind = draw(st.sampled_from(kinds))
    sel = [c for c in cands if c[0] == kind]
    _, path, s = sel[draw(st.integers(0, len(sel) - 1))]
    if kind == "extra_property":
        extra = draw(st.sampled_from(["zzz", "extra", "aaa"]))
        if extra in s.get("properties", {}):
            return None
        bad = replace_at(obj, path, lambda v: dict(v, **{extra: 1}))
    elif kind == "missing_required":
        keys = [k for k in R.effective_required(s)]
        present = [k for k in keys if k in (_get(obj, path))]
        k = draw(st.sampled_from(sorted(present)))
        bad = replace_at(obj, path, lambda v: {a: b for a, b in v.items() if a != k})
    elif kind == "fixed_length_mismatch":
        if draw(st.booleans()) and s["length"] > 0:
            bad = replace_at(obj, path, lambda v: v[:-1])
        else:
            e = draw_value(draw, s["items"])
            bad = replace_at(obj, path, lambda v: v + [e])
    elif kind == "prefix_overflow":
        e = draw_value(draw, s["items"])
        bad = replace_at(obj, path, lambda v: [e] * 256)
    elif kind == "unencodable_char":
        bad = replace_at(obj, path, lambda v: "€" if R.fmt_parts(s["binaryFormat"])[1] == "c"
                         else v[:2] + "€")
    elif kind == "c_wrong_length":
        w = draw(st.sampled_from(["", "ab"]))
        bad = replace_at(obj, path, lambda v: w)
    elif kind == "int_out_of_range":
        lo, hi = R.int_range(s["binaryFormat"])
        w = draw(st.sampled_from([lo - 1, hi + 1, hi + 2**70]))
        bad = replace_at(obj, path, lambda v: w)
    elif kind == "float_for_int_format":
        bad = replace_at(obj, path, lambda v: 1.5)
    elif kind == "wrong_type":
        t = R.node_type(s)
        w = {"number": ["x", None, True, [1]], "integer": ["x", None, True, 1.5],
             "boolean": [1, "x", None], "string": [5, None, ["a"]], "null": [0, "", False],
             "array": [7, {"a": 1}, "ab", None], "object": [3, [1], "o", None]}[t]
        w = draw(st.sampled_from(w))
        bad = replace_at(obj, path, lambda v: w)
    else:  # top_not_object
        w = [[], "s", 3, [obj]] + ([] if R.is_nullable_top(schema) else [None])
        bad = draw(st.sampled_from(w))
    return [kind, bad]


def _get(obj, path):
    for p in path:
        obj = obj[p]
    return obj


@st.composite
def struct_case(draw, npmode=None, nobj=(1, 3), nbad=(0, 2)):
    schema = draw(struct_schema(npmode=npmode))
    objs = [draw_value(draw, schema) for _ in range(draw(st.integers(*nobj)))]
    bad = []
    for _ in range(draw(st.integers(*nbad))):
        base = objs[draw(st.integers(0, len(objs) - 1))]
        if base is None:
            continue
        m = struct_mutant(draw, schema, base)
        if m is not None:
            bad.append(m)
    return dict(codec="struct", schema=R.tag(schema), objs=R.tag(objs), bad=R.tag(bad))


# ------------------------------------------------------------------ JSON: schemas and values
JTEXT = st.text(alphabet=st.sampled_from(["a", "b", " ", "\x00", "\xe9", "€", "\U0001F600", '"',
                                          "\\", "\n", "/"]), max_size=6)
JNUM = st.one_of(
    st.integers(-5, 5), st.sampled_from([2**31, -(2**63), 2**64, 10**30, 0.5, -0.0, 1e22, 1e-7, 1 / 3,
                                          1.5e300, 5e-324]),
    st.floats(allow_nan=False, allow_infinity=False))


def any_json(draw, depth=0):
    k = draw(st.integers(0, 7 if depth < 2 else 4))
    if k == 0:
        return None
    if k == 1:
        return draw(st.booleans())
    if k in (2, 3):
        return draw(JNUM)
    if k == 4:
        return draw(JTEXT)
    if k in (5, 6):
        return [any_json(draw, depth + 1) for _ in range(draw(st.integers(0, 3)))]
    keys = draw(st.lists(st.sampled_from(NAMES + ["\xe9", "A", "", "10", "9"]), max_size=3, unique=True))
    return {kk: any_json(draw, depth + 1) for kk in keys}


def gen_json_node(draw, depth):
    kinds = ["integer", "number", "string", "boolean", "null", "any"]
    if depth < 2:
        kinds += ["array", "object", "object"]
    k = draw(st.sampled_from(kinds))
    if k == "any":
        return {} if draw(st.booleans()) else {"description": "anything"}
    s = {"type": k}
    if k == "integer" and draw(st.integers(0, 2)) == 0:
        s["minimum"] = draw(st.sampled_from([0, -3]))
        if draw(st.booleans()):
            s["maximum"] = 7
    elif k == "number" and draw(st.integers(0, 3)) == 0:
        s["maximum"] = 100
    elif k == "string":
        c = draw(st.integers(0, 5))
        if c == 0:
            s["maxLength"] = 3
        elif c == 1:
            s["enum"] = ["x", "yy", ""]
    elif k == "array":
        if draw(st.integers(0, 3)) != 0:
            s["items"] = gen_json_node(draw, depth + 1)
        if draw(st.integers(0, 3)) == 0:
            s["maxItems"] = 2
    elif k == "object":
        s.update(gen_json_object(draw, depth + 1, top=False))
    return s


def gen_json_object(draw, depth, top):
    n = draw(st.integers(0 if not top else 0, 3))
    names = draw(st.lists(st.sampled_from(NAMES), min_size=n, max_size=n, unique=True))
    props = {nm: gen_json_node(draw, depth) for nm in names}
    s = {}
    if names or draw(st.booleans()):
        s["properties"] = props
    if names and draw(st.booleans()):
        s["required"] = [nm for nm in names if draw(st.booleans())]
    ap = draw(st.integers(0, 4))
    if ap == 0:
        s["additionalProperties"] = False
    elif ap == 1:
        s["additionalProperties"] = True
    elif ap == 2:
        s["additionalProperties"] = {"type": "integer"}
    return s


def json_value(draw, s, depth=0):
    t = s.get("type")
    if t is None:
        return any_json(draw, depth + 1)
    if t == "integer":
        lo = s.get("minimum")
        hi = s.get("maximum")
        if lo is None and hi is None:
            return draw(st.one_of(st.integers(-3, 3), st.sampled_from([2**40, -(2**70)])))
        return draw(st.integers(lo if lo is not None else -10, hi if hi is not None else 10**25))
    if t == "number":
        if "maximum" in s:
            return draw(st.sampled_from([100, 99.5, -1e300, 0, 1 / 3]))
        return draw(JNUM)
    if t == "string":
        if "enum" in s:
            return draw(st.sampled_from(s["enum"]))
        v = draw(JTEXT)
        return v[: s["maxLength"]] if "maxLength" in s else v
    if t == "boolean":
        return draw(st.booleans())
    if t == "null":
        return None
    if t == "array":
        k = draw(st.integers(0, min(3, s.get("maxItems", 3))))
        it = s.get("items", {})
        return [json_value(draw, it, depth + 1) for _ in range(k)]
    return json_object_value(draw, s, depth)


def json_object_value(draw, s, depth):
    props = s.get("properties", {})
    req = set(s.get("required", []))
    v = {}
    for nm, sub in props.items():
        if nm in req or draw(st.integers(0, 2)) != 0:
            v[nm] = json_value(draw, sub, depth + 1)
    ap = s.get("additionalProperties", True)
    if ap is not False and draw(st.integers(0, 2)) == 0:
        for nm in draw(st.lists(st.sampled_from(["x1", "x2", "\xe9", "A"]), max_size=2, unique=True)):
            if nm not in props:
                v[nm] = draw(st.integers(-9, 9)) if isinstance(ap, dict) else any_json(draw, depth + 1)
    return v


@st.composite
def json_schema(draw):
    s = {"codec": "json"}
    if draw(st.integers(0, 3)) != 0:
        s["type"] = "object"
    s.update(gen_json_object(draw, 1, top=True))
    # top level defaults (the only level the JSON codec fills in)
    for nm, sub in s.get("properties", {}).items():
        if draw(st.integers(0, 2)) == 0:
            sub["default"] = json_value(draw, sub, 1)
    if draw(st.integers(0, 6)) == 0:
        s["default"] = {}
    return s


def json_nodes(s, v, path=()):
    yield path, s, v
    if s.get("type") == "object" and isinstance(v, dict):
        for nm, sub in s.get("properties", {}).items():
            if nm in v:
                yield from json_nodes(sub, v[nm], path + (nm,))
    elif s.get("type") == "array" and isinstance(v, list) and "items" in s:
        for i, e in enumerate(v):
            yield from json_nodes(s["items"], e, path + (i,))


WRONG = {"integer": ["x", None, True, 1.5, [1]], "number": ["x", None, True, {}], "string": [5, None, []],
         "boolean": [0, 1, "true", None], "null": [0, "", False, []],
         "array": [7, {"a": 1}, "ab", None], "object": [3, [1], "o", None]}


def json_mutant(draw, schema, obj):
    """Non-conforming variant of obj.  Only for schemas with >= 1 top-level property: schemas
    without properties skip validation altogether (reported finding), never exercised here."""
    if not schema.get("properties") or not isinstance(obj, dict):
        return None
    top = dict(schema)
    top.setdefault("type", "object")
    cands = []
    for path, s, v in json_nodes(top, obj):
        t = s.get("type")
        if t == "object" and isinstance(v, dict):
            if any(k in v for k in s.get("required", [])):
                cands.append(("missing_required", path, s))
            if s.get("additionalProperties", True) is False:
                cands.append(("extra_property", path, s))
            if isinstance(s.get("additionalProperties"), dict):
                cands.append(("extra_property_wrong_type", path, s))
        if t is not None and (path or "type" in schema):
            cands.append(("wrong_type", path, s))
        if t == "integer" and ("minimum" in s or "maximum" in s):
            cands.append(("out_of_bounds", path, s))
        if t == "number" and "maximum" in s:
            cands.append(("out_of_bounds", path, s))
        if t == "string" and ("maxLength" in s or "enum" in s):
            cands.append(("string_constraint", path, s))
        if t == "array" and "maxItems" in s:
            cands.append(("too_many_items", path, s))
        if t is None and path:
            cands.append(("unserialisable", path, s))
    if not cands:
        return None
    kinds = sorted({c[0] for c in cands})
    kind = draw(st.sampled_from(kinds))
    sel = [c for c in cands if c[0] == kind]
    _, path, s = sel[draw(st.integers(0, len(sel) - 1))]
    if kind == "missing_required":
        present = sorted(k for k in s.get("required", []) if k in _get(obj, path))
        k = draw(st.sampled_from(present))
        bad = replace_at(obj, path, lambda v: {a: b for a, b in v.items() if a != k})
    elif kind == "extra_property":
        if "qq" in s.get("properties", {}):
            return None
        bad = replace_at(obj, path, lambda v: dict(v, qq=1))
    elif kind == "extra_property_wrong_type":
        bad = replace_at(obj, path, lambda v: dict(v, qq="no"))
    elif kind == "wrong_type":
        w = draw(st.sampled_from(WRONG[s["type"]]))
        bad = replace_at(obj, path, lambda v: w) if path else w
    elif kind == "out_of_bounds":
        if "maximum" in s and draw(st.booleans()):
            w = s["maximum"] + 1
        elif "minimum" in s:
            w = s["minimum"] - 1
        else:
            w = s["maximum"] + 1
        bad = replace_at(obj, path, lambda v: w)
    elif kind == "string_constraint":
        bad = replace_at(obj, path, lambda v: "toolong")
    elif kind == "too_many_items":
        e = json_value(draw, s.get("items", {}), 2)
        bad = replace_at(obj, path, lambda v: [e] * 3)
    else:
        bad = replace_at(obj, path, lambda v: b"raw")
    return [kind, bad]


@st.composite
def json_case(draw, nobj=(1, 3), nbad=(0, 2)):
    schema = draw(json_schema())
    objs = [json_object_value(draw, schema, 0) for _ in range(draw(st.integers(*nobj)))]
    if "type" not in schema and not schema.get("properties") and not schema.get("required") \
            and schema.get("additionalProperties", True) is True and draw(st.integers(0, 2)) == 0:
        objs.append(any_json(draw, 0))  # fully permissive schema: any JSON value
    bad = []
    for _ in range(draw(st.integers(*nbad))):
        base = objs[draw(st.integers(0, len(objs) - 1))]
        m = json_mutant(draw, schema, base)
        if m is not None:
            bad.append(m)
    return dict(codec="json", schema=R.tag(schema), objs=R.tag(objs), bad=R.tag(bad))


# ------------------------------------------------------------------ meta-schema violations
I32 = {"type": "integer", "binaryFormat": "i"}


META_RULES = [
    # (rule, codec, places)   places: "top" = whole schema / a top-level property, "nested" = deeper
    "no_codec", "unknown_codec", "top_type_not_object", "top_type_bad_union",
    "scalar_without_binaryFormat", "bad_binaryFormat", "binaryFormat_not_string",
    "length_with_arrayLengthFormat", "length_with_exhaust", "negative_length", "non_integer_length",
    "bad_arrayLengthFormat", "optional_without_default", "union_type", "nested_object_null_union",
    "heterogeneous_items", "null_with_non_padding_format", "json_default_below_top_level",
    "index_not_number", "nullTerminated_not_boolean", "exhaust_not_boolean",
    "stringEncoding_not_string", "required_not_list", "properties_not_object", "unknown_type_name",
    "json_keyword_wrong_type",
]
# rules that the unchanged tree enforces only for the properties of the top-level object (reported as
# findings, probes in c12.py); they are planted at top level only
NESTED_UNCHECKED = {"optional_without_default", "length_with_arrayLengthFormat", "length_with_exhaust",
                    "negative_length"}
TOP_ONLY = NESTED_UNCHECKED | {"null_with_non_padding_format"}


@st.composite
def meta_case(draw):
    rule = draw(st.sampled_from(META_RULES))
    nested = draw(st.booleans())
    where = "top"
    name = draw(st.sampled_from(["a", "b", "k", "zz", "id"]))

    def wrap(sub, extra_props=None, **kw):
        """Put the offending sub-schema under property `name`, at top level or one level down."""
        nonlocal where
        props = {name: sub}
        if extra_props:
            props.update(extra_props)
        if nested and rule not in TOP_ONLY:
            where = "nested"
            inner = {"type": "object", "properties": props}
            inner.update(kw)
            return {"codec": "struct", "type": "object", "properties": {"o": inner, "q": dict(I32)}}
        s = {"codec": "struct", "type": "object", "properties": dict(props, q=dict(I32))}
        s.update(kw)
        return s

    arr = {"type": "array", "items": dict(I32)}
    if rule == "no_codec":
        s = draw(st.one_of(struct_schema(npmode=False), json_schema()))
        del s["codec"]
    elif rule == "unknown_codec":
        s = draw(st.one_of(struct_schema(npmode=False), json_schema()))
        s["codec"] = draw(st.sampled_from(["xml", "", "JSON", "Struct", "msgpack"]))
    elif rule == "top_type_not_object":
        s = draw(st.one_of(struct_schema(npmode=False), json_schema()))
        s["type"] = draw(st.sampled_from(["array", "string", "null", "number"]))
    elif rule == "top_type_bad_union":
        s = draw(st.one_of(struct_schema(npmode=False), json_schema()))
        s["type"] = draw(st.sampled_from([["object", "string"], ["null", "object"], ["object"],
                                          ["object", "null", "array"]]))
    elif rule == "scalar_without_binaryFormat":
        t = draw(st.sampled_from(["integer", "number", "string", "boolean"]))
        s = wrap({"type": t})
    elif rule == "bad_binaryFormat":
        f = draw(st.sampled_from(["z", "2i", "<i", "ii", "", "3", "s3", "n", "e", " i", "P"]))
        s = wrap({"type": "integer", "binaryFormat": f})
    elif rule == "binaryFormat_not_string":
        s = wrap({"type": "integer", "binaryFormat": draw(st.sampled_from([4, None, ["i"]]))})
    elif rule == "length_with_arrayLengthFormat":
        s = wrap(dict(arr, length=draw(st.integers(0, 3)), arrayLengthFormat=draw(st.sampled_from("BHILQ"))))
    elif rule == "length_with_exhaust":
        s = wrap(dict(arr, length=draw(st.integers(0, 3)), noLengthEncodingExhaustBuffer=True))
    elif rule == "negative_length":
        s = wrap(dict(arr, length=draw(st.sampled_from([-1, -5]))))
    elif rule == "non_integer_length":
        s = wrap(dict(arr, length=draw(st.sampled_from([1.5, "2", None, [1]]))))
    elif rule == "bad_arrayLengthFormat":
        s = wrap(dict(arr, arrayLengthFormat=draw(st.sampled_from(["b", "q", "x", "BB", "", 1, "f"]))))
    elif rule == "optional_without_default":
        s = wrap(dict(I32), extra_props={"w": dict(I32)}, required=draw(st.sampled_from([[], ["w"], ["q"]])))
    elif rule == "union_type":
        s = wrap({"type": draw(st.sampled_from([["integer", "string"], ["number", "null"], ["integer"]])),
                  "binaryFormat": "i"})
    elif rule == "nested_object_null_union":
        s = wrap({"type": ["object", "null"], "properties": {"x": dict(I32)}})
    elif rule == "heterogeneous_items":
        s = wrap({"type": "array", "items": [dict(I32), dict(I32)]})
    elif rule == "null_with_non_padding_format":
        name = "null"  # the only spelling the unchanged tree checks (see report)
        s = wrap({"type": "null", "binaryFormat": draw(st.sampled_from(["i", "3s", "c", "?", "d"]))})
    elif rule == "json_default_below_top_level":
        leaf = {"type": "integer", "default": 3}
        inner = {"type": "object", "properties": {name: leaf}}
        s = {"codec": "json", "type": "object", "properties": {"p": inner}}
    elif rule == "index_not_number":
        s = wrap(dict(I32, index=draw(st.sampled_from(["1", None, [1], True]))))
    elif rule == "nullTerminated_not_boolean":
        s = wrap({"type": "string", "binaryFormat": "4s", "nullTerminated": draw(st.sampled_from(["yes", 1, None]))})
    elif rule == "exhaust_not_boolean":
        s = wrap(dict(arr, noLengthEncodingExhaustBuffer=draw(st.sampled_from([1, "true", None]))))
    elif rule == "stringEncoding_not_string":
        s = wrap({"type": "string", "binaryFormat": "4s", "stringEncoding": draw(st.sampled_from([5, None, ["utf-8"]]))})
    elif rule == "required_not_list":
        s = wrap(dict(I32), required=draw(st.sampled_from(["a", 1, {"a": 1}])))
    elif rule == "properties_not_object":
        codec = draw(st.sampled_from(["json", "struct"]))
        s = {"codec": codec, "type": "object", "properties": draw(st.sampled_from([[1], "x", 3]))}
    elif rule == "unknown_type_name":
        codec = draw(st.sampled_from(["json", "struct"]))
        s = {"codec": codec, "type": "object",
             "properties": {name: {"type": draw(st.sampled_from(["integre", "int", "float", "str"])),
                                   "binaryFormat": "i"}}}
    else:  # json_keyword_wrong_type
        kw = draw(st.sampled_from([("minimum", "x"), ("maxLength", -1), ("required", "a"),
                                   ("enum", 3), ("maxItems", "2"), ("pattern", 5)]))
        s = {"codec": "json", "type": "object", "properties": {name: {"type": "integer", kw[0]: kw[1]}}}
    return dict(rule=rule, where=where, schema=R.tag(s))
