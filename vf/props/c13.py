"""C13 — tables behave like a list of rows; tree sequences never change."""
import io

from hypothesis import strategies as st

from .. import gen, model
from ..core import SubCheck
from ..gen import F
from . import _c13_tables as T

META = dict(
    level="exploration",
    rule="(a) Histories: JSON lists of <=30 operations (add_row, append, t[int], t[slice], t[mask], t[ids], "
    "continuing on the result of fancy indexing, row assignment with equal and different ragged lengths, truncate, "
    "keep_rows with and without closure over self-references, clear, set_columns/append_columns with optional "
    "columns left out, packset_*, column attribute assignment, drop_metadata, copy, pickle, replace_with, "
    "asdict + scribbling on returned arrays, growth bursts of 20-1100 rows, schema changes, failing operations) "
    "for each of the eight table classes with arbitrary row values (any uint32 flags, ids, any double bit pattern "
    "incl. NaN payloads, ragged cells with empty rows / NULs / non-ASCII text), interpreted against the real table "
    "and a Python list of row dicts (vf/props/_c13_tables.py); after every step every column, offset array, row "
    "object and the schema string are compared byte for byte. (b) Tree-sequence histories: a valid tree sequence "
    "(vf/gen.py) x <=20 calls from a catalogue of properties / methods / iterators of TreeSequence, Tree, Variant "
    "and row objects; every array reachable from a result is written to if writeable (then fetching again must "
    "give the original values) or must refuse the write; after every step dump_tables() is byte-equal to the "
    "snapshot taken at construction.",
    assumptions=[
        "model = Python list of row dicts; column bytes derived with struct.pack",
        "text columns hold valid UTF-8 (rows could not be read back through the row API otherwise)",
        "with a JSON schema set, rows entering through add_row/append/row assignment carry JSON objects; bytes "
        "written by bulk methods are never validated (documented) and their decoding is not asserted",
        "failed operations are required to leave the table unchanged only where the Python layer documents or "
        "performs the check before modifying (index errors, length mismatches, keep_rows errors 'checked before "
        "any alterations', malformed offsets other than offsets[0] != 0)",
        "a call that raises a documented error (ValueError/LibraryError/...) in part (b) is not a violation; only "
        "mutation of the tree sequence or a writeable non-copy array is",
        "bounds: <=30 operations, tables mostly <=40 rows with bursts to >1100 rows; tree sequences <=8 nodes",
    ],
    technique="model-based testing: generated operation histories interpreted against the object and a reference model",
    engines=["hypothesis-runner", "stateful-histories"],
)

K_PROV = "tables.provenance_fancy_indexing_attribute_error"
K_OFFSET0 = "tables.set_columns_bad_first_offset_clears_table"
K_CACHED = "ts.cached_writeable_individuals_arrays"


# ------------------------------------------------------------------ (a) probes for table findings
def run_history(case, ctx):
    if case.get("probe") == "provenance_fancy_index":
        import tskit

        t = tskit.ProvenanceTable()
        t.add_row(record="r0", timestamp="t0")
        t.add_row(record="r1", timestamp="t1")
        m = T.Model("provenances")
        m.rows = [dict(record="r0", timestamp="t0"), dict(record="r1", timestamp="t1")]
        for idx, rows in ((slice(0, 1), m.rows[:1]), ([1, 0], m.rows[::-1]), ([True, False], m.rows[:1])):
            try:
                sub = t[idx]
            except AttributeError as e:
                ctx.fail("provenance_fancy_index", f"ProvenanceTable[{idx!r}] raised AttributeError: {e}")
            T.check_table(ctx, m, sub, rows, "", "provenance_fancy_index")
        return
    if case.get("probe") == "bad_first_offset":
        import numpy as np
        import tskit

        t = tskit.NodeTable()
        m = T.Model("nodes")
        for i in range(3):
            t.add_row(flags=i, time=float(i), metadata=b"ab")
            m.rows.append(dict(flags=i, time=float(i), population=-1, individual=-1, metadata=b"ab"))
        before = T.snapshot(m, t)
        try:
            t.set_columns(flags=[1, 2], time=[0, 0], metadata=np.array([1, 2, 3], dtype=np.int8),
                          metadata_offset=[1, 2, 3])
        except ValueError:
            pass
        ctx.check(T.snapshot(m, t) == before, "failed_op_changed_table",
                  f"set_columns with metadata_offset[0] != 0 raised but left the table with {len(t)} rows (was 3)")
        return
    return T.run_history(case, ctx)


def classify_history(case, exc):
    if case.get("probe") == "provenance_fancy_index" and exc.what == "provenance_fancy_index":
        return K_PROV
    if case.get("probe") == "bad_first_offset" and exc.what == "failed_op_changed_table":
        return K_OFFSET0
    return None


# ------------------------------------------------------------------ (b) tree sequences never change
ARRAY_PROPS = [
    "nodes_time", "nodes_flags", "nodes_population", "nodes_individual", "edges_left", "edges_right",
    "edges_parent", "edges_child", "sites_position", "mutations_site", "mutations_node", "mutations_parent",
    "mutations_time", "migrations_left", "migrations_right", "migrations_node", "migrations_source",
    "migrations_dest", "migrations_time", "indexes_edge_insertion_order", "indexes_edge_removal_order",
    "individuals_flags",
]
# cached *and* writeable on the unchanged tree: the reported finding, exercised by the probe only
CACHED_WRITEABLE = ["individuals_population", "individuals_time", "individuals_location",
                    "individual_populations", "individual_times", "individual_locations"]
TREE_ARRAYS = ["parent_array", "left_child_array", "right_child_array", "left_sib_array", "right_sib_array",
               "num_children_array", "edge_array"]
TS_CALLS = [
    "samples", "samples_pop", "breakpoints_array", "genotype_matrix", "diversity", "segregating_sites",
    "allele_frequency_spectrum", "divergence_matrix", "genetic_relatedness_matrix", "mean_descendants",
    "genealogical_nearest_neighbours", "pair_coalescence_counts", "ld_matrix", "kc_distance",
    "nodes_iter", "edges_iter", "sites_iter", "mutations_iter", "individuals_iter", "populations_iter",
    "migrations_iter", "provenances_iter", "variants_iter", "variants_copy", "haplotypes", "edge_diffs",
    "edgesets", "trees_iter", "aslist", "tree_arrays", "tree_traversals", "tree_samples", "tree_seek",
    "tree_copy", "tree_map_mutations", "tree_split_polytomies", "variant_decode",
    "simplify", "simplify_subset", "delete_sites", "keep_intervals", "delete_intervals", "ltrim", "rtrim", "trim",
    "subset", "decapitate", "split_edges", "extend_haplotypes", "impute_unknown_mutations_time", "union_self",
    "dump_tables_mutate", "tables_mutate", "tables_dict", "dump", "dump_text", "as_vcf", "newick", "draw_text",
    "to_macs", "metadata", "row_objects", "count_topologies", "ibd_segments", "first_last", "coiterate",
    "general_stat", "equals", "nbytes", "table_metadata_schemas",
]


@st.composite
def ts_case(draw):
    plain = draw(st.integers(0, 2)) > 0  # without migrations / edge metadata most editing methods run
    spec = draw(gen.ts_spec(max_nodes=8, max_intervals=3, max_sites=3, max_muts_per_site=2,
                            migrations=not plain, metadata=not plain, min_samples=2 if plain else 0))
    nops = draw(st.integers(3, 20))
    ops = []
    for _ in range(nops):
        k = draw(st.integers(0, 9))
        if k < 2:
            ops.append(["prop", draw(st.sampled_from(ARRAY_PROPS)), draw(st.integers(0, 3))])
        else:
            ops.append(["call", draw(st.sampled_from(TS_CALLS)), draw(st.integers(0, 10**6)), draw(st.integers(0, 3))])
    return dict(spec=spec, ops=ops)


def tc_bytes(tables):
    """Every byte a table collection holds."""
    d = {}
    for name, tab in tables.table_name_map.items():
        for c in tab.column_names:
            d[f"{name}.{c}"] = getattr(tab, c).tobytes()
        if name != "provenances":
            d[f"{name}.schema"] = repr(tab.metadata_schema)
    d["L"] = tables.sequence_length
    d["metadata"] = tables.metadata_bytes
    d["schema"] = repr(tables.metadata_schema)
    d["time_units"] = tables.time_units
    rs = tables.reference_sequence
    d["refseq"] = (rs.data, rs.url, rs.metadata_bytes, repr(rs.metadata_schema))
    if tables.has_index():
        d["index"] = (tables.indexes.edge_insertion_order.tobytes(), tables.indexes.edge_removal_order.tobytes())
    return d


def find_arrays(obj, out, depth=0):
    """All numpy arrays reachable from a returned object (tuples, lists, dicts, row objects, variants)."""
    import numpy as np

    if depth > 4 or obj is None or isinstance(obj, (str, bytes, int, float, bool)):
        return
    if isinstance(obj, np.ndarray):
        out.append(obj)
        return
    if isinstance(obj, (tuple, list)):
        for x in obj[:64]:
            find_arrays(x, out, depth + 1)
        return
    if isinstance(obj, dict):
        for k in list(obj)[:64]:
            find_arrays(obj[k], out, depth + 1)
        return
    mod = type(obj).__module__ or ""
    if mod.startswith("tskit"):
        names = list(getattr(type(obj), "__slots__", ())) + list(getattr(type(obj), "__dataclass_fields__", {}))
        if type(obj).__name__ == "Variant":
            names = ["genotypes", "samples", "alleles"]
        for nm in dict.fromkeys(names):
            if nm.startswith("_") or nm in ("metadata", "tree_sequence"):
                continue
            try:
                v = getattr(obj, nm)
            except Exception:
                continue
            find_arrays(v, out, depth + 1)


def garbage(a):
    import numpy as np

    if a.dtype.kind == "b":
        a[...] = ~a
    elif a.dtype.kind in "iu":
        a[...] = a ^ 0x55
    elif a.dtype.kind == "f":
        a[...] = -123.25
    elif a.dtype.kind in "SU":
        a[...] = "#"
    elif a.dtype.kind == "O":
        a[...] = None
    elif a.dtype.kind == "V":
        a.view(np.uint8)[...] = 0x5A


def attack(ctx, arrays, what):
    """Write into every array: a writeable one is overwritten (it then has to have been a copy), a
    read-only one must refuse, also after an attempt to make it writeable."""
    wrote = False
    for a in arrays:
        if a.flags.writeable:
            if a.size:
                garbage(a)
                wrote = True
                ctx.label("wrote_into_writeable")
            continue
        try:
            a[...] = a
            ctx.fail("readonly_array_accepted_write", f"{what}: assignment into a non-writeable array succeeded")
        except ValueError:
            ctx.label("readonly_refused")
        try:
            a.setflags(write=True)
        except ValueError:
            continue
        ctx.label("setflags_write_succeeded")
        ctx.label("setflags_ok:" + what.split(":")[-1])
        if a.size:
            garbage(a)
            wrote = True
    return wrote


def same_arrays(a, b):
    import numpy as np

    if len(a) != len(b):
        return False
    for x, y in zip(a, b):
        if x.shape != y.shape or x.dtype != y.dtype:
            return False
        if x.dtype.kind == "O":
            if x.tolist() != y.tolist():
                return False
        elif x.tobytes() != y.tobytes():
            return False
    return True


def ts_fetch(tskit, ts, spec, name, raw, ctx):
    """The catalogue: returns (value, deterministic) for one call with valid arguments."""
    import numpy as np

    n, L = ts.num_nodes, ts.sequence_length
    smp = list(map(int, ts.samples()))
    x = (raw % 16) / 16 * L
    tree_i = raw % ts.num_trees
    if name == "samples":
        return ts.samples()
    if name == "samples_pop":
        return ts.samples(population=raw % max(1, ts.num_populations)) if ts.num_populations else ts.samples(time=0)
    if name == "breakpoints_array":
        return ts.breakpoints(as_array=True)
    if name == "genotype_matrix":
        return ts.genotype_matrix(isolated_as_missing=bool(raw % 2))
    if name == "diversity":
        return ts.diversity(mode=["site", "branch", "node"][raw % 3], windows="trees" if raw % 2 else None)
    if name == "segregating_sites":
        return ts.segregating_sites(sample_sets=[smp[: 1 + raw % max(1, len(smp))]])
    if name == "allele_frequency_spectrum":
        return ts.allele_frequency_spectrum(polarised=bool(raw % 2), mode=["site", "branch"][raw // 2 % 2])
    if name == "divergence_matrix":
        return ts.divergence_matrix(mode=["site", "branch"][raw % 2])
    if name == "genetic_relatedness_matrix":
        return ts.genetic_relatedness_matrix(mode=["site", "branch"][raw % 2])
    if name == "mean_descendants":
        return ts.mean_descendants([smp])
    if name == "genealogical_nearest_neighbours":
        return ts.genealogical_nearest_neighbours(smp[:2], [smp])
    if name == "pair_coalescence_counts":
        return ts.pair_coalescence_counts()
    if name == "ld_matrix":
        return ts.ld_matrix()
    if name == "kc_distance":
        return ts.kc_distance(ts)
    if name.endswith("_iter") and name != "variants_iter" and name != "trees_iter":
        return list(getattr(ts, name[:-5])())[:20]
    if name == "variants_iter":
        out = []
        for v in ts.variants(copy=bool(raw % 2), isolated_as_missing=bool(raw // 2 % 2)):
            out.append((v.genotypes, v.alleles, v.site.position, v.samples))
        return out
    if name == "variants_copy":
        return [v.copy() for v in ts.variants()][:5]
    if name == "haplotypes":
        return list(ts.haplotypes(missing_data_character="N"))
    if name == "edge_diffs":
        return [(tuple(d.interval), [e.id for e in d.edges_out], [e.id for e in d.edges_in])
                for d in ts.edge_diffs(include_terminal=bool(raw % 2))]
    if name == "edgesets":
        return [(e.left, e.right, e.parent, tuple(e.children)) for e in ts.edgesets()]
    if name == "trees_iter":
        return [t.parent_array.copy() for t in ts.trees(sample_lists=bool(raw % 2))]
    if name == "aslist":
        return [t.parent_array for t in ts.aslist()]
    tree = ts.at_index(tree_i) if name.startswith("tree_") else None
    if name == "tree_arrays":
        return [getattr(tree, a) for a in TREE_ARRAYS]
    if name == "tree_traversals":
        return [tree.preorder(), tree.postorder(), tree.timeasc(), tree.timedesc(),
                np.array(list(tree.nodes(order="levelorder")), dtype=np.int64)]
    if name == "tree_samples":
        return [np.array(list(tree.samples()), dtype=np.int64), np.array(list(tree.leaves()), dtype=np.int64),
                tree.num_samples(), tree.total_branch_length]
    if name == "tree_seek":
        tree.seek(min(x, np.nextafter(L, 0)))
        tree.next()
        tree.prev()
        tree.first()
        tree.last()
        tree.clear()
        tree.seek_index(tree_i)
        return tree.parent_array
    if name == "tree_copy":
        c = tree.copy()
        c.next()
        return [tree.parent_array, c.index]
    if name == "tree_map_mutations":
        g = np.array([(raw >> i) % 2 for i in range(len(smp))], dtype=np.int8)
        g0 = g.copy()
        anc, muts = tree.map_mutations(g, ("0", "1"))
        ctx.check(g.tobytes() == g0.tobytes(), "argument_modified", "map_mutations changed the genotypes passed in")
        return [anc, [(m.node, m.derived_state, m.parent) for m in muts]]
    if name == "tree_split_polytomies":
        return tree.split_polytomies(random_seed=1 + raw % 5).parent_array
    if name == "variant_decode":
        if ts.num_sites == 0:
            return None
        v = tskit.Variant(ts)
        v.decode(raw % ts.num_sites)
        g1 = v.genotypes
        v.decode((raw // 7) % ts.num_sites)
        return [g1, v.genotypes, v.alleles, v.counts(), v.frequencies(), v.states()]
    if name == "simplify":
        r = ts.simplify(keep_unary=bool(raw % 2), filter_sites=bool(raw // 2 % 2), map_nodes=True)
        return [r[1], r[0].num_nodes]
    if name == "simplify_subset":
        sub = smp[: max(1, len(smp) // 2)] if smp else []
        a = np.array(sub, dtype=np.int32)
        a0 = a.copy()
        r = ts.simplify(a, filter_nodes=bool(raw % 2), keep_input_roots=bool(raw // 2 % 2))
        ctx.check(a.tobytes() == a0.tobytes(), "argument_modified", "simplify changed the samples passed in")
        return r.num_nodes
    if name == "delete_sites":
        return ts.delete_sites([raw % ts.num_sites] if ts.num_sites else []).num_sites
    if name == "keep_intervals":
        iv = np.array([[0.0, L / 2]])
        r = ts.keep_intervals(iv, simplify=bool(raw % 2))
        return r.num_edges
    if name == "delete_intervals":
        return ts.delete_intervals([[L / 4, L / 2]], simplify=bool(raw % 2)).num_edges
    if name in ("ltrim", "rtrim", "trim"):
        return getattr(ts, name)().sequence_length
    if name == "subset":
        nodes = [u for u in range(n) if (raw >> u) % 2]
        return ts.subset(nodes, reorder_populations=bool(raw % 2)).num_nodes
    if name == "decapitate":
        return ts.decapitate(float(raw % 4) + 0.5).num_nodes
    if name == "split_edges":
        return ts.split_edges(float(raw % 4) + 0.5).num_nodes
    if name == "extend_haplotypes":
        return ts.extend_haplotypes().num_edges
    if name == "impute_unknown_mutations_time":
        return ts.impute_unknown_mutations_time()
    if name == "union_self":
        return ts.union(ts, np.arange(n, dtype=np.int32), check_shared_equality=True).num_nodes
    if name == "dump_tables_mutate":
        t = ts.dump_tables()
        t.nodes.clear()
        t.edges.truncate(0)
        t.sites.add_row(position=0.123456, ancestral_state="X")
        t.metadata_schema = tskit.MetadataSchema.permissive_json()
        t.provenances.add_row(record="x", timestamp="y")
        t.drop_index()
        return None
    if name == "tables_mutate":
        t = ts.tables
        try:
            t.nodes.add_row(time=5)
            t.edges.clear()
            t.mutations.clear()
            t.sequence_length = 77
        except (AttributeError, TypeError, ValueError, tskit.TskitException, RuntimeError):
            ctx.label("ts.tables_is_immutable")
        for tab in ts.tables.table_name_map.values():
            for c in tab.column_names:
                a = getattr(tab, c)
                if a.flags.writeable and a.size:
                    garbage(a)
        return None
    if name == "tables_dict":
        return [ts.tables_dict[k] for k in ("nodes", "edges", "sites")]
    if name == "dump":
        import os

        path = os.path.join(os.environ.get("VF_SCRATCH", "/var/tmp"), "c13.trees")
        ts.dump(path)
        ok = tskit.load(path).equals(ts)
        os.unlink(path)
        return ok
    if name == "dump_text":
        fs = {k: io.StringIO() for k in ("nodes", "edges", "sites", "mutations", "individuals", "populations",
                                         "migrations", "provenances")}
        ts.dump_text(**fs)
        return None
    if name == "as_vcf":
        return len(ts.as_vcf(allow_position_zero=True))
    if name == "newick":
        return tree_newick(ts, tree_i)
    if name == "draw_text":
        return len(ts.draw_text())
    if name == "to_macs":
        return len(ts.to_macs())
    if name == "metadata":
        return [ts.metadata, ts.metadata_schema.schema, ts.time_units, ts.sequence_length]
    if name == "row_objects":
        out = []
        if ts.num_individuals:
            ind = ts.individual(raw % ts.num_individuals)
            out += [ind.location, ind.parents, ind.nodes]
        out.append(ts.node(raw % n).metadata)
        if ts.num_sites:
            s = ts.site(raw % ts.num_sites)
            out.append([m.id for m in s.mutations])
        return out
    if name == "count_topologies":
        return str(ts.count_topologies().topologies if hasattr(ts.count_topologies(), "topologies") else "")
    if name == "ibd_segments":
        return ts.ibd_segments(store_pairs=True).num_pairs
    if name == "first_last":
        return [ts.first().parent_array, ts.last().parent_array, ts.at(min(x, np.nextafter(L, 0))).parent_array]
    if name == "coiterate":
        return [tuple(iv) for iv, _, _ in ts.coiterate(ts)]
    if name == "general_stat":
        W = np.ones((ts.num_samples, 1))
        W0 = W.copy()
        r = ts.general_stat(W, lambda v: v * (ts.num_samples - v), 1, mode="site", polarised=False)
        ctx.check(W.tobytes() == W0.tobytes(), "argument_modified", "general_stat changed the weights passed in")
        return r
    if name == "equals":
        return ts.equals(ts.dump_tables().tree_sequence())
    if name == "nbytes":
        return [ts.nbytes, str(ts)[:10], ts._repr_html_()[:10]]
    if name == "table_metadata_schemas":
        return repr(ts.table_metadata_schemas.node)
    raise AssertionError(name)


def tree_newick(ts, i):
    t = ts.at_index(i)
    return [t.as_newick(root=r) for r in t.roots]


def run_ts(case, ctx):
    import tskit

    spec = case["spec"]
    for lab in gen.spec_labels(spec, model):
        ctx.label(lab)
    tables = gen.build_tables(spec, tskit)
    ts = tables.tree_sequence()
    snap_tables = ts.dump_tables()
    snap = tc_bytes(snap_tables)
    allowed = (ValueError, TypeError, tskit.TskitException, tskit.LibraryError, NotImplementedError, KeyError,
               IndexError, ZeroDivisionError)
    wrote_any = False

    def unchanged(what):
        now = ts.dump_tables()
        cur = tc_bytes(now)
        if cur != snap:
            diff = [k for k in snap if cur.get(k) != snap[k]]
            ctx.fail("tree_sequence_changed", f"after {what}: dump_tables() differs in {diff}")
        ctx.check(now.equals(snap_tables) and ts.tables.equals(snap_tables), "tree_sequence_changed",
                  f"after {what}: tables.equals(snapshot) is False")

    for step, op in enumerate(case["ops"]):
        what = f"step{step}:{op[1]}"
        if op[0] == "prop":
            name = op[1]
            fetch = lambda name=name: getattr(ts, name)  # noqa: E731
            a = fetch()
            if name not in CACHED_WRITEABLE:
                ctx.check(not a.flags.writeable or a.flags.owndata, "view_is_writeable",
                          f"ts.{name} is a writeable array that does not own its data")
        else:
            name, raw = op[1], op[2]
            fetch = lambda name=name, raw=raw: ts_fetch(tskit, ts, spec, name, raw, ctx)  # noqa: E731
        try:
            v1 = fetch()
        except allowed:
            ctx.label("call_raised")
            ctx.label("raised_" + op[1])
            unchanged(what + " (raised)")
            continue
        ctx.label("op_" + name)
        arrs = []
        find_arrays(v1, arrs)
        before = [a.copy() for a in arrs]
        wrote = attack(ctx, arrs, what)
        wrote_any = wrote_any or wrote
        unchanged(what)
        # fetching again gives what was there before the scribbling (no cached writeable arrays)
        v2 = fetch()
        arrs2 = []
        find_arrays(v2, arrs2)
        ctx.check(same_arrays(arrs2, before), "scribble_visible",
                  f"{what}: after writing into the returned arrays, the same call returns different arrays")
    unchanged("history")
    # the snapshot itself loads to an equal tree sequence
    ctx.check(ts.equals(snap_tables.tree_sequence()), "tree_sequence_changed", "ts != snapshot.tree_sequence()")
    ctx.label("wrote_any", wrote_any)
    ctx.nt(wrote_any)


def classify_ts(case, exc):
    if exc.what == "scribble_visible" and any(op[1] in CACHED_WRITEABLE for op in case["ops"]):
        return K_CACHED
    return None


_SPEC = dict(L=1.0, nodes=[[1, 0.0, 0, 0, ""], [1, 0.0, 0, 0, ""], [0, 1.0, 0, -1, ""]],
             edges=[[0.0, 1.0, 2, 0, ""], [0.0, 1.0, 2, 1, ""]], sites=[], mutations=[],
             individuals=[[0, [1.0, 2.0], [], ""]], populations=[[""]], migrations=[])
PROBES = {
    K_PROV: ("C13.table_history", dict(table="provenances", inc=0, ops=[], probe="provenance_fancy_index")),
    K_OFFSET0: ("C13.table_history", dict(table="nodes", inc=0, ops=[], probe="bad_first_offset")),
    K_CACHED: ("C13.ts_immutable", dict(spec=_SPEC, ops=[["prop", "individuals_population", 0],
                                                        ["prop", "individuals_time", 0],
                                                        ["prop", "individuals_location", 0]])),
}

NT_A = ("a row assignment that changed a ragged length followed by another operation, or keep_rows that "
        "remapped a self-reference, or a truncate followed by growth")
SUBCHECKS = [
    SubCheck("C13.table_history", run_history, strategy=T.history_case, quick=8000, thorough=240000,
             classify=classify_history, rule=NT_A,
             floors={"table_" + n: 0.05 for n in T.TABLES} | {"setitem_rewrite": 0.15, "keep_rows_remap": 0.008,
                                                               "truncate_then_grow": 0.06, "copies": 0.15,
                                                               "burst>=1100": 0.02, "setitem_inplace": 0.04,
                                                               "keep_rows_maps_to_deleted": 0.01}),
    SubCheck("C13.ts_immutable", run_ts, strategy=ts_case, quick=2500, thorough=75000, classify=classify_ts,
             rule="a history that wrote into >=1 writeable array obtained from the tree sequence",
             floors={"wrote_any": 0.3, "readonly_refused": 0.3}),
    SubCheck("C13.large_history", run_history, strategy=T.large_history_case, quick=16, thorough=600, shards=16,
             classify=classify_history, max_shrink_runs=(30, 200),
             rule=NT_A + ", in a history whose second step grows the table past 2^16 rows", floors={"burst>=65534": 0.9}),
]
