"""C03 — decoded genotypes follow nearest-mutation inheritance and missing-data rules."""
import itertools
import math
import os

from hypothesis import strategies as st

from .. import gen, model
from ..core import SubCheck
from ..gen import F

META = dict(
    level="exploration",
    rule="Valid tree sequences by construction (vf/gen.py ts_spec) with rich mutation patterns "
    "(recurrent/back/silent mutations, several mutations on one node and on one root-to-leaf path, "
    "mutations above roots, above isolated samples and on dead nodes, sites in gaps; alphabets: ACGT, "
    "binary, multi-character incl. the empty allele and same-length/prefix-related alleles, non-ASCII, "
    "and a 9-letter one giving >4 alleles per site) x samples (None | subset/permutation of samples | "
    "node lists with non-sample nodes) x isolated_as_missing (None/True/False) x user allele tuples "
    "(permutation/superset, with a duplicate, with one state dropped) x left/right windows x copy; "
    "operation histories of decode()/copy()/re-read over two live Variant objects; haplotypes(), "
    "alignments() and as_fasta() with missing characters, windows and reference sequences; and an "
    "exhaustive enumeration of all mutation lists on all small forests. The oracle is the positional "
    "model (vf/model.py allele_at / is_missing): nearest mutation on the path to the root, ancestral "
    "state otherwise, missing iff isolated_as_missing and the node is an isolated sample with no "
    "mutation on it.",
    assumptions=[
        "reference model vf/model.py (allele_at, is_missing, parent_at: positional, from raw rows)",
        "mutation parents in generated tables are the nearest mutation above (vf/gen.py), "
        "exhaustive tier: vf/model.py mutation_parents",
        "size bounds: <=9 nodes, <=4 elementary intervals, <=6 sites, <=7 mutations per site",
        "order of non-ancestral alleles is not asserted (documented as arbitrary); the state of a "
        "Variant after a failed decode() is not asserted",
        "when several documented errors apply to one call, any of the applicable exception types is accepted",
    ],
    technique="property-based testing (Hypothesis), operation-sequence histories and bounded exhaustive "
    "enumeration against the positional reference model",
    engines=["hypothesis-runner"],
    exhaustive_subchecks=["C03.exhaustive_small"],
)

KEY_COUNTS_DUP = "variant.counts_duplicate_user_alleles"
WHAT_COUNTS_DUP = "counts[duplicate user alleles]"
# development knob: behave as if KEY_COUNTS_DUP were listed open in known_findings.json
_ASSUME_OPEN = os.environ.get("VF_C03_ASSUME_OPEN") == "1"

ALPHABETS = {
    "acgt": ["A", "C", "G", "T"],
    "binary": ["0", "1"],
    "multi": ["", "A", "AA", "AC", "CA", "ACG", "T"],
    "wide": ["A", "C", "G", "T", "a", "c", "g", "t", "-"],
    "unicode": ["A", "é", "T", "ᚠ", "ü"],
}
ALPHA_CHOICES = ["acgt", "acgt", "binary", "multi", "multi", "wide", "wide", "unicode"]
ALPHA_ASCII = ["acgt", "acgt", "acgt", "binary", "wide", "wide", "multi", "unicode"]


# ------------------------------------------------------------------ generators
@st.composite
def geno_spec(draw, choices=ALPHA_CHOICES, max_nodes=9, max_sites=6, discrete=None):
    aname = draw(st.sampled_from(choices))
    mm = 7 if aname == "wide" else draw(st.sampled_from([2, 4, 4, 6]))
    spec = draw(gen.ts_spec(
        max_nodes=max_nodes, max_sites=max_sites, max_muts_per_site=mm, alphabet=ALPHABETS[aname],
        migrations=False, metadata=False, individuals=False, populations=False, extra_flags=False,
        discrete=discrete))
    return aname, spec


def draw_vconf(draw, spec, aname):
    n = len(spec["nodes"])
    smp = model.samples(spec)
    mode = draw(st.sampled_from(["all", "all", "subset", "nodes"]))
    if mode == "all":
        samples = None
    elif mode == "subset":
        samples = draw(st.lists(st.sampled_from(smp), unique=True, max_size=len(smp))) if smp else []
    else:
        samples = draw(st.lists(st.integers(0, n - 1), unique=True, min_size=1, max_size=n))
    iam = draw(st.sampled_from([None, True, False]))
    if mode == "nodes" and draw(st.integers(0, 7)) > 0:
        iam = False
    alpha = ALPHABETS[aname]
    amode = draw(st.sampled_from(["none", "none", "none", "perm", "dups", "drop"]))
    if amode == "none":
        alleles = None
    else:
        alleles = list(draw(st.permutations(alpha)))
        if amode == "perm" and draw(st.booleans()):
            alleles.insert(draw(st.integers(0, len(alleles))), "Z")
        elif amode == "dups":
            alleles.insert(draw(st.integers(0, len(alleles))), draw(st.sampled_from(alpha)))
        elif amode == "drop":
            alleles.pop(draw(st.integers(0, len(alleles) - 1)))
            if not alleles:
                alleles = ["Z"]
    return dict(samples=samples, arr=draw(st.booleans()), iam=iam, alleles=alleles)


def draw_window(draw, spec, integer=False):
    """left/right in {None, candidate positions}; mostly valid."""
    L = F(spec["L"])
    cand = {0.0, L}
    pos = [F(s[0]) for s in spec["sites"]]
    for x in pos:
        cand.add(x)
        if not integer:
            cand.add(math.nextafter(x, math.inf))
    for a, b in zip(pos[:-1], pos[1:]):
        cand.add(math.floor((a + b) / 2) if integer else (a + b) / 2)
    for b in model.breakpoints(spec):
        cand.add(b)
    if integer and L > 1:
        cand.update([1.0, L - 1])
    cand = sorted(c for c in cand if 0 <= c <= L)
    kind = draw(st.integers(0, 9))
    if kind <= 2:
        return None, None
    a = draw(st.sampled_from(cand))
    b = draw(st.sampled_from(cand))
    if kind == 9:
        return a, b  # raw: may be empty, reversed or touch the ends the wrong way
    if a > b:
        a, b = b, a
    if a >= L or a == b:
        a = None
    if b is not None and b <= 0:
        b = None
    if kind == 8:
        b = None
    return a, b


@st.composite
def variants_case(draw):
    aname, spec = draw(geno_spec())
    confs = []
    for _ in range(draw(st.integers(1, 3))):
        c = draw_vconf(draw, spec, aname)
        c["left"], c["right"] = draw_window(draw, spec)
        c["copy"] = draw(st.sampled_from([None, True, False]))
        confs.append(c)
    return dict(spec=spec, alpha=aname, confs=confs)


# ------------------------------------------------------------------ oracle
def geno_labels(spec):
    labs = set()
    smp = model.samples(spec)
    for j, s in enumerate(spec["sites"]):
        par = model.parent_at(spec, F(s[0]))
        ch = model.children_of(par)
        muts = model.site_mutations(spec, j)
        if all(p < 0 for p in par):
            labs.add("site_in_gap")
        states = {s[1]} | {m[2] for _, m in muts}
        if len(states) > 4:
            labs.add("gt4_alleles")
        if any(len(a) > 1 for a in states):
            labs.add("multichar_allele")
        if "" in states:
            labs.add("empty_allele")
        if any(not a.isascii() for a in states):
            labs.add("nonascii_allele")
        if not muts:
            labs.add("site_without_mutation")
        for _, m in muts:
            u = m[1]
            if m[3] >= 0:
                labs.add("stacked_mut_path")
            if par[u] < 0 and not ch[u]:
                labs.add("mut_above_isolated_sample" if model.is_sample(spec, u) else "mut_on_dead_node")
            if par[u] < 0 and ch[u]:
                labs.add("mut_above_root")
            prev = spec["mutations"][m[3]][2] if m[3] >= 0 else s[1]
            if m[2] == prev:
                labs.add("silent_mut")
            elif m[3] >= 0 and m[2] == s[1]:
                labs.add("back_mut")
        der = [m[2] for _, m in muts]
        if len(set(der)) < len(der):
            labs.add("recurrent_state")
        nds = [m[1] for _, m in muts]
        if len(set(nds)) < len(nds):
            labs.add("multi_mut_one_node")
        if any(model.is_missing(spec, j, u, par, ch) for u in smp):
            labs.add("missing_data")
        if any(ch[u] for u in smp):
            labs.add("internal_sample")
    if len(model.breakpoints(spec)) > 2:
        labs.add("multi_tree")
    return labs


NT_SPEC = {"stacked_mut_path", "mut_above_isolated_sample", "site_in_gap"}
NT_RULE = ("a site with >=2 mutations on one root-to-leaf path, or a mutation above an isolated sample, "
           "or a site in a gap, or a non-sample node requested")


def site_states(spec, j):
    return [spec["sites"][j][1]] + [m[2] for _, m in model.site_mutations(spec, j)]


def site_oracle(spec, j, nodes, iam):
    """Expected state per requested node: allele string, or None for missing."""
    par = model.parent_at(spec, F(spec["sites"][j][0]))
    ch = model.children_of(par)
    out = []
    for u in nodes:
        if iam and model.is_missing(spec, j, u, par, ch):
            out.append(None)
        else:
            out.append(model.allele_at(spec, j, u, par))
    return out


def conf_nodes(spec, conf):
    return list(conf["samples"]) if conf["samples"] is not None else model.samples(spec)


def conf_iam(conf):
    return True if conf["iam"] is None else bool(conf["iam"])


def conf_kwargs(np, conf):
    kw = {}
    if conf["samples"] is not None:
        kw["samples"] = np.array(conf["samples"], dtype=np.int64) if conf.get("arr") else list(conf["samples"])
    if conf["iam"] is not None:
        kw["isolated_as_missing"] = conf["iam"]
    if conf.get("alleles") is not None:
        kw["alleles"] = tuple(conf["alleles"])
    return kw


def conf_bad_nodes(spec, conf):
    """Non-sample nodes requested while isolated nodes are to be reported as missing."""
    return conf["samples"] is not None and conf_iam(conf) and any(
        not model.is_sample(spec, u) for u in conf["samples"])


def mapping_bad(spec, j, mapping):
    return mapping is not None and any(s not in mapping for s in site_states(spec, j))


def window_of(spec, left, right):
    """(l, r, valid) as documented for variants()/haplotypes()."""
    L = F(spec["L"])
    l = 0.0 if left is None else left
    r = L if right is None else right
    ok = (0 <= l < L) and (0 < r <= L) and l < r
    return l, r, ok


def sites_in(spec, l, r):
    return [j for j, s in enumerate(spec["sites"]) if l <= F(s[0]) < r]


def check_genotype_row(ctx, g, exp, anc, mapping, W):
    """A bare genotype row (no alleles tuple available) against the expected states."""
    ctx.check(len(g) == len(exp), W, f"row length {len(g)} expected {len(exp)}")
    seen = {}
    for i, s in enumerate(exp):
        gi = int(g[i])
        if s is None:
            ctx.check(gi == -1, W, f"entry {i}: genotype {gi} for a missing call")
            continue
        ctx.check(gi >= 0, W, f"entry {i}: genotype {gi} but state {s!r} is not missing")
        if mapping is not None:
            ctx.check(gi == mapping.index(s), W,
                      f"entry {i}: genotype {gi} expected first index {mapping.index(s)} of {s!r}")
        else:
            ctx.check((gi == 0) == (s == anc), W, f"entry {i}: genotype {gi}, state {s!r}, ancestral {anc!r}")
            ctx.check(seen.setdefault(gi, s) == s, W,
                      f"genotype value {gi} stands for both {seen[gi]!r} and {s!r}")
    if mapping is None:
        ctx.check(len(set(seen.values())) == len(seen), W, f"one state under two genotype values: {seen}")


def check_variant(ctx, tskit, np, v, spec, j, nodes, iam, mapping, W, deep=True, deferred=None):
    """Everything observable on a decoded Variant against the model."""
    exp = site_oracle(spec, j, nodes, iam)
    anc = spec["sites"][j][1]
    sst = site_states(spec, j)
    g = np.array(v.genotypes)
    al = v.alleles
    ctx.check(isinstance(al, tuple), W, "alleles is not a tuple")
    ctx.check(g.dtype == np.int32 and g.shape == (len(nodes),), W, f"genotypes dtype/shape {g.dtype} {g.shape}")
    ctx.eq([int(u) for u in v.samples], [int(u) for u in nodes], W + ".samples")
    site = v.site
    ctx.check(site.id == j and site.position == F(spec["sites"][j][0]) and site.ancestral_state == anc,
              W, f"site {site.id} expected {j}")
    ctx.check(v.index == j, W, "index")
    nmiss = sum(1 for s in exp if s is None)
    anymiss = nmiss > 0
    ctx.check(len(al) > 0, W, "empty alleles tuple")
    ctx.check((al[-1] is None) == anymiss, W,
              f"alleles {al} ends with None iff missing data; expected missing={anymiss} (states {exp})")
    core = al[:-1] if al[-1] is None else al
    ctx.check(all(isinstance(a, str) for a in core), W, f"non-string allele before the end: {al}")
    if mapping is None:
        ctx.check(core[0] == anc, W, f"alleles[0]={core[0]!r} is not the ancestral state {anc!r}")
        ctx.check(len(set(core)) == len(core), W, f"duplicate alleles {al}")
        ctx.check(set(core) == set(sst), W, f"alleles {al} expected the states of the site {sorted(set(sst))}")
    else:
        ctx.eq(tuple(core), tuple(mapping), W + ".alleles(user mapping)")
    for i, s in enumerate(exp):
        gi = int(g[i])
        if s is None:
            ctx.check(gi == -1, W, f"node {nodes[i]} site {j}: genotype {gi}, expected missing")
        else:
            ctx.check(0 <= gi < len(core), W,
                      f"node {nodes[i]} site {j}: genotype {gi} out of range for {al}, expected {s!r}")
            ctx.check(core[gi] == s, W,
                      f"node {nodes[i]} site {j}: allele {core[gi]!r} (genotype {gi} of {al}) expected {s!r}")
            if mapping is not None:
                ctx.check(gi == mapping.index(s), W,
                          f"node {nodes[i]}: genotype {gi} is not the first index of {s!r} in {mapping}")
    ctx.check(bool(v.has_missing_data) == anymiss, W, "has_missing_data")
    ctx.check(int(v.num_missing) == nmiss, W, f"num_missing {v.num_missing} expected {nmiss}")
    ctx.check(v.num_alleles == len(core), W, f"num_alleles {v.num_alleles} expected {len(core)}")
    ctx.check(bool(v.isolated_as_missing) == iam, W, "isolated_as_missing")
    if not deep:
        return
    # states()
    for mds in (None, "?", "A"):
        ch_ = "N" if mds is None else mds
        if anymiss and ch_ in core:
            try:
                v.states(mds)
                ctx.fail(W + ".states", f"missing_data_string {ch_!r} equals an allele of {al} but no ValueError")
            except ValueError:
                pass
        else:
            got = [str(x) for x in v.states(mds)] if mds is not None else [str(x) for x in v.states()]
            ctx.eq(got, [ch_ if s is None else s for s in exp], W + f".states({mds!r})")
    # counts() / frequencies()
    expc = {a: sum(1 for s in exp if s == a) for a in core}
    if anymiss:
        expc[None] = nmiss
    got = v.counts()
    gotc = {k: int(c) for k, c in got.items()}
    if mapping is not None and len(set(mapping)) < len(mapping):
        if gotc != expc and deferred is not None:
            deferred.append(f"{W}: counts() = {gotc} but the genotypes {g.tolist()} over alleles {al} "
                            f"give {expc}")
        return
    ctx.check(gotc == expc, W + ".counts", f"counts {gotc} expected {expc}")
    for rm in (None, False, True):
        fr = v.frequencies() if rm is None else v.frequencies(remove_missing=rm)
        total = len(nodes) - (nmiss if rm else 0)
        expf = {a: (c / total if total > 0 else math.nan) for a, c in expc.items()
                if not (a is None and rm)}
        ctx.check(set(fr.keys()) == set(expf.keys()), W + ".frequencies", f"keys {list(fr)} expected {list(expf)}")
        for a in expf:
            ctx.close(float(fr[a]), expf[a], W + f".frequencies({rm})[{a!r}]")


def raise_deferred(ctx, deferred):
    if deferred and not _ASSUME_OPEN:
        ctx.fail(WHAT_COUNTS_DUP, deferred[0])


def classify(case, exc):
    return KEY_COUNTS_DUP if getattr(exc, "what", "") == WHAT_COUNTS_DUP else None


def build(spec, tskit):
    return gen.build_tables(spec, tskit).tree_sequence()


def quiet():
    import logging

    logging.disable(logging.WARNING)  # frequencies() logs a warning when there are no samples


def put_labels(ctx, spec):
    labs = geno_labels(spec)
    for l in labs:
        ctx.label(l)
    return labs


# ------------------------------------------------------------------ sub-check: variants / genotype_matrix
def run_variants(case, ctx):
    import numpy as np
    import tskit

    quiet()
    spec = case["spec"]
    labs = put_labels(ctx, spec)
    ctx.label("alpha_" + case["alpha"])
    ts = build(spec, tskit)
    deferred = []
    nt = bool(labs & NT_SPEC)
    for conf in case["confs"]:
        nodes = conf_nodes(spec, conf)
        if any(not model.is_sample(spec, u) for u in nodes):
            ctx.label("non_sample_requested")
            nt = nt or bool(spec["sites"])
        check_variants_conf(ctx, tskit, np, ts, spec, conf, deferred)
        check_matrix_conf(ctx, tskit, np, ts, spec, conf)
    ctx.nt(nt and bool(spec["sites"]))
    raise_deferred(ctx, deferred)


def enum_large(tier, seed):
    sizes = [130, 300, 1100] if tier == "quick" else [65, 130, 257, 300, 1023, 1024, 1025, 1100, 4100]
    for sa, sb in (("comb", "balanced"), ("star", "comb"), ("multiroot", "star"), ("balanced", "multiroot")):
        for k in sizes:
            for iam in (None, False):
                yield dict(sa=sa, sb=sb, k=k, iam=iam)


def run_large(case, ctx):
    """Genotypes of hundreds of samples (more than 127 / 255 nodes per tree, many isolated samples)."""
    import numpy as np
    import tskit

    from ._shapes import two_tree_spec

    quiet()
    k = case["k"]
    spec = two_tree_spec(case["sa"], case["sb"], k, internal_samples=(k % 2 == 0))
    ts = build(spec, tskit)
    ctx.nt(True)
    deferred = []
    smp = model.samples(spec)
    # (also: every sample in another order - reversed, rotated - and all samples plus a non-sample node)
    lists = [None, list(range(0, k, 3)), smp[::-1], smp[7:] + smp[:7]]
    if len(smp) < len(spec["nodes"]) and case["iam"] is False:
        lists.append(smp + [next(u for u in range(len(spec["nodes"])) if u not in set(smp))])
    for samples in lists:
        ctx.label("all_samples_permuted", samples is not None and sorted(samples) == smp and samples != smp)
        conf = dict(samples=samples, arr=False, iam=case["iam"], alleles=None, left=None, right=None, copy=None)
        check_variants_conf(ctx, tskit, np, ts, spec, conf, deferred)
        check_matrix_conf(ctx, tskit, np, ts, spec, conf)
    raise_deferred(ctx, deferred)


def check_variants_conf(ctx, tskit, np, ts, spec, conf, deferred):
    nodes = conf_nodes(spec, conf)
    iam = conf_iam(conf)
    mapping = conf.get("alleles")
    kw = conf_kwargs(np, conf)
    if conf.get("copy") is not None:
        kw["copy"] = conf["copy"]
    if conf["left"] is not None:
        kw["left"] = conf["left"]
    if conf["right"] is not None:
        kw["right"] = conf["right"]
    l, r, okwin = window_of(spec, conf["left"], conf["right"])
    bad_nodes = conf_bad_nodes(spec, conf)
    ctx.label("window", conf["left"] is not None or conf["right"] is not None)
    ctx.label("window_invalid", not okwin)
    ctx.label("user_alleles", mapping is not None)
    ctx.label("iam_false", not iam)
    ctx.label("samples_subset", conf["samples"] is not None)
    ctx.label("copy_false", conf.get("copy") is False)
    if not okwin or bad_nodes:
        ctx.label("must_impute_error", bad_nodes)
        allowed = ((ValueError,) if not okwin else ()) + ((tskit.LibraryError,) if bad_nodes else ())
        try:
            list(ts.variants(**kw))
        except allowed:
            return
        ctx.fail("variants.errors", f"no {[e.__name__ for e in allowed]} for window ({conf['left']},{conf['right']})"
                 f" L={spec['L']} samples={conf['samples']} iam={conf['iam']}")
    expect = sites_in(spec, l, r)
    ctx.label("window_proper_subset", len(expect) < len(spec["sites"]))
    it = ts.variants(**kw)
    got = []
    ended = False
    for j in expect:
        if mapping_bad(spec, j, mapping):
            ctx.label("mapping_lacks_state")
            try:
                next(it)
            except tskit.LibraryError:
                ended = True
                break
            except StopIteration:
                ctx.fail("variants", f"iterator ended before site {j}")
            ctx.fail("variants.alleles", f"site {j} has a state outside {mapping} but decoding did not raise")
        try:
            v = next(it)
        except StopIteration:
            ctx.fail("variants", f"iterator ended before site {j} (window {l},{r}; expected sites {expect})")
        check_variant(ctx, tskit, np, v, spec, j, nodes, iam, mapping, f"variants[site {j}]", deep=True,
                      deferred=deferred)
        got.append((j, v))
    if not ended:
        try:
            extra = next(it)
        except StopIteration:
            extra = None
        ctx.check(extra is None, "variants", lambda: f"extra variant at site {extra.site.id} outside window "
                  f"({l},{r}); expected sites {expect}")
    if conf.get("copy") is False:
        ctx.check(all(v is got[0][1] for _, v in got), "variants(copy=False)", "different objects were yielded")
    else:
        ctx.check(len({id(v) for _, v in got}) == len(got), "variants(copy=True)", "an object was yielded twice")
        for j, v in got:  # copies are stable after the iteration moved on
            check_variant(ctx, tskit, np, v, spec, j, nodes, iam, mapping, f"variants[site {j}] re-read", deep=False)
            try:
                v.decode(j)
            except tskit.LibraryError:
                continue
            ctx.fail("variants(copy=True)", "decode() on a copy did not fail as documented")


def check_matrix_conf(ctx, tskit, np, ts, spec, conf):
    nodes = conf_nodes(spec, conf)
    iam = conf_iam(conf)
    mapping = conf.get("alleles")
    kw = conf_kwargs(np, conf)
    nsites = len(spec["sites"])
    bad = conf_bad_nodes(spec, conf) or any(mapping_bad(spec, j, mapping) for j in range(nsites))
    if bad:
        try:
            ts.genotype_matrix(**kw)
        except tskit.LibraryError:
            return
        ctx.fail("genotype_matrix.errors", "no LibraryError for non-sample nodes with missing data / absent allele")
    G = ts.genotype_matrix(**kw)
    ctx.check(G.shape == (nsites, len(nodes)) and G.dtype == np.int32, "genotype_matrix",
              f"shape {G.shape} dtype {G.dtype} expected {(nsites, len(nodes))}")
    live = tskit.Variant(ts, **kw)
    for j in range(nsites):
        exp = site_oracle(spec, j, nodes, iam)
        check_genotype_row(ctx, G[j], exp, spec["sites"][j][1], mapping, f"genotype_matrix[site {j}]")
        live.decode(j)
        ctx.eq(G[j], np.array(live.genotypes), f"genotype_matrix[site {j}] vs Variant.decode")


# ------------------------------------------------------------------ sub-check: decode histories
@st.composite
def history_case(draw):
    aname, spec = draw(geno_spec(max_sites=6).filter(lambda t: len(t[1]["sites"]) >= 2))
    confs = [draw_vconf(draw, spec, aname) for _ in range(2)]
    if draw(st.integers(0, 2)) > 0:
        # keep histories productive: a mapping that lacks a state only sometimes
        for c in confs:
            if c["alleles"] is not None and len(c["alleles"]) < len(ALPHABETS[aname]):
                c["alleles"] = None
    op = st.one_of(
        st.tuples(st.just("d"), st.integers(0, 1), st.integers(0, 50)),
        st.tuples(st.just("d"), st.integers(0, 1), st.integers(0, 50)),
        st.tuples(st.just("d"), st.integers(0, 1), st.integers(0, 50)),
        st.tuples(st.just("c"), st.integers(0, 1), st.just(0)),
        st.tuples(st.just("r"), st.just(0), st.integers(0, 50)),
        st.tuples(st.just("r"), st.just(0), st.integers(0, 50)),
        st.tuples(st.just("x"), st.just(0), st.integers(0, 50)),   # decode() on a snapshot
        st.tuples(st.just("b"), st.integers(0, 1), st.sampled_from([-1, 0, 1, 5])),  # bad site id
    )
    ops = [list(o) for o in draw(st.lists(op, min_size=6, max_size=30))]
    return dict(spec=spec, alpha=aname, confs=confs, ops=ops)


def run_history(case, ctx):
    import numpy as np
    import tskit

    quiet()
    spec = case["spec"]
    labs = put_labels(ctx, spec)
    ts = build(spec, tskit)
    ns = len(spec["sites"])
    deferred = []
    live = []
    for conf in case["confs"]:
        kw = conf_kwargs(np, conf)
        if conf_bad_nodes(spec, conf):
            try:
                tskit.Variant(ts, **kw)
            except tskit.LibraryError:
                live.append(None)
                continue
            ctx.fail("Variant()", "non-sample nodes with isolated_as_missing=True accepted")
        v = tskit.Variant(ts, **kw)
        live.append(v)
        try:
            v.genotypes
            ctx.fail("Variant()", "genotypes readable before decode()")
        except ValueError:
            pass
        try:
            v.site
            ctx.fail("Variant()", "site readable before decode()")
        except ValueError:
            pass
        ctx.eq([int(u) for u in v.samples], conf_nodes(spec, conf), "Variant().samples before decode")
    cur = [None, None]       # site currently decoded (None: nothing valid)
    snaps = []               # (copy, k, site, alleles, genotypes)
    last = [None, None]
    backward = repeat = False
    ndec = 0

    def check_live(k, W, deep):
        conf = case["confs"][k]
        check_variant(ctx, tskit, np, live[k], spec, cur[k], conf_nodes(spec, conf), conf_iam(conf),
                      conf.get("alleles"), W, deep=deep, deferred=deferred)

    def check_snap(i, W):
        c, k, j, al, g = snaps[i]
        conf = case["confs"][k]
        ctx.eq(c.alleles, al, W + ".alleles changed")
        ctx.eq(np.array(c.genotypes), g, W + ".genotypes changed")
        check_variant(ctx, tskit, np, c, spec, j, conf_nodes(spec, conf), conf_iam(conf), conf.get("alleles"),
                      W, deep=False)

    for t, (kind, k, a) in enumerate(case["ops"]):
        if kind in ("d", "c", "b") and live[k] is None:
            continue
        if kind == "d":
            if ns == 0:
                continue
            j = a % ns
            conf = case["confs"][k]
            if mapping_bad(spec, j, conf.get("alleles")):
                ctx.label("mapping_lacks_state")
                try:
                    live[k].decode(j)
                except tskit.LibraryError:
                    cur[k] = None
                    continue
                ctx.fail("decode.alleles", f"site {j} has a state outside {conf['alleles']} but decode did not raise")
            live[k].decode(j)
            ndec += 1
            if last[k] is not None:
                backward = backward or j < last[k]
                repeat = repeat or j == last[k]
            last[k] = j
            cur[k] = j
            check_live(k, f"op {t}: live[{k}].decode({j})", deep=(t % 4 == 0))
            # the other live variant is untouched
            o = 1 - k
            if live[o] is not None and cur[o] is not None:
                check_live(o, f"op {t}: live[{o}] after decoding live[{k}]", deep=False)
        elif kind == "c":
            if cur[k] is None:
                continue
            c = live[k].copy()
            snaps.append((c, k, cur[k], c.alleles, np.array(c.genotypes)))
            check_snap(len(snaps) - 1, f"op {t}: fresh copy of live[{k}]@{cur[k]}")
        elif kind == "r":
            if snaps:
                ctx.label("snapshot_reread")
                check_snap(a % len(snaps), f"op {t}: snapshot {a % len(snaps)}")
        elif kind == "x":
            if snaps and ns:
                i = a % len(snaps)
                try:
                    snaps[i][0].decode(a % ns)
                    ctx.fail("copy.decode", "decode() on a copy did not fail as documented")
                except tskit.LibraryError:
                    pass
                check_snap(i, f"op {t}: snapshot {i} after refused decode")
        elif kind == "b":
            bad = -1 if a < 0 else ns + a
            try:
                live[k].decode(bad)
                ctx.fail("decode.bounds", f"decode({bad}) with {ns} sites did not raise")
            except tskit.LibraryError:
                cur[k] = None
    for i in range(len(snaps)):
        check_snap(i, f"end: snapshot {i}")
    for k in (0, 1):
        if live[k] is not None and cur[k] is not None:
            check_live(k, f"end: live[{k}]", deep=True)
    ctx.label("backward_jump", backward)
    ctx.label("repeat_decode", repeat)
    ctx.label("snapshots", bool(snaps))
    ctx.label("two_live", live[0] is not None and live[1] is not None and None not in last)
    nonsamp = any(live[k] is not None and any(not model.is_sample(spec, u) for u in conf_nodes(spec, case["confs"][k]))
                  for k in (0, 1))
    ctx.label("non_sample_requested", nonsamp)
    ctx.nt(ndec >= 2 and (backward or nonsamp or bool(labs & NT_SPEC)))
    raise_deferred(ctx, deferred)


# ------------------------------------------------------------------ sub-check: haplotypes / alignments / fasta
def isolated_somewhere(spec):
    """Sample nodes that are isolated (no parent, no child) in at least one tree."""
    bps = model.breakpoints(spec)
    out = set()
    smp = model.samples(spec)
    for a in bps[:-1]:
        par = model.parent_at(spec, a)
        ch = model.children_of(par)
        for u in smp:
            if par[u] < 0 and not ch[u]:
                out.add(u)
    return out


@st.composite
def hap_case(draw):
    aname, spec = draw(geno_spec(choices=ALPHA_ASCII, discrete=draw(st.sampled_from([True] * 5 + [False, None]))))
    n = len(spec["nodes"])
    hconfs = []
    for _ in range(2):
        c = draw_vconf(draw, spec, aname)
        c.pop("alleles")
        c["left"], c["right"] = draw_window(draw, spec)
        c["mdc"] = draw(st.sampled_from([None, None, "N", "-", "?", "A", "0", "NN"]))
        hconfs.append(c)
    # alignments need a tree sequence without isolated samples: mostly repair by unflagging
    aspec = spec
    if draw(st.integers(0, 4)) > 0:
        iso = isolated_somewhere(spec)
        if iso:
            aspec = dict(spec)
            aspec["nodes"] = [[r[0] & ~1] + r[1:] if u in iso else r for u, r in enumerate(spec["nodes"])]
    smp = model.samples(aspec)
    L = F(spec["L"])
    aconfs = []
    for _ in range(2):
        samples = None
        if smp and draw(st.booleans()):
            samples = draw(st.lists(st.sampled_from(smp), unique=True, max_size=len(smp)))
        left, right = draw_window(draw, spec, integer=True)
        kind = draw(st.sampled_from(["none", "none", "arg", "arg", "embedded"]))
        if kind == "embedded" and L > 200:
            kind = "arg"
        delta = draw(st.sampled_from([0, 0, 0, 0, 1, -1, 3]))
        aconfs.append(dict(samples=samples, left=left, right=right, ref=kind, delta=delta,
                           pat=draw(st.sampled_from(["ACGT", "x", "nnnnA", "TTAGGC-"])),
                           mdc=draw(st.sampled_from([None, None, None, "N", "-", "A", "x"]))))
    return dict(spec=spec, aspec=aspec, alpha=aname, hconfs=hconfs, aconfs=aconfs)


def single_ascii(a):
    return len(a) == 1 and a.isascii()


def allele_errors(spec, sites, mdc, tskit):
    """Documented errors of haplotypes()/alignments() caused by the alleles at `sites`."""
    errs = set()
    for j in sites:
        for a in site_states(spec, j):
            if not single_ascii(a):
                errs.add(TypeError)
            elif a == mdc:
                errs.add(ValueError)
    return errs


def expect_raises(ctx, errs, fn, W, detail):
    try:
        fn()
    except tuple(errs):
        return
    ctx.fail(W, f"expected one of {sorted(e.__name__ for e in errs)}: {detail}")


def check_haplotypes_conf(ctx, tskit, np, ts, spec, conf):
    nodes = conf_nodes(spec, conf)
    iam = conf_iam(conf)
    kw = conf_kwargs(np, conf)
    mdc = conf["mdc"]
    if mdc is not None:
        kw["missing_data_character"] = mdc
    if conf["left"] is not None:
        kw["left"] = conf["left"]
    if conf["right"] is not None:
        kw["right"] = conf["right"]
    mch = "N" if mdc is None else mdc
    l, r, okwin = window_of(spec, conf["left"], conf["right"])
    errs = set()
    if not okwin:
        errs.add(ValueError)
    if conf_bad_nodes(spec, conf):
        errs.add(tskit.LibraryError)
    if len(mch) != 1:
        errs.add(TypeError)
    sites = sites_in(spec, l, r) if okwin else []
    errs |= allele_errors(spec, sites, mch, tskit)
    W = "haplotypes"
    if errs:
        ctx.label("hap_error_expected")
        expect_raises(ctx, errs, lambda: list(ts.haplotypes(**kw)), W + ".errors",
                      f"window ({conf['left']},{conf['right']}) samples={conf['samples']} iam={conf['iam']} mdc={mdc!r}")
        return False
    H = list(ts.haplotypes(**kw))
    cols = [site_oracle(spec, j, nodes, iam) for j in sites]
    exp = ["".join(mch if c[i] is None else c[i] for c in cols) for i in range(len(nodes))]
    ctx.eq(H, exp, W + f"(window=({conf['left']},{conf['right']}), samples={conf['samples']}, iam={conf['iam']}, "
           f"mdc={mdc!r})")
    ctx.label("hap_window_proper_subset", len(sites) < len(spec["sites"]))
    ctx.label("hap_missing_char_used", any(mch in h for h in exp) and iam)
    return bool(sites) and bool(nodes)


def is_discrete(spec):
    vals = [F(spec["L"])] + [F(e[k]) for e in spec["edges"] for k in (0, 1)] + [F(s[0]) for s in spec["sites"]]
    return all(x == math.floor(x) for x in vals)


def check_alignments_conf(ctx, tskit, np, spec, conf):
    L = F(spec["L"])
    left, right = conf["left"], conf["right"]
    l, r, okwin = window_of(spec, left, right)
    okwin = okwin and l == math.floor(l) and r == math.floor(r)
    disc = is_discrete(spec)
    if disc and okwin and r - l > 2**21:
        ctx.label("align_skipped_huge_span")  # terabyte strings: MemoryError is legitimate
        return False
    span = int(r - l) if okwin and disc else 0
    kw = {}
    if conf["samples"] is not None:
        kw["samples"] = list(conf["samples"])
    if left is not None:
        kw["left"] = left
    if right is not None:
        kw["right"] = right
    mdc = conf["mdc"]
    if mdc is not None:
        kw["missing_data_character"] = mdc
    mch = "N" if mdc is None else mdc
    errs = set()
    if not disc:
        errs.add(ValueError)
    if not okwin:
        errs.add(ValueError)

    def pattern(n):
        p = conf["pat"]
        return (p * (n // len(p) + 1))[:n]

    build_spec = spec
    ref = None
    if conf["ref"] == "arg" and okwin:
        ref = pattern(max(0, span + conf["delta"]))
        kw["reference_sequence"] = ref
        if len(ref) != span or not disc:
            errs.add(ValueError)
        base = ref
    elif conf["ref"] == "embedded" and disc:
        data = pattern(max(1, int(L) + conf["delta"]))
        build_spec = dict(spec, refseq=data)
        if okwin and len(data) < r:
            errs.add(ValueError)
        base = data[int(l):int(r)] if okwin else ""
    else:
        base = mch * span
    ts = build(build_spec, tskit)
    if isolated_somewhere(spec):
        errs.add(ValueError)
    sites = sites_in(spec, l, r) if okwin else []
    errs |= allele_errors(spec, sites, mch, tskit)
    nodes = conf_nodes(spec, conf)
    W = "alignments"
    detail = (f"window ({left},{right}) L={L} discrete={disc} ref={conf['ref']} delta={conf['delta']} mdc={mdc!r} "
              f"isolated={sorted(isolated_somewhere(spec))}")
    if errs:
        ctx.label("align_error_expected")
        expect_raises(ctx, errs, lambda: list(ts.alignments(**kw)), W + ".errors", detail)
        return False
    A = list(ts.alignments(**kw))
    exp = []
    for u in nodes:
        a = list(base)
        for j in sites:
            (s,) = site_oracle(spec, j, [u], True)
            ctx.check(s is not None, "harness", "missing data without isolated samples")  # cannot happen
            a[int(F(spec["sites"][j][0]) - l)] = s
        exp.append("".join(a))
    ctx.eq(A, exp, W + ": " + detail)
    ctx.label("align_ok")
    ctx.label("align_window", span < L)
    ctx.label("align_ref_" + conf["ref"])
    if conf["samples"] is None and left is None and right is None:
        fkw = {k: v for k, v in kw.items() if k in ("reference_sequence", "missing_data_character")}
        fa = ts.as_fasta(wrap_width=0, **fkw)
        ctx.eq(fa, "".join(f">n{u}\n{a}\n" for u, a in zip(nodes, exp)), "as_fasta(wrap_width=0)")
        fa = ts.as_fasta(**fkw)
        recs = fa.split(">")[1:]
        ctx.eq([x.split("\n", 1)[0] for x in recs], [f"n{u}" for u in nodes], "as_fasta names")
        ctx.eq([x.split("\n", 1)[1].replace("\n", "") for x in recs], exp, "as_fasta sequences")
        ctx.label("fasta")
    return bool(sites) and bool(nodes)


def run_hap(case, ctx):
    import numpy as np
    import tskit

    quiet()
    spec = case["spec"]
    labs = put_labels(ctx, spec)
    ctx.label("alpha_" + case["alpha"])
    ts = build(spec, tskit)
    nt = False
    for conf in case["hconfs"]:
        ok = check_haplotypes_conf(ctx, tskit, np, ts, spec, conf)
        if ok:
            ctx.label("hap_ok")
            nonsamp = any(not model.is_sample(spec, u) for u in conf_nodes(spec, conf))
            ctx.label("non_sample_requested", nonsamp)
            nt = nt or nonsamp or bool(labs & NT_SPEC)
    for conf in case["aconfs"]:
        ok = check_alignments_conf(ctx, tskit, np, case["aspec"], conf)
        nt = nt or ok
    ctx.nt(nt)


# ------------------------------------------------------------------ sub-check: exhaustive small scope
def enum_small(tier, seed):
    """All forests on n nodes (times 0..n-1 by id) x all sample-flag assignments x all mutation lists of
    length <= 3 over (node, state in {0,1,2}) whose order puts no mutation before one on a strict ancestor
    (m = 3: two derived states).  One site; ancestral state '0'."""
    N = 3 if tier == "quick" else 4
    for n in range(1, N + 1):
        choices = [[-1] + list(range(u + 1, n)) for u in range(n)]
        for par in itertools.product(*choices):
            anc = []
            for u in range(n):
                s, v = set(), par[u]
                while v >= 0:
                    s.add(v)
                    v = par[v]
                anc.append(s)
            edges = [[0.0, 1.0, par[u], u, ""] for u in range(n) if par[u] >= 0]
            edges.sort(key=lambda e: (e[2], e[3]))
            mlists = [()]
            for m in (1, 2, 3):
                st_ = ("1", "2", "0") if m < 3 else ("1", "0")
                for nds in itertools.product(range(n), repeat=m):
                    if any(nds[b] in anc[nds[a]] for a in range(m) for b in range(a + 1, m)):
                        continue
                    for sts in itertools.product(st_, repeat=m):
                        mlists.append(tuple(zip(nds, sts)))
            for flags in itertools.product([0, 1], repeat=n):
                for ml in mlists:
                    yield dict(n=n, par=list(par), flags=list(flags), muts=[list(x) for x in ml], edges=edges)


def run_small(case, ctx):
    import numpy as np
    import tskit

    quiet()
    n = case["n"]
    spec = dict(L=1.0, nodes=[[case["flags"][u], float(u), -1, -1, ""] for u in range(n)], edges=case["edges"],
                sites=[[0.0, "0", ""]], mutations=[[0, u, s, -1, None, ""] for u, s in case["muts"]],
                individuals=[], populations=[], migrations=[])
    mp = model.mutation_parents(spec)
    for k, p in enumerate(mp):
        spec["mutations"][k][3] = p
    labs = geno_labels(spec)
    ctx.nt(len(case["muts"]) >= 2 or bool(labs & NT_SPEC))
    ts = build(spec, tskit)
    smp = model.samples(spec)
    confs = [dict(samples=None, iam=None), dict(samples=None, iam=False),
             dict(samples=list(range(n))[::-1], iam=False), dict(samples=smp[::-1], iam=True)]
    for conf in confs:
        v = tskit.Variant(ts, **conf_kwargs(np, conf))
        v.decode(0)
        check_variant(ctx, tskit, np, v, spec, 0, conf_nodes(spec, conf), conf_iam(conf), None,
                      f"Variant(samples={conf['samples']}, iam={conf['iam']})", deep=False)
    G = ts.genotype_matrix(alleles=("0", "1", "2"))
    check_genotype_row(ctx, G[0], site_oracle(spec, 0, smp, True), "0", ["0", "1", "2"], "genotype_matrix(alleles)")


# ------------------------------------------------------------------ registry
# ------------------------------------------------------------------ coordinates beyond 2^53
def big_coord_spec():
    """Two trees on a discrete genome of length 2^60 (breakpoint 2^59); clusters of sites at small coordinates, around
    2^40, just above 2^53 (doubles 2 apart) and just below 2^60 (doubles 128 apart)."""
    L = 2**60
    nodes = [[1, 0.0, -1, -1, ""] for _ in range(4)] + [[0, 1.0, -1, -1, ""], [0, 2.0, -1, -1, ""], [0, 3.0, -1, -1, ""]]
    h = float(2**59)
    edges = [[0.0, float(L), 4, 0, ""], [0.0, float(L), 4, 1, ""], [0.0, float(L), 5, 2, ""], [0.0, h, 5, 3, ""],
             [h, float(L), 5, 4, ""], [0.0, h, 6, 4, ""], [0.0, float(L), 6, 5, ""], [h, float(L), 6, 3, ""]]
    edges.sort(key=lambda e: (nodes[e[2]][1], e[2], e[3], e[0]))
    positions = [5, 6, 9, 17, 30] + [2**40 + k for k in (1, 2, 3, 10, 21)] + [2**53 + k for k in (2, 4, 10, 12, 30)] \
        + [2**60 - k for k in (1920, 1792, 1664, 1280, 1152)]
    sites, muts = [], []
    for j, p in enumerate(positions):
        assert int(float(p)) == p
        sites.append([float(p), "ACGT"[j % 4], ""])
        top = 4 if j % 2 == 0 else 5
        muts.append([j, top, "ACGT"[(j + 1) % 4], -1, None, ""])
        leaf = (j * 7) % 4
        under = (top == 4 and leaf in (0, 1)) or (top == 5 and (leaf == 2 or (leaf == 3 and p < 2**59)
                                                               or (leaf in (0, 1) and p >= 2**59)))
        muts.append([j, leaf, "ACGT"[(j + 2) % 4], len(muts) - 1 if under else -1, None, ""])
    return dict(L=float(L), nodes=nodes, edges=edges, sites=sites, mutations=muts, individuals=[], populations=[],
                migrations=[]), positions


def enum_bigcoords(tier, seed):
    wins = [(0, 40), (3, 31), (2**40 - 5, 2**40 + 30), (2**40 + 2, 2**40 + 22),
            (2**53 - 7, 2**53 + 40), (2**53 + 1, 2**53 + 33), (2**53 + 7, 2**53 + 27), (2**53 - 1, 2**53 + 9),
            (2**60 - 2000, 2**60 - 1000), (2**60 - 1919, 2**60 - 1100), (2**60 - 1801, 2**60 - 1153 + 200),
            (2**60 - 1700, 2**60)]
    for w in wins:
        for samples in (None, [3, 0], [6, 4, 1]):
            yield dict(left=w[0], right=w[1], samples=samples)


def run_bigcoords(case, ctx):
    """alignments / haplotypes / variants on windows whose bounds are integers that a double cannot hold; all column
    arithmetic of the oracle is done in Python integers."""
    import numpy as np
    import tskit

    quiet()
    spec, positions = big_coord_spec()
    ts = build(spec, tskit)
    li, ri = case["left"], case["right"]
    nodes = case["samples"] if case["samples"] is not None else model.samples(spec)
    inside = [j for j, p in enumerate(positions) if li <= p < ri]
    ctx.nt(bool(inside))
    ctx.label("left_not_a_double", int(float(li)) != li)
    ctx.label("window>2^53", li >= 2**53)
    span = ri - li
    states = {j: site_oracle(spec, j, nodes, False) for j in inside}
    kw = {} if case["samples"] is None else dict(samples=list(case["samples"]))
    only_samples = all(model.is_sample(spec, u) for u in nodes)
    for ref in ((None, ("ACGTTGCA" * (span // 8 + 1))[:span]) if only_samples else ()):
        exp = []
        for k, u in enumerate(nodes):
            a = list(ref if ref is not None else "N" * span)
            for j in inside:
                a[positions[j] - li] = states[j][k]
            exp.append("".join(a))
        akw = dict(kw, left=li, right=ri)
        if ref is not None:
            akw["reference_sequence"] = ref
        ctx.eq(list(ts.alignments(**akw)), exp, f"alignments(left={li}, right={ri}, samples={case['samples']}, "
               f"reference={'given' if ref else 'none'})")
    if only_samples:
        hap = list(ts.haplotypes(left=li, right=ri, **kw))
        ctx.eq(hap, ["".join(states[j][k] for j in inside) for k in range(len(nodes))], f"haplotypes(left={li}, right={ri})")
    got = [(v.site.id, [v.alleles[g] for g in v.genotypes]) for v in
           ts.variants(left=li, right=ri, isolated_as_missing=False, **kw)]
    ctx.eq(got, [(j, states[j]) for j in inside], f"variants(left={li}, right={ri})")


SUBCHECKS = [
    SubCheck("C03.variants", run_variants, strategy=variants_case, quick=5000, thorough=150000, rule=NT_RULE,
             classify=classify,
             floors={"stacked_mut_path": 0.15, "mut_above_isolated_sample": 0.03, "site_in_gap": 0.02,
                     "missing_data": 0.1, "gt4_alleles": 0.02, "empty_allele": 0.03, "multichar_allele": 0.05,
                     "non_sample_requested": 0.07, "user_alleles": 0.2, "window_proper_subset": 0.05,
                     "silent_mut": 0.1, "back_mut": 0.03, "recurrent_state": 0.1, "multi_mut_one_node": 0.1,
                     "mut_above_root": 0.1, "mapping_lacks_state": 0.03, "copy_false": 0.15,
                     "internal_sample": 0.1}),
    SubCheck("C03.decode_history", run_history, strategy=history_case, quick=4000, thorough=120000,
             rule=">=2 successful decode() calls and (" + NT_RULE + ", or a backward jump in the decode order)",
             classify=classify,
             floors={"backward_jump": 0.25, "repeat_decode": 0.15, "snapshots": 0.2, "snapshot_reread": 0.1,
                     "two_live": 0.2, "multi_tree": 0.25, "missing_data": 0.1, "non_sample_requested": 0.07}),
    SubCheck("C03.haplotypes_alignments", run_hap, strategy=hap_case, quick=3000, thorough=90000,
             rule="haplotypes() returned strings over >=1 site and >=1 node for a tree sequence in the classes "
             "above, or alignments() returned strings over >=1 site",
             floors={"hap_ok": 0.2, "align_ok": 0.15, "align_error_expected": 0.1, "hap_error_expected": 0.1,
                     "fasta": 0.02, "align_window": 0.05, "hap_window_proper_subset": 0.03,
                     "hap_missing_char_used": 0.03}),
    SubCheck("C03.large_shapes", run_large, enumerate=enum_large, quick=1, thorough=1,
             rule="two-tree sequences over 130-300 (thorough: up to 1025) samples, all samples and every third sample"),
    SubCheck("C03.exhaustive_small", run_small, enumerate=enum_small, quick=1, thorough=1,
             rule="every forest on <=3 (quick) / <=4 (thorough) nodes x all sample flags x every admissible "
             "mutation list of length <=3; non-trivial = >=2 mutations or one of the classes above"),
    SubCheck("C03.big_coords", run_bigcoords, enumerate=enum_bigcoords, quick=1, thorough=1,
             rule="windows with at least one site, on a genome of length 2^60 with sites near 2^40, 2^53 and 2^60, window "
             "bounds that are not doubles"),
]

PROBES = {
    KEY_COUNTS_DUP: ("C03.variants", dict(
        alpha="acgt",
        spec=dict(L=1.0, nodes=[[1, 0.0, -1, -1, ""], [1, 0.0, -1, -1, ""], [0, 1.0, -1, -1, ""]],
                  edges=[[0.0, 1.0, 2, 0, ""], [0.0, 1.0, 2, 1, ""]], sites=[[0.0, "A", ""]], mutations=[],
                  individuals=[], populations=[], migrations=[]),
        confs=[dict(samples=None, arr=False, iam=None, alleles=["A", "C", "A"], left=None, right=None,
                    copy=None)])),
}
