"""C16 — VCF output states exactly the genotypes of the tree sequence."""
import os

from hypothesis import strategies as st

from .. import gen, model
from ..core import SubCheck
from ..gen import F

META = dict(
    level="exploration",
    rule="Valid tree sequences by construction (vf/gen.py ts_spec; alphabets ACGT, multi-character incl. the "
    "empty allele, and a 12-letter one giving >9 alleles per site) x individual layouts (no individual table; "
    "table present but unreferenced; every sample in an individual with mixed ploidies and non-contiguous "
    "nodes, plus individuals made of non-sample nodes; raw random references giving mixed-sample individuals "
    "and samples without individual) x individuals argument (None, permutation, subset, invalid ids, empty) x "
    "ploidy (None,0,1,2,3) x individual_names x contig_id x position_transform (None, 'legacy', callables) x "
    "site_mask as bool array / list / int array / tuple / int list x sample_mask as array / list / int array / "
    "callable returning array or list x isolated_as_missing x allow_position_zero. Oracle: a VCF line parser "
    "whose fields are compared with the positional model (vf/model.py allele_at / is_missing), my own "
    "implementation of the documented position transforms, and the documented error conditions; plus the "
    "metamorphic relations mask-representation independence and 'site mask == deleting the masked lines'.",
    assumptions=[
        "reference model vf/model.py (allele_at, is_missing)",
        "nodes of an individual are listed in increasing node id (TreeSequence.individual(i).nodes)",
        "contig length = max(1, int(T([L])[0]), T(position of the last site)) as implemented (not documented in detail)",
        "individuals made only of non-sample nodes requested explicitly: outcome not asserted beyond "
        "'documented error type or output consistent with the decoded genotypes' (docs call it an error, "
        "the code writes them when isolated_as_missing=False)",
        "sample_mask is only combined with individuals=None (its length is documented as num_samples)",
        "size bounds: <=9 nodes, <=5 sites, <=12 mutations per site, <=4 individuals",
    ],
    technique="property-based testing (Hypothesis) against a VCF parser + positional reference model, "
    "metamorphic mask relations",
    engines=["hypothesis-runner"],
    exhaustive_subchecks=["C16.mask_forms"],
)

KEY_LIST = "vcf.callable_position_transform_gets_list"
WHAT_LIST = "position_transform[callable applied to a python list]"
KEY_ZERO = "vcf.zero_samples_indexerror"
WHAT_ZERO = "zero samples[IndexError]"
_ASSUME_OPEN = os.environ.get("VF_C16_ASSUME_OPEN") == "1"

ALPHABETS = {
    "acgt": ["A", "C", "G", "T"],
    "multi": ["A", "AC", "ACG", "T", "", "TT"],
    "wide12": list("ACGTacgtNnXx"),
}
TRANSFORMS = [None, None, None, "legacy", "legacy", "round_plus1", "fmax1_round", "floor", "plus1"]
MASK_FORMS = ["bool_array", "list", "int_array", "tuple", "int_list"]


# ------------------------------------------------------------------ generator
@st.composite
def vcf_case(draw):
    aname = draw(st.sampled_from(["acgt", "acgt", "acgt", "multi", "wide12"]))
    alpha = ALPHABETS[aname]
    mm = 12 if aname == "wide12" else draw(st.sampled_from([2, 4]))
    base = gen.ts_spec(
        max_nodes=9, max_sites=5, max_muts_per_site=mm, alphabet=alpha, migrations=False,
        metadata=False, individuals=True, populations=False, extra_flags=False,
        min_samples=draw(st.sampled_from([0, 1, 2, 3, 4, 4, 6])))
    if draw(st.integers(0, 9)) < 9:
        base = base.filter(lambda sp: len(sp["sites"]) >= 1)
    spec = draw(base)
    n = len(spec["nodes"])
    muts = [list(m) for m in spec["mutations"]]
    sites = [list(x) for x in spec["sites"]]
    if aname == "wide12":
        # sites with many mutations: make all states distinct so that >9 alleles occur
        for j in range(len(sites)):
            rows = [k for k, m in enumerate(muts) if m[0] == j]
            if len(rows) >= 8 and draw(st.integers(0, 3)) < 3:
                # `target` distinct derived states + the ancestral state: exactly 9 alleles (the most a
                # VCF line may carry, also together with missing calls), 10, or as many as there are rows
                target = draw(st.sampled_from([8, 8, 9, len(rows)]))
                sites[j][1] = alpha[0]
                for q, k in enumerate(rows):
                    muts[k][2] = alpha[(min(q, target - 1) + 1) % len(alpha)]
    layout = draw(st.sampled_from(["clean", "none", "clean", "table_only", "clean", "raw", "none", "clean"]))
    nodes = [list(r) for r in spec["nodes"]]
    inds = [list(r) for r in spec["individuals"]]
    if layout == "none":
        inds = []
        for r in nodes:
            r[3] = -1
    elif layout == "table_only":
        if not inds:
            inds = [[0, [], [], ""]]
        for r in nodes:
            r[3] = -1
    elif layout == "clean":
        while len(inds) < 2:
            inds.append([0, [], [], ""])
        k = len(inds)
        ns_pool = draw(st.integers(0, k - 1))       # that many individuals take non-sample nodes only
        perm = list(draw(st.permutations(list(range(k)))))
        npool, spool = perm[:ns_pool], perm[ns_pool:]
        for r in nodes:
            if r[0] & 1:
                r[3] = draw(st.sampled_from(spool))
            else:
                r[3] = draw(st.sampled_from(npool + [-1, -1])) if npool else -1
    spec = dict(spec, nodes=nodes, individuals=inds, sites=sites, mutations=muts)
    nind = len(inds)
    smp = model.samples(spec)
    a = dict(layout=layout, alpha=aname)
    if nind == 0:
        divs = [p for p in (1, 2, 3) if smp and len(smp) % p == 0]
        a["ploidy"] = draw(st.sampled_from([None, None] + divs * 3 + [2, 3, 0]))
    else:
        a["ploidy"] = draw(st.sampled_from([None] * 7 + [2]))
    a["individuals"] = None
    if nind and draw(st.integers(0, 2)) == 2:
        good = [i for i in range(nind)
                if any(r[3] == i for r in nodes) and all(r[0] & 1 for r in nodes if r[3] == i)]
        withnodes = [i for i in range(nind) if any(r[3] == i for r in nodes)]
        mode = draw(st.integers(0, 5))
        if good and mode < 4:
            a["individuals"] = draw(st.lists(st.sampled_from(good), unique=True, min_size=1, max_size=len(good)))
        elif withnodes and mode == 4:
            a["individuals"] = draw(st.lists(st.sampled_from(withnodes), unique=True, min_size=1,
                                             max_size=len(withnodes)))
        else:
            a["individuals"] = draw(st.lists(st.integers(0, nind if draw(st.integers(0, 3)) == 3 else nind - 1),
                                             unique=True, max_size=nind + 1))
    a["names"] = draw(st.sampled_from([None, "ok", None, "ok", None, "ok", "short", "long", None, "ok"]))
    a["contig_id"] = draw(st.sampled_from([None, None, "chr2", "X_1"]))
    a["transform"] = draw(st.sampled_from(TRANSFORMS))
    ns = len(sites)
    a["site_mask"] = None
    if draw(st.integers(0, 3)) < 3:
        form = draw(st.sampled_from(MASK_FORMS))
        bits = [draw(st.integers(0, 2)) == 2 for _ in range(ns)]
        if draw(st.integers(0, 15)) == 15:
            bits = bits + [False]  # wrong length
        a["site_mask"] = dict(form=form, bits=bits)
    a["sample_mask"] = None
    if a["individuals"] is None and draw(st.integers(0, 1)) == 1:
        a["sample_mask"] = dict(
            form=draw(st.sampled_from(MASK_FORMS + ["callable_array", "callable_list", "callable_by_site"])),
            bits=[draw(st.integers(0, 2)) == 2 for _ in range(len(smp))])
    a["iam"] = draw(st.sampled_from([None, None, True, False]))
    a["apz"] = draw(st.sampled_from([True, None, True, True, False]))
    return dict(spec=spec, args=a)


# ------------------------------------------------------------------ oracle pieces
def py_round(x):
    return int(round(x))  # round-half-even, as numpy.round


def transform_positions(kind, xs):
    """My reading of the documented transforms, on a list of floats -> list of ints."""
    if kind is None:
        return [py_round(x) for x in xs]
    if kind == "legacy":
        out, last = [], 0
        for x in xs:
            p = py_round(x)
            if p <= last:
                p = last + 1
            out.append(p)
            last = p
        return out
    if kind in ("round_plus1", "plus1"):
        return [py_round(x) + 1 for x in xs] if kind == "round_plus1" else [int(1 + x) for x in xs]
    if kind == "fmax1_round":
        return [max(1, py_round(x)) for x in xs]
    if kind == "floor":
        import math

        return [int(math.floor(x)) for x in xs]
    raise AssertionError(kind)


def transform_callable(kind, np):
    if kind is None or kind == "legacy":
        return kind
    if kind == "round_plus1":
        return lambda x: np.round(x) + 1
    if kind == "plus1":
        return lambda x: 1 + x          # the remedy suggested by write_vcf's own error message
    if kind == "fmax1_round":
        return lambda x: np.fmax(1, np.round(x))
    if kind == "floor":
        return np.floor
    raise AssertionError(kind)


def mask_value(np, m, canonical=False):
    if m is None:
        return None
    bits = [bool(b) for b in m["bits"]]
    form = "bool_array" if canonical else m["form"]
    if form == "bool_array":
        return np.array(bits, dtype=bool)
    if form == "list":
        return list(bits)
    if form == "int_array":
        return np.array([int(b) for b in bits], dtype=np.int64)
    if form == "tuple":
        return tuple(bits)
    if form == "int_list":
        return [int(b) for b in bits]
    if form == "callable_array":
        return lambda variant: np.array(bits, dtype=bool)
    if form == "callable_list":
        return lambda variant: [int(b) for b in bits]
    if form == "callable_by_site":
        def f(variant):
            out = np.array(bits, dtype=bool)
            if len(out):
                out[variant.site.id % len(out)] ^= True
            return out
        return f
    raise AssertionError(form)


def sample_mask_bits(m, site_id):
    bits = [bool(b) for b in m["bits"]]
    if m["form"] == "callable_by_site" and bits:
        bits[site_id % len(bits)] ^= True
    return bits


def vcf_groups(spec, ploidy, indivs):
    """('error'|'zero'|'ok'|'nonsample', groups): the nodes of each VCF sample, as documented."""
    n = len(spec["nodes"])
    nind = len(spec["individuals"])
    smp = model.samples(spec)
    node_ind = [r[3] for r in spec["nodes"]]
    if nind > 0 and ploidy is not None:
        return "error", None
    chosen = None
    if indivs is None:
        refs = sorted({node_ind[u] for u in smp})
        if not refs:
            return "zero", None
        if refs != [-1]:
            if refs[0] == -1:
                return "error", None
            chosen = refs
    else:
        if len(indivs) == 0:
            return "error", None
        chosen = list(indivs)
    if chosen is not None:
        groups, nonsample = [], False
        by_ind = {}
        for u in range(n):
            by_ind.setdefault(node_ind[u], []).append(u)
        for i in chosen:
            if i < 0 or i >= nind:
                return "error", None
            nodes = by_ind.get(i, [])
            if not nodes:
                return "error", None
            kinds = {model.is_sample(spec, u) for u in nodes}
            if len(kinds) != 1:
                return "error", None
            nonsample = nonsample or kinds == {False}
            groups.append(nodes)
        return ("nonsample" if nonsample else "ok"), groups
    p = 1 if ploidy is None else ploidy
    if p < 1 or len(smp) % p:
        return "error", None
    if not smp:
        return "zero", None
    return "ok", [smp[i:i + p] for i in range(0, len(smp), p)]


def site_states(spec, j, by_site=None):
    out = [spec["sites"][j][1]]
    for _, m in (model.site_mutations(spec, j) if by_site is None else by_site[j]):
        if m[2] not in out:
            out.append(m[2])
    return out


def site_oracle(spec, j, nodes, iam, by_site=None):
    par = model.parent_at(spec, F(spec["sites"][j][0]))
    ch = model.children_of(par)
    sm = model.site_mutations(spec, j) if by_site is None else by_site[j]
    if len(nodes) > 64:
        # same rule as model.allele_at / is_missing, with the per-site mutation map built once
        on = {}
        for _, m in sm:
            on[m[1]] = m[2]
        out = []
        for u in nodes:
            if iam and model.is_sample(spec, u) and par[u] < 0 and not ch[u] and u not in on:
                out.append(None)
                continue
            v = u
            while v >= 0 and v not in on:
                v = par[v]
            out.append(on[v] if v >= 0 else spec["sites"][j][1])
        return out
    return [None if iam and model.is_missing(spec, j, u, par, ch, sm) else model.allele_at(spec, j, u, par, sm)
            for u in nodes]


def parse_vcf(ctx, text):
    ctx.check(text.endswith("\n"), "vcf.format", "output does not end with a newline")
    lines = text[:-1].split("\n")
    meta = [l for l in lines if l.startswith("##")]
    rest = lines[len(meta):]
    ctx.check(lines[:len(meta)] == meta and rest and rest[0].startswith("#CHROM\t"), "vcf.format",
              f"header structure: {lines[:8]}")
    return meta, rest[0].split("\t"), [l.split("\t") for l in rest[1:]]


def call_vcf(tskit, np, ts, a, site_mask="given", canonical=False):
    kw = {}
    if a["ploidy"] is not None:
        kw["ploidy"] = a["ploidy"]
    if a["contig_id"] is not None:
        kw["contig_id"] = a["contig_id"]
    if a["individuals"] is not None:
        kw["individuals"] = list(a["individuals"])
    if a.get("_names") is not None:
        kw["individual_names"] = a["_names"]
    if a["transform"] is not None:
        kw["position_transform"] = transform_callable(a["transform"], np)
    if site_mask == "given" and a["site_mask"] is not None:
        kw["site_mask"] = mask_value(np, a["site_mask"], canonical)
    if a["sample_mask"] is not None:
        kw["sample_mask"] = mask_value(np, a["sample_mask"], canonical and not a["sample_mask"]["form"].startswith("callable"))
    if a["iam"] is not None:
        kw["isolated_as_missing"] = a["iam"]
    if a["apz"] is not None:
        kw["allow_position_zero"] = a["apz"]
    return ts.as_vcf(**kw)


def classify(case, exc):
    w = getattr(exc, "what", "")
    if w == WHAT_LIST:
        return KEY_LIST
    if w == WHAT_ZERO:
        return KEY_ZERO
    return None


# ------------------------------------------------------------------ the sub-check
def run_vcf(case, ctx):
    import numpy as np
    import tskit

    spec = case["spec"]
    a = dict(case["args"])
    ts = gen.build_tables(spec, tskit).tree_sequence()
    ns = len(spec["sites"])
    by_site = model.mutations_by_site(spec)
    L = F(spec["L"])
    ctx.label("layout_" + a["layout"])
    ctx.label("alpha_" + a["alpha"])
    status, groups = vcf_groups(spec, a["ploidy"], a["individuals"])
    ctx.label("groups_" + status)
    errs = set()
    if status == "error":
        errs.add("sample mapping")
    nvcf = len(groups) if groups is not None else None
    a["_names"] = None
    if a["names"] is not None and nvcf is not None:
        k = dict(ok=nvcf, short=max(0, nvcf - 1), long=nvcf + 1)[a["names"]]
        a["_names"] = [f"id{j}_{(7 * j) % 5}" for j in range(k)]
        if k != nvcf:
            errs.add("individual_names length")
    sm = a["site_mask"]
    masked = [False] * ns
    if sm is not None:
        ctx.label("site_mask_" + sm["form"])
        ctx.label("site_mask_non_ndarray", sm["form"] != "bool_array")
        if len(sm["bits"]) != ns:
            errs.add("site_mask length")
        else:
            masked = [bool(b) for b in sm["bits"]]
    ctx.label("some_site_masked", any(masked))
    tkind = a["transform"]
    ctx.label("transform_" + str(tkind))
    pos = [F(s[0]) for s in spec["sites"]]
    tpos = transform_positions(tkind, pos)
    tL = transform_positions(tkind, [L])[0]
    allow0 = bool(a["apz"])
    zero_unmasked = any(tpos[j] == 0 and not masked[j] for j in range(ns))
    zero_masked = any(tpos[j] == 0 and masked[j] for j in range(ns))
    ctx.label("position_zero_unmasked", zero_unmasked)
    ctx.label("position_zero_masked", zero_masked)
    if zero_unmasked and not allow0 and "site_mask length" not in errs:
        errs.add("position zero")
    many_unmasked = any(len(site_states(spec, j, by_site)) > 9 and not masked[j] for j in range(ns))
    many_masked = any(len(site_states(spec, j, by_site)) > 9 and masked[j] for j in range(ns))
    ctx.label("exactly9_alleles_unmasked", any(len(site_states(spec, j, by_site)) == 9 and not masked[j] for j in range(ns)))
    ctx.label("gt9_alleles_unmasked", many_unmasked)
    ctx.label("gt9_alleles_masked", many_masked)
    if many_unmasked:
        errs.add(">9 alleles")
    iam = True if a["iam"] is None else bool(a["iam"])
    smask = a["sample_mask"]
    if smask is not None:
        ctx.label("sample_mask_" + smask["form"])
    W = (f"write_vcf(ploidy={a['ploidy']}, individuals={a['individuals']}, names={a['names']}, "
         f"transform={tkind}, site_mask={sm}, sample_mask={smask}, iam={a['iam']}, apz={a['apz']})")

    # ---- findings that pre-empt the documented behaviour (classified, see PROBES)
    if status == "zero":
        ctx.label("zero_samples")
        try:
            text = call_vcf(tskit, np, ts, a)
        except ValueError:
            return
        except IndexError as e:
            if _ASSUME_OPEN:
                return
            ctx.fail(WHAT_ZERO, f"a tree sequence without sample nodes: {e!r} instead of a VCF without sample "
                     f"columns or a ValueError; {W}")
        meta, head, rows = parse_vcf(ctx, text)
        ctx.check(len(head) == 9 and all(len(r) == 9 for r in rows), "vcf.zero_samples", "sample columns present")
        return
    if tkind == "plus1":
        ctx.label("transform_numpy_only_callable")
        try:
            call_vcf(tskit, np, ts, a)
        except ValueError:
            ctx.check(bool(errs), "vcf.errors", f"ValueError although no documented error applies; {W}")
            return
        except tskit.LibraryError:
            ctx.check(status == "nonsample" and iam, "vcf.errors", f"LibraryError; {W}")
            return
        except TypeError as e:
            if _ASSUME_OPEN:
                return
            ctx.fail(WHAT_LIST, f"position_transform=lambda x: 1 + x (numpy-array arithmetic, the remedy suggested "
                     f"by write_vcf's position-zero message) raised {e!r}: the transform is applied to the python "
                     f"list [sequence_length] for the contig length; {W}")
        # if the defect is repaired the case falls through to the full oracle below

    if status == "nonsample":
        # docs: an error; code: LibraryError via variants() when missing data is on, output otherwise
        try:
            text = call_vcf(tskit, np, ts, a)
        except (ValueError, tskit.LibraryError):
            return
        ctx.check(not errs and not iam, "vcf.errors",
                  f"output produced although {sorted(errs) or 'non-sample nodes with isolated_as_missing'}; {W}")
    elif errs:
        ctx.label("error_expected")
        for e in errs:
            ctx.label("err:" + e)
        try:
            call_vcf(tskit, np, ts, a)
        except ValueError:
            # masks in canonical form must fail the same way
            try:
                call_vcf(tskit, np, ts, a, canonical=True)
            except ValueError:
                return
            ctx.fail("vcf.mask_representation", f"ValueError only for the non-canonical mask form; {W}")
        ctx.fail("vcf.errors", f"no ValueError although: {sorted(errs)}; {W}")
    else:
        text = call_vcf(tskit, np, ts, a)

    # ---- full comparison of the text
    ctx.label("output_checked")
    meta, head, rows = parse_vcf(ctx, text)
    contig = "1" if a["contig_id"] is None else a["contig_id"]
    clen = max(1, tL)
    if ns:
        clen = max(tpos[-1], clen)
    ctx.check(meta[0] == "##fileformat=VCFv4.2", "vcf.header", meta[0])
    ctx.check(f"##source=tskit {tskit.__version__}" in meta, "vcf.header", "source line")
    cl = [l for l in meta if l.startswith("##contig=")]
    ctx.check(cl == [f"##contig=<ID={contig},length={clen}>"], "vcf.header.contig",
              f"{cl} expected ID={contig},length={clen} (L={L}, transform={tkind}, last site {pos[-1:]}); {W}")
    ctx.check(any(l.startswith("##FORMAT=<ID=GT,") for l in meta), "vcf.header", "FORMAT GT line")
    names = a["_names"] if a["_names"] is not None else [f"tsk_{j}" for j in range(nvcf)]
    ctx.eq(head, ["#CHROM", "POS", "ID", "REF", "ALT", "QUAL", "FILTER", "INFO", "FORMAT"] + names,
           "vcf.header.columns")
    expect_sites = [j for j in range(ns) if not masked[j]]
    ctx.eq([r[2] for r in rows], [str(j) for j in expect_sites], "vcf.lines(one per unmasked site, in order): " + W)
    flat = [u for g in groups for u in g]
    nt = False
    for r, j in zip(rows, expect_sites):
        ctx.check(len(r) == 9 + nvcf, "vcf.line", f"site {j}: {len(r)} columns expected {9 + nvcf}")
        ctx.check(r[0] == contig, "vcf.CHROM", f"{r[0]!r} expected {contig!r}")
        ctx.check(r[1] == str(tpos[j]), "vcf.POS", f"site {j} at {pos[j]}: POS {r[1]} expected {tpos[j]} ({tkind}); {W}")
        sst = site_states(spec, j, by_site)
        ctx.check(r[3] == sst[0], "vcf.REF", f"site {j}: REF {r[3]!r} expected {sst[0]!r}")
        alts = [] if r[4] == "." and len(sst) == 1 else r[4].split(",")
        ctx.check(sorted(alts) == sorted(sst[1:]) and len(set(alts)) == len(alts), "vcf.ALT",
                  f"site {j}: ALT {r[4]!r} expected the states {sst[1:]}")
        ctx.check(r[5:9] == [".", "PASS", ".", "GT"], "vcf.fixed_columns", f"{r[5:9]}")
        alleles = [r[3]] + alts
        exp = site_oracle(spec, j, flat, iam, by_site)
        if smask is not None:
            bits = sample_mask_bits(smask, j)
            exp = [None if bits[i] else s for i, s in enumerate(exp)]
            ctx.label("sample_masked_call", any(bits))
        if any(s is None for s in exp):
            ctx.label("missing_call")
            nt = True
        k = 0
        for gi, g in enumerate(groups):
            ent = r[9 + gi].split("|")
            ctx.check(len(ent) == len(g), "vcf.GT", f"site {j} sample {gi}: GT {r[9 + gi]!r} for nodes {g}; {W}")
            for e, u in zip(ent, g):
                s = exp[k]
                k += 1
                if s is None:
                    ctx.check(e == ".", "vcf.GT", f"site {j} node {u}: GT entry {e!r} expected '.'; {W}")
                else:
                    ctx.check(e.isdigit() and int(e) < len(alleles) and alleles[int(e)] == s, "vcf.GT",
                              f"site {j} node {u}: GT entry {e!r} over {alleles} expected {s!r}; {W}")
    ploidies = {len(g) for g in groups}
    ctx.label("mixed_ploidy", len(ploidies) > 1)
    ctx.label("ploidy_gt1", max(ploidies) > 1)
    ctx.label("individuals_arg", a["individuals"] is not None)
    ctx.label("individuals_used", status in ("ok", "nonsample") and len(spec["individuals"]) > 0
              and any(spec["nodes"][u][3] >= 0 for u in flat))
    ctx.label("data_lines", bool(rows))
    nt = nt or len(ploidies) > 1 or (sm is not None and sm["form"] != "bool_array") or 0 in [tpos[j] for j in expect_sites]
    ctx.nt(nt and ns > 0)

    # ---- the command line front end prints the same text
    if (a["individuals"] is None and a["_names"] is None and tkind is None and sm is None and smask is None
            and a["iam"] is None and os.environ.get("VF_SCRATCH")):
        import contextlib
        import io

        from tskit import cli

        ctx.label("cli")
        path = os.path.join(os.environ["VF_SCRATCH"], "c16.trees")
        ts.dump(path)
        argv = ["vcf", path]
        if a["ploidy"] is not None:
            argv += ["--ploidy", str(a["ploidy"])]
        if a["contig_id"] is not None:
            argv += ["--contig-id", a["contig_id"]]
        if a["apz"]:
            argv += ["--allow-position-zero"]
        ns_ = cli.get_tskit_parser().parse_args(argv)
        buf = io.StringIO()
        with contextlib.redirect_stdout(buf):
            ns_.runner(ns_)
        ctx.eq(buf.getvalue(), text, "tskit vcf (command line) vs as_vcf: " + " ".join(argv[2:]))

    # ---- metamorphic: representation independence and 'mask == delete lines'
    if sm is not None or (smask is not None and not smask["form"].startswith("callable")):
        ctx.eq(call_vcf(tskit, np, ts, a, canonical=True), text, "vcf.mask_representation: " + W)
    if sm is not None:
        try:
            full = call_vcf(tskit, np, ts, a, site_mask=None)
        except ValueError:
            ctx.check(zero_masked and not allow0 or many_masked, "vcf.mask_invariance",
                      f"unmasked call fails although no masked site can trigger an error; {W}")
            ctx.label("mask_hides_error")
            return
        fl = full[:-1].split("\n")
        keep = [l for l in fl if l.startswith("#") or not masked[int(l.split("\t")[2])]]
        ctx.eq("\n".join(keep) + "\n", text, "vcf.mask_invariance(masked == unmasked minus masked lines)")


# ------------------------------------------------------------------ enumerated: every mask x every form
def _enum_spec():
    """4 samples under one root; sites at 0 (1 mutation), 1 (none), 2 (10 stacked mutations: 11 alleles),
    4 (a back mutation); sample 3 is isolated on [3, 6) (missing calls at the last site)."""
    nodes = [[1, 0.0, -1, -1, ""] for _ in range(4)] + [[0, 1.0, -1, -1, ""], [0, 2.0, -1, -1, ""]]
    edges = [[0.0, 6.0, 4, 0, ""], [0.0, 6.0, 4, 1, ""], [0.0, 6.0, 5, 2, ""], [0.0, 3.0, 5, 3, ""],
             [0.0, 6.0, 5, 4, ""]]
    sites = [[0.0, "A", ""], [1.0, "C", ""], [2.0, "A", ""], [4.0, "G", ""]]
    muts = [[0, 4, "T", -1, None, ""]]
    letters = "CGTacgtnxy"
    for q, c in enumerate(letters):
        muts.append([2, 0, c, (len(muts) - 1) if q else -1, None, ""])
    k = len(muts)
    muts += [[3, 4, "A", -1, None, ""], [3, 0, "G", k, None, ""]]
    return dict(L=6.0, nodes=nodes, edges=edges, sites=sites, mutations=muts, individuals=[], populations=[],
                migrations=[])


def enum_masks(tier, seed):
    import itertools

    spec = _enum_spec()
    for bits in itertools.product([False, True], repeat=4):
        for form in MASK_FORMS:
            for apz in (None, True):
                for tr in (None, "legacy", "fmax1_round"):
                    for pl in (None, 2):
                        yield dict(spec=spec, args=dict(
                            layout="none", alpha="wide12", ploidy=pl, individuals=None, names=None, contig_id=None,
                            transform=tr, site_mask=dict(form=form, bits=list(bits)), sample_mask=None, iam=None,
                            apz=apz))


# ------------------------------------------------------------------ many samples / many sites
def big_vcf_spec(K, S, with_inds):
    """Balanced-ish two-level tree over K samples (groups of 7 under K/7 internal nodes under one root; the last
    sample is isolated on the right half), S sites with 1-3 mutations each, diploid individuals if asked."""
    G = max(1, K // 7)
    nodes = [[1, 0.0, -1, (u // 2 if with_inds else -1), ""] for u in range(K)]
    nodes += [[0, 1.0, -1, -1, ""] for _ in range(G)] + [[0, 2.0, -1, -1, ""]]
    root = K + G
    L = float(2 * S)
    edges = []
    for g in range(G):
        edges.append([0.0, L, root, K + g, ""])
    low = []
    for u in range(K):
        right = L / 2 if u == K - 1 else L
        low.append([0.0, right, K + (u % G), u, ""])
    low.sort(key=lambda e: (e[2], e[3]))
    edges = low + edges
    sites, muts = [], []
    letters = "ACGT"
    for j in range(S):
        x = float(2 * j) + (0.5 if j % 3 == 0 else 0.0)
        sites.append([x, letters[j % 4], ""])
        on = {}

        def put(node, state):
            if node in on:
                par = on[node]
            else:
                grp = K + (node % G) if node < K else None
                attached = node < K and not (node == K - 1 and x >= L / 2)
                par = on.get(grp, -1) if attached else -1
            muts.append([j, node, state, par, None, ""])
            on[node] = len(muts) - 1

        put(K + (j * 13) % G, letters[(j + 1) % 4])
        if j % 2:
            put((j * 31) % K, letters[(j + 2) % 4])
        if j % 5 == 0:
            put(K - 1, letters[(j + 3) % 4])
    inds = [[0, [], [], ""] for _ in range((K + 1) // 2)] if with_inds else []
    return dict(L=L, nodes=nodes, edges=edges, sites=sites, mutations=muts, individuals=inds, populations=[],
                migrations=[])


def relabel_nodes(spec, perm):
    """The same tree sequence with node u renamed perm[u]."""
    n = len(spec["nodes"])
    nodes = [None] * n
    for u, row in enumerate(spec["nodes"]):
        nodes[perm[u]] = row
    edges = [[e[0], e[1], perm[e[2]], perm[e[3]], e[4]] for e in spec["edges"]]
    edges.sort(key=lambda e: (nodes[e[2]][1], e[2], e[3], e[0]))
    muts = [[m[0], perm[m[1]]] + list(m[2:]) for m in spec["mutations"]]
    return dict(spec, nodes=nodes, edges=edges, mutations=muts)


def enum_big(tier, seed):
    sizes = [(4097, 16), (4200, 40), (66, 4200), (66000, 3)]
    if tier != "quick":
        sizes += [(131074, 3), (1000, 20000), (16385, 8), (8200, 30), (300, 9000), (32770, 3)]
    for K, S in sizes:
        for with_inds, ploidy in ((False, None), (False, 2), (True, None)):
            if K % 2 and ploidy == 2:
                continue
            for tr in (None, "legacy"):
                for sm in (None, "array"):
                    yield dict(K=K, S=S, with_inds=with_inds, ploidy=ploidy, transform=tr, mask=sm,
                               iam=(None if sm is None else False))
            # ancestors listed first and sample ids interleaved, so that sample nodes are not 0..K-1
            yield dict(K=K, S=S, with_inds=with_inds, ploidy=ploidy, transform=None, mask=None, iam=None,
                       relabel=True)


def run_big(case, ctx):
    K, S = case["K"], case["S"]
    spec = big_vcf_spec(K, S, case["with_inds"])
    if case.get("relabel"):
        n = len(spec["nodes"])
        A = n - K  # ancestors take ids 0..A-1; sample u gets A + (u * 7919) % K  (7919 is coprime to every K used)
        import math

        step = next(q for q in (7919, 7907, 7901, 104729) if math.gcd(q, K) == 1)
        perm = [A + (u * step) % K for u in range(K)] + list(range(A))
        spec = relabel_nodes(spec, perm)
        ctx.label("relabelled")
    site_mask = None
    sample_mask = None
    if case["mask"]:
        site_mask = dict(form="bool_array", bits=[j % 11 == 3 for j in range(S)])
        if not case["with_inds"]:
            sample_mask = dict(form="bool_array", bits=[u % 9 == 4 for u in range(K)])
    a = dict(layout="clean" if case["with_inds"] else "none", alpha="acgt", ploidy=case["ploidy"], individuals=None,
             names=None, contig_id=None, transform=case["transform"], site_mask=site_mask, sample_mask=sample_mask,
             iam=case["iam"], apz=True)
    run_vcf(dict(spec=spec, args=a), ctx)
    ctx.nt(True)


SUBCHECKS = [
    SubCheck("C16.mask_forms", run_vcf, enumerate=enum_masks, quick=1, thorough=1, classify=classify,
             rule="fixed 4-site tree sequence (site at position 0, site with 11 alleles, missing calls) x all 16 "
             "site masks x 5 representations x allow_position_zero x 3 transforms x ploidy 1/2"),
    SubCheck("C16.vcf", run_vcf, strategy=vcf_case, quick=10000, thorough=300000, classify=classify,
             rule="output was produced and parsed, with >=1 site, and: a site mask in a non-ndarray form, or mixed "
             "ploidy, or an unmasked site at transformed position 0, or a missing/sample-masked call",
             floors={"output_checked": 0.3, "error_expected": 0.1, "site_mask_non_ndarray": 0.3,
                     "site_mask_list": 0.05, "site_mask_int_array": 0.05, "site_mask_tuple": 0.05,
                     "mixed_ploidy": 0.03, "ploidy_gt1": 0.1, "position_zero_unmasked": 0.1,
                     "position_zero_masked": 0.05, "missing_call": 0.05, "sample_masked_call": 0.03,
                     "gt9_alleles_unmasked": 0.01, "gt9_alleles_masked": 0.005, "individuals_used": 0.1,
                     "individuals_arg": 0.03, "transform_legacy": 0.1, "mask_hides_error": 0.01,
                     "data_lines": 0.2}),
    SubCheck("C16.large", run_big, enumerate=enum_big, quick=1, thorough=1, shards=16, classify=classify,
             rule="4097..66000 samples x a few sites and 66..300 samples x 4200..9000 sites (thorough: up to 131074 samples / 20000 sites) x "
             "ploidy / individuals x transform x masks"),
]

_PROBE_SPEC = dict(L=10.0, nodes=[[1, 0.0, -1, -1, ""], [1, 0.0, -1, -1, ""], [0, 1.0, -1, -1, ""]],
                   edges=[[0.0, 10.0, 2, 0, ""], [0.0, 10.0, 2, 1, ""]], sites=[[3.0, "A", ""]],
                   mutations=[[0, 0, "T", -1, None, ""]], individuals=[], populations=[], migrations=[])
_PROBE_ARGS = dict(layout="none", alpha="acgt", ploidy=None, individuals=None, names=None, contig_id=None,
                   transform=None, site_mask=None, sample_mask=None, iam=None, apz=None)
PROBES = {
    KEY_LIST: ("C16.vcf", dict(spec=_PROBE_SPEC, args=dict(_PROBE_ARGS, transform="plus1"))),
    KEY_ZERO: ("C16.vcf", dict(
        spec=dict(_PROBE_SPEC, nodes=[[0, 0.0, -1, -1, ""], [0, 0.0, -1, -1, ""], [0, 1.0, -1, -1, ""]]),
        args=dict(_PROBE_ARGS))),
}
