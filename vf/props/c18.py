"""C18 — Newick, Nexus and FASTA exports encode the trees and sequences faithfully."""
import decimal
import io
import math

from hypothesis import strategies as st

from .. import gen, model
from ..core import SubCheck
from ..gen import F

META = dict(
    level="exploration",
    rule="(newick) every marginal tree of a generated valid tree sequence (vf/gen.py ts_spec, <=11 nodes: "
    "polytomies, unary chains, internal/isolated samples, dead branches, several roots) whose node times "
    "are optionally mapped monotonically to large negative / tiny / huge / mixed-sign values x root in "
    "{None, every node} x precision in {None,0,1,3,10,17} x node_labels in {None, {}, random dict incl. "
    "non-samples/empty/duplicate labels} x include_branch_lengths. Oracle: an independent Newick parser "
    "written here (explicit-stack descent, no recursion); the parsed tree must equal, as a canonical "
    "unordered labelled tree, the model subtree below the root with the requested labels and with every "
    "branch length equal to the exactly (decimal, half-even) rounded node-time difference at the "
    "requested precision (default 17, or 0 when all node/mutation/migration times are integers); "
    "ValueError exactly when root=None and the tree has != 1 root; the fast path string must be "
    "identical to the general path string with the equivalent label dict; Tree.newick() = leaf labels "
    "id+1 at precision 14. (nexus_fasta) single-rooted generated tree sequences (own generator, discrete "
    "or dyadic coordinates) and G1 discrete tree sequences, single-character alleles x precision x "
    "include_trees/include_alignments x reference sequence (argument/embedded/none/wrong length) x "
    "missing_data_character x wrap_width in {0,1,7,60,L,L+5}: the whole Nexus text (TAXA, DATA, TREES "
    "with names t<l>^<r>) and FASTA text are rebuilt from the positional model (alignment = reference "
    "overlaid with model.allele_at at each site) and must match line by line; documented ValueErrors "
    "(isolated samples, multi-root trees, wrong reference length, bad wrap_width). (large_shapes) "
    "enumerated combs, stars, chains and balanced trees with 1..1500 (thorough ..10001) nodes x time "
    "scales, fast and general path (the general path must not depend on the recursion limit).",
    assumptions=[
        "reference model vf/model.py; Newick parser and decimal formatter in this module",
        "printf/format rounding is round-half-even on the exact binary value (glibc and CPython both are)",
        "precision > 17 is not generated (the fast path rejects it with ValueError, the general path accepts it)",
        "order of children in the Newick string is not asserted",
        "indentation of Nexus lines is not asserted (lines are compared stripped)",
    ],
    technique="property-based testing (Hypothesis) with an independent parser/positional oracle; enumerated large shapes",
    engines=["hypothesis-runner", "exhaustive-small-scope"],
)

CTX = decimal.Context(prec=1300, rounding=decimal.ROUND_HALF_EVEN)


def fmt(x, p):
    """Exact decimal rendering of the double x with p decimals (independent of printf/str.format)."""
    d = CTX.quantize(decimal.Decimal(x), decimal.Decimal(1).scaleb(-p))
    return format(d, "f")


# ------------------------------------------------------------------ independent Newick parser
class NewickError(Exception):
    pass


STOP_LABEL = set("(),:;")
STOP_LEN = set("(),;")


def parse_newick(s):
    """-> (labels, lengths, children, root) as parallel lists; lengths are strings or None."""
    if not s.endswith(";"):
        raise NewickError("no terminating ';'")
    n = len(s) - 1
    labels, lengths, children = [], [], []
    stack = []
    root = None
    pos = 0
    expect_subtree = True

    def new_node():
        nonlocal root
        labels.append("")
        lengths.append(None)
        children.append([])
        idx = len(labels) - 1
        if stack:
            children[stack[-1]].append(idx)
        elif root is None:
            root = idx
        else:
            raise NewickError("second top-level subtree")
        return idx

    def read_tail(idx, pos):
        a = pos
        while pos < n and s[pos] not in STOP_LABEL:
            pos += 1
        labels[idx] = s[a:pos]
        if pos < n and s[pos] == ":":
            pos += 1
            a = pos
            while pos < n and s[pos] not in STOP_LEN:
                pos += 1
            lengths[idx] = s[a:pos]
            if lengths[idx] == "":
                raise NewickError("empty branch length")
        return pos

    while True:
        if expect_subtree:
            if pos < n and s[pos] == "(":
                stack.append(new_node())
                pos += 1
            else:
                pos = read_tail(new_node(), pos)
                expect_subtree = False
        else:
            if pos == n:
                if stack:
                    raise NewickError("unbalanced '('")
                break
            c = s[pos]
            if c == ",":
                if not stack:
                    raise NewickError("',' at top level")
                pos += 1
                expect_subtree = True
            elif c == ")":
                if not stack:
                    raise NewickError("unbalanced ')'")
                pos = read_tail(stack.pop(), pos + 1)
            else:
                raise NewickError(f"unexpected {c!r} at {pos}")
    if ";" in s[:n]:
        raise NewickError("';' inside")
    return labels, lengths, children, root


def canon_id(labels, lengths, children, root, table):
    """Intern the unordered labelled tree bottom-up (no recursion); equal trees get equal ids."""
    order, stack = [], [root]
    while stack:
        u = stack.pop()
        order.append(u)
        stack.extend(children[u])
    ident = {}
    for u in reversed(order):
        key = (labels[u], lengths[u], tuple(sorted(ident[c] for c in children[u])))
        if key not in table:
            table[key] = len(table)
        ident[u] = table[key]
    return ident[root], len(order)


def expected_tree(spec, par, ch, root, label_of, precision, with_lengths, times=None):
    """Model subtree below root as parallel lists indexed by node id (only reachable ones matter)."""
    n = len(par)
    tm = times if times is not None else [model.time(spec, u) for u in range(n)]
    labels = [""] * n
    lengths = [None] * n
    stack = [root]
    while stack:
        u = stack.pop()
        labels[u] = label_of.get(u, "")
        if u != root and with_lengths:
            lengths[u] = fmt(tm[par[u]] - tm[u], precision)
        stack.extend(ch[u])
    return labels, lengths, ch, root


def check_newick_string(ctx, s, exp, W, detail):
    ctx.check(isinstance(s, str), W, "not a str")
    try:
        got = parse_newick(s)
    except NewickError as e:
        ctx.fail(W + ".parse", f"{e}: {s[:300]!r} {detail}")
    table = {}
    gid, gn = canon_id(*got, table)
    eid, en = canon_id(*exp, table)
    ctx.check(gn == en, W + ".node_count", lambda: f"{gn} nodes parsed, {en} expected: {s[:300]!r} {detail}")
    ctx.check(gid == eid, W + ".tree", lambda: f"parsed tree differs from the model: {s[:400]!r} {detail}; "
              f"expected labels/lengths {[(u, exp[0][u], exp[1][u]) for u in range(len(exp[0]))][:30]}")


def default_precision(spec, times=None):
    ts_ = times if times is not None else [model.time(spec, u) for u in range(len(spec["nodes"]))]
    vals = list(ts_)
    vals += [F(m[4]) for m in spec.get("mutations", []) if m[4] is not None]
    vals += [F(m[5]) for m in spec.get("migrations", [])]
    return 0 if all(float(v).is_integer() for v in vals) else 17


# ------------------------------------------------------------------ newick sub-check
LABEL_POOL = ["x", "", "n1", "A_b", "7", "ü", "n0", "leaf-1", "X" * 12]


def transform_times(times, tt):
    if tt is None:
        return list(times)
    kind, S = tt
    if kind == "shift":
        top = max(times) + 1.0
        return [(t - top) * S for t in times]
    if kind == "scale":
        return [t * S for t in times]
    mid = sorted(times)[len(times) // 2]
    return [(t - mid) * S - 0.5 * S for t in times]


@st.composite
def newick_case(draw):
    tt = draw(st.sampled_from([None, None, None, ["shift", 1e9], ["shift", 1.0], ["shift", 1e3], ["shift", 1e30],
                               ["scale", 1e-9], ["scale", 1e6], ["scale", 1e100], ["scale", 1e300],
                               ["mixed", 1.0], ["mixed", 1e6], ["mixed", 1e15]]))
    plain = tt is None
    spec = draw(gen.ts_spec(max_nodes=11, min_nodes=draw(st.sampled_from([2, 1, 5, 10])), max_intervals=3,
                            max_sites=2 if plain else 0, migrations=plain, metadata=False, individuals=False,
                            populations=plain, min_samples=draw(st.sampled_from([1, 0, 2]))))
    if tt is not None:
        old = [model.time(spec, u) for u in range(len(spec["nodes"]))]
        new = transform_times(old, tt)
        ok = all(math.isfinite(t) for t in new) and all(new[e[2]] > new[e[3]] for e in spec["edges"])
        if ok:
            spec = dict(spec)
            spec["nodes"] = [[r[0], new[u]] + r[2:] for u, r in enumerate(spec["nodes"])]
            # edge order (non-decreasing parent time, grouped by parent) is preserved by a monotone map
        else:
            tt = None
    n = len(spec["nodes"])
    precision = draw(st.sampled_from([None, 0, 17, 1, 3, 10]))
    mode = draw(st.sampled_from(["default", "dict", "empty", "default"]))
    labels = []
    if mode == "dict":
        k = draw(st.integers(0, n))
        for u in draw(st.permutations(list(range(n))))[:k]:
            labels.append([u, draw(st.sampled_from(LABEL_POOL))])
    ibl = draw(st.sampled_from([None, True, False, None]))
    return dict(spec=spec, tt=tt, precision=precision, mode=mode, labels=labels, ibl=ibl)


def run_newick(case, ctx):
    import tskit

    spec = case["spec"]
    n = len(spec["nodes"])
    smp = model.samples(spec)
    ts = gen.build_tables(spec, tskit).tree_sequence()
    times = [model.time(spec, u) for u in range(n)]
    dp = default_precision(spec)
    ctx.check(ts.discrete_time == (dp == 0), "discrete_time", f"{ts.discrete_time} model default precision {dp}")
    p_arg = case["precision"]
    p = dp if p_arg is None else p_arg
    mode, ibl = case["mode"], case["ibl"]
    with_len = True if ibl is None else ibl
    deflab = {u: f"n{u}" for u in smp}
    if mode == "default":
        lab_arg, lab = None, deflab
    elif mode == "empty":
        lab_arg, lab = {}, {}
    else:
        lab = {u: s for u, s in case["labels"]}
        lab_arg = dict(lab)
    labs = gen.spec_labels(spec, model)
    for l in labs & {"multi_tree", "multi_root", "unary", "polytomy", "internal_sample", "isolated_sample",
                     "dead_branch", "zero_edges"}:
        ctx.label(l)
    ctx.label("time_transform_" + (case["tt"][0] if case["tt"] else "none"))
    ctx.label("negative_times", min(times) < 0)
    ctx.label("branch_exceeds_root_time", max(times) - min(times) >= 10 * max(1.0, max(times)))
    ctx.label("times>=1e6", max(abs(t) for t in times) >= 1e6)
    ctx.label("default_precision_0", dp == 0)
    ctx.label("mode_" + mode)
    ctx.label("no_branch_lengths", not with_len)
    ctx.label("num_nodes>=10", n >= 10)
    ctx.nt(bool(spec["edges"]) and (bool(labs & {"unary", "polytomy", "internal_sample"}) or min(times) < 0
                                    or max(abs(t) for t in times) >= 1e6 or n in (1, 10)))
    kw = {}
    if p_arg is not None:
        kw["precision"] = p_arg
    bps = model.breakpoints(spec)
    single = False
    for i, tree in enumerate(ts.trees()):
        x = bps[i]
        par = model.parent_at(spec, x)
        ch = model.children_of(par)
        roots = model.roots(spec, par)
        single |= len(roots) == 1
        for r in [None] + list(range(n)):
            detail = f"[tree {i} root={r} precision={p_arg} mode={mode} ibl={ibl} par={par} times={times}]"
            if r is None and len(roots) != 1:
                for kk in (dict(), dict(node_labels=deflab), dict(include_branch_lengths=False)):
                    try:
                        tree.as_newick(**kk)
                        ctx.fail("as_newick.multiroot", f"no ValueError with {len(roots)} roots {detail}")
                    except ValueError:
                        pass
                continue
            rr = roots[0] if r is None else r
            rkw = dict(kw) if r is None else dict(kw, root=r)
            # fast path == general path with the equivalent labels
            fast = tree.as_newick(**rkw)
            general = tree.as_newick(node_labels=dict(deflab), **rkw)
            ctx.check(fast == general, "as_newick.fast_vs_general",
                      lambda: f"fast {fast[:300]!r} general {general[:300]!r} {detail}")
            check_newick_string(ctx, fast, expected_tree(spec, par, ch, rr, deflab, p, True), "as_newick.fast", detail)
            # the requested option set
            okw = dict(rkw)
            if lab_arg is not None:
                okw["node_labels"] = dict(lab_arg)
            if ibl is not None:
                okw["include_branch_lengths"] = ibl
            if okw != rkw:
                s = tree.as_newick(**okw)
                check_newick_string(ctx, s, expected_tree(spec, par, ch, rr, lab, p, with_len), "as_newick.options",
                                    detail)
            if r is None or r == n // 2:
                # deprecated spelling: leaves labelled id+1, precision 14 by default
                leaves = {u: str(u + 1) for u in model.descendants(ch, rr) if not ch[u]}
                s = tree.newick(**({} if r is None else dict(root=r)))
                check_newick_string(ctx, s, expected_tree(spec, par, ch, rr, leaves, 14, True), "newick.legacy", detail)
    ctx.label("some_single_root_tree", single)


# ------------------------------------------------------------------ nexus / fasta
@st.composite
def single_root_spec(draw, discrete):
    """Every tree has exactly one root and no isolated sample: all nodes but the unique oldest one
    have a parent on every elementary interval."""
    if discrete:
        L = draw(st.sampled_from([1, 2, 3, 5, 10, 17, 61, 100, 130]))
        k = min(draw(st.sampled_from([1, 0, 2, 3])), L - 1)
        cuts = sorted(draw(st.lists(st.integers(1, L - 1), min_size=k, max_size=k, unique=True))) if k else []
        L = float(L)
        cuts = [float(c) for c in cuts]
    else:
        L = draw(st.sampled_from([1.0, 2.5, 0.75, 10.0, 6.0]))
        k = draw(st.integers(0, 3))
        cuts = [L * j / 16 for j in sorted(draw(st.lists(st.integers(1, 15), min_size=k, max_size=k, unique=True)))]
    bps = [0.0] + cuts + [L]
    nint = len(bps) - 1
    n = draw(st.integers(2, 8))
    pool = gen.TIME_STYLES[draw(st.sampled_from(["small_int", "frac", "neg", "small_int"]))]
    times = [float(draw(st.sampled_from(pool))) for _ in range(n - 1)]
    times.append(max(times) + draw(st.sampled_from([1.0, 0.5, 2.0])))
    older = [[v for v in range(n) if times[v] > times[u]] for u in range(n)]
    parent = [[-1] * n for _ in range(nint)]
    for i in range(nint):
        for u in range(n - 1):
            if i > 0 and draw(st.integers(0, 2)) > 0:
                parent[i][u] = parent[i - 1][u]
            else:
                parent[i][u] = older[u][draw(st.integers(0, len(older[u]) - 1))]
    flags = [1 if draw(st.integers(0, 3)) else 0 for _ in range(n)]
    if not any(flags):
        flags[0] = 1
    edges = []
    for u in range(n - 1):
        i = 0
        while i < nint:
            p = parent[i][u]
            j = i
            while j + 1 < nint and parent[j + 1][u] == p:
                j += 1
            edges.append([bps[i], bps[j + 1], p, u, ""])
            i = j + 1
    edges.sort(key=lambda e: (times[e[2]], e[2], e[3], e[0]))
    # sites and mutations (parent computed by walking up; ancestors listed first)
    if discrete:
        cand = sorted({float(int(b)) for b in bps[:-1]} | {L - 1} | {float(q) for q in range(int(min(L, 12)))})
    else:
        cand = sorted({a for a in bps[:-1]} | {(a + b) / 2 for a, b in zip(bps[:-1], bps[1:])})
    ns = draw(st.integers(0, min(5, len(cand))))
    pos = sorted(draw(st.permutations(cand))[:ns]) if ns else []
    sites, muts = [], []
    for sid, x in enumerate(pos):
        sites.append([x, draw(st.sampled_from("ACGT")), ""])
        iv = max(i for i in range(nint) if bps[i] <= x)
        par = parent[iv]
        m = draw(st.integers(0, 3))
        mn = sorted((draw(st.integers(0, n - 1)) for _ in range(m)), key=lambda u: -times[u])
        last = {}
        for u in mn:
            pm, v = -1, u
            while v >= 0:
                if v in last:
                    pm = last[v]
                    break
                v = par[v]
            last[u] = len(muts)
            muts.append([sid, u, draw(st.sampled_from("ACGT")), pm, None, ""])
    return dict(L=L, nodes=[[flags[u], times[u], -1, -1, ""] for u in range(n)], edges=edges, sites=sites,
                mutations=muts, individuals=[], populations=[], migrations=[])


@st.composite
def text_case(draw):
    src = draw(st.sampled_from(["single_discrete", "single_discrete", "g1_discrete", "single_continuous"]))
    if src == "g1_discrete":
        spec = draw(gen.ts_spec(max_nodes=7, max_intervals=3, max_sites=4, discrete=True, migrations=False,
                                metadata=False, individuals=False, populations=False, min_samples=1,
                                alphabet=("A", "C", "G", "T")))
    else:
        spec = draw(single_root_spec(src == "single_discrete"))
    L = int(F(spec["L"])) if src != "single_continuous" else 0
    refmode = draw(st.sampled_from(["none", "arg", "embedded", "both", "arg_wrong_length"]))
    ref_arg = None
    if src != "single_continuous":
        mk = lambda k: "".join(draw(st.sampled_from("ACGTacgtN")) for _ in range(k)) if k <= 20 else (  # noqa: E731
            draw(st.sampled_from(["ACGT", "acgtTGCAN", "G"])) * k)[:k]
        if refmode in ("embedded", "both"):
            spec = dict(spec, refseq=mk(L))
        if refmode in ("arg", "both"):
            ref_arg = mk(L)
        if refmode == "arg_wrong_length":
            ref_arg = mk(L + draw(st.sampled_from([-1, 1, 3]))) if L > 1 else mk(L + 1)
    else:
        refmode = "none"
    return dict(spec=spec, src=src, refmode=refmode, ref_arg=ref_arg,
                missing=draw(st.sampled_from([None, None, "-", "?", "N", "x"])),
                wrap=draw(st.sampled_from([60, 0, 1, 7, "L", "L+5", 2])),
                precision=draw(st.sampled_from([None, None, 0, 2, 17])),
                include_trees=draw(st.sampled_from([None, True, False])),
                include_alignments=draw(st.sampled_from([None, None, True, False])))


def model_alignments(spec, ref):
    out = []
    sites = {int(F(s[0])): j for j, s in enumerate(spec["sites"])}
    pars = {j: model.parent_at(spec, F(s[0])) for j, s in enumerate(spec["sites"])}
    for u in model.samples(spec):
        a = list(ref)
        for x, j in sites.items():
            a[x] = model.allele_at(spec, j, u, pars[j])
        out.append("".join(a))
    return out


def run_text(case, ctx):
    import tskit

    spec, src = case["spec"], case["src"]
    n = len(spec["nodes"])
    smp = model.samples(spec)
    ts = gen.build_tables(spec, tskit).tree_sequence()
    bps = model.breakpoints(spec)
    discrete = src != "single_continuous"
    Lf = F(spec["L"])
    L = int(Lf)
    trees = []
    isolated = False
    single = True
    for a in bps[:-1]:
        par = model.parent_at(spec, a)
        ch = model.children_of(par)
        roots = model.roots(spec, par)
        trees.append((par, ch, roots))
        single &= len(roots) == 1
        isolated |= any(par[u] < 0 and not ch[u] for u in smp)
    ctx.label("src_" + src)
    ctx.label("isolated_sample", isolated)
    ctx.label("all_single_root", single)
    ctx.label("sites", bool(spec["sites"]))
    ctx.label("mutations", bool(spec["mutations"]))
    ctx.label("ref_" + case["refmode"])
    ctx.label("multi_tree", len(bps) > 2)
    discrete_genome = all(float(b).is_integer() for b in bps) and all(F(s[0]).is_integer() for s in spec["sites"])
    ctx.check(ts.discrete_genome == discrete_genome, "discrete_genome", f"{ts.discrete_genome}")
    ctx.label("discrete_genome", discrete_genome)
    mdc = case["missing"]
    wrong_len = case["refmode"] == "arg_wrong_length"

    def reference(default_char):
        c = default_char if mdc is None else mdc
        if case["ref_arg"] is not None:
            return case["ref_arg"]
        if spec.get("refseq") is not None:
            return spec["refseq"]
        return c * L

    # ---------------- FASTA
    wrap = case["wrap"]
    w = L if wrap == "L" else L + 5 if wrap == "L+5" else wrap
    fkw = dict(wrap_width=w)
    if case["ref_arg"] is not None:
        fkw["reference_sequence"] = case["ref_arg"]
    if mdc is not None:
        fkw["missing_data_character"] = mdc
    akw = {k: v for k, v in fkw.items() if k != "wrap_width"}
    fasta_ok = discrete_genome and not isolated and not wrong_len and L >= 1
    if fasta_ok and L > 2**22:
        fasta_ok = False  # a text of L characters per sample is not producible; only the tree names are checked
        ctx.label("fasta_skipped_huge_genome")
    exp_al = None
    if fasta_ok:
        ctx.label("fasta_compared")
        exp_al = model_alignments(spec, reference("N"))
        got_al = list(ts.alignments(**akw))
        ctx.check(got_al == exp_al, "alignments", lambda: f"{got_al} expected {exp_al}")
        text = ts.as_fasta(**fkw)
        lines = []
        for u, al in zip(smp, exp_al):
            lines.append(f">n{u}")
            ww = len(al) if w == 0 else w
            lines += [al[k:k + ww] for k in range(0, len(al), ww)]
        exp_text = "".join(l + "\n" for l in lines)
        ctx.check(text == exp_text, "fasta.text", lambda: f"{text!r} expected {exp_text!r}")
        buf = io.StringIO()
        ts.write_fasta(buf, **fkw)
        ctx.check(buf.getvalue() == exp_text, "fasta.write_fasta", "write_fasta differs from as_fasta")
        if w == 60:
            d = {k: v for k, v in fkw.items() if k != "wrap_width"}
            ctx.check(ts.as_fasta(**d) == exp_text, "fasta.default_wrap", "default wrap_width is not 60")
        for bad in (-1, 2.5):
            try:
                ts.as_fasta(wrap_width=bad)
                ctx.fail("fasta.bad_wrap_width", f"wrap_width={bad} accepted")
            except ValueError:
                pass
    elif not discrete_genome or isolated or wrong_len:
        ctx.label("fasta_error_expected")
        try:
            ts.as_fasta(**fkw)
            ctx.fail("fasta.error", f"no ValueError (discrete={discrete_genome} isolated={isolated} "
                     f"wrong_reference_length={wrong_len})")
        except ValueError:
            pass
    # ---------------- NEXUS
    nkw = {}
    for k in ("precision", "include_trees", "include_alignments"):
        if case[k] is not None:
            nkw[k] = case[k]
    nkw.update(akw)
    inc_al = case["include_alignments"]
    if inc_al is None:
        inc_al = discrete_genome and len(spec["sites"]) > 0
    inc_tr = True if case["include_trees"] is None else case["include_trees"]
    al_bad = inc_al and (not discrete_genome or isolated or wrong_len)
    tr_bad = inc_tr and not single
    if al_bad or tr_bad:
        ctx.label("nexus_error_expected")
        try:
            ts.as_nexus(**nkw)
            ctx.fail("nexus.error", f"no ValueError (alignments unsupported={al_bad}, multi-root trees={tr_bad})")
        except ValueError:
            pass
        ctx.nt(True)
        return
    ctx.label("nexus_compared")
    ctx.label("nexus_with_data", inc_al)
    ctx.label("nexus_with_trees", inc_tr)
    text = ts.as_nexus(**nkw)
    exp = ["#NEXUS", "BEGIN TAXA;", f"DIMENSIONS NTAX={len(smp)};",
           ("TAXLABELS " + " ".join(f"n{u}" for u in smp)).strip() + ";" if smp else "TAXLABELS ;", "END;"]
    if inc_al:
        c = "?" if mdc is None else mdc
        als = model_alignments(spec, reference("?"))
        exp += ["BEGIN DATA;", f"DIMENSIONS NCHAR={L};", f"FORMAT DATATYPE=DNA MISSING={c};", "MATRIX"]
        exp += [f"n{u} {al}" for u, al in zip(smp, als)]
        exp += [";", "END;"]
    pa = case["precision"]
    newicks = []
    if inc_tr:
        exp.append("BEGIN TREES;")
        posp = (0 if discrete_genome else 17) if pa is None else pa
        tp = default_precision(spec) if pa is None else pa
        for i, (par, ch, roots) in enumerate(trees):
            exp.append(("TREE", f"t{fmt(bps[i], posp)}^{fmt(bps[i + 1], posp)}", i))
        exp.append("END;")
    got = [l.strip() for l in text.split("\n")]
    ctx.check(got[-1] == "" and len(got) - 1 == len(exp), "nexus.lines",
              lambda: f"{len(got) - 1} lines expected {len(exp)}: {text!r}")
    deflab = {u: f"n{u}" for u in smp}
    for g, e in zip(got, exp):
        if isinstance(e, tuple):
            _, name, i = e
            pre = f"TREE {name} = [&R] "
            ctx.check(g.startswith(pre), "nexus.tree_line", lambda: f"{g!r} does not start with {pre!r}")
            nwk = g[len(pre):]
            par, ch, roots = trees[i]
            check_newick_string(ctx, nwk, expected_tree(spec, par, ch, roots[0], deflab, tp, True), "nexus.newick",
                                f"[tree {i}]")
            newicks.append(nwk)
        else:
            ctx.check(g == e, "nexus.line", lambda: f"{g!r} expected {e!r} in {text!r}")
    if inc_tr:
        kw = {} if pa is None else dict(precision=pa)
        ctx.check(newicks == [t.as_newick(**kw) for t in ts.trees()], "nexus.same_as_as_newick", "strings differ")
    buf = io.StringIO()
    ts.write_nexus(buf, **nkw)
    ctx.check(buf.getvalue() == text, "nexus.write_nexus", "write_nexus differs from as_nexus")
    ctx.nt(bool(spec["edges"]) and (len(bps) > 2 or bool(spec["mutations"]) or inc_al))


# ------------------------------------------------------------------ large shapes
def build_shape(shape, n, tstyle):
    """-> (flags, times, parent) for one tree on n nodes."""
    par = [-1] * n
    depth = [0] * n
    if shape == "chain":  # unary chain, node n-1 at the bottom
        for u in range(1, n):
            par[u] = u - 1
    elif shape == "star":
        for u in range(1, n):
            par[u] = 0
    elif shape == "comb":  # 0 root; odd nodes leaves, even nodes the spine
        for u in range(1, n):
            par[u] = u - 1 if u % 2 else u - 2
    else:  # balanced binary heap
        for u in range(1, n):
            par[u] = (u - 1) // 2
    for u in range(1, n):
        depth[u] = depth[par[u]] + 1
    D = max(depth) + 1
    height = [D - d for d in depth]  # root highest, strictly decreasing downwards
    if tstyle == "int":
        times = [float(h) for h in height]
    elif tstyle == "frac":
        times = [h * 0.37 for h in height]
    elif tstyle == "tiny":
        times = [h * 1e-9 for h in height]
    elif tstyle == "huge":
        times = [h * 1e296 for h in height]
    elif tstyle == "neg":
        times = [float(h - D - 1) * 1e6 for h in height]
    else:  # mixed sign
        times = [(h - D / 2) * 12345.678 for h in height]
    has_child = [False] * n
    for u in range(1, n):
        has_child[par[u]] = True
    flags = [1 if (not has_child[u] or u % 7 == 3) else 0 for u in range(n)]
    return flags, times, par


def enum_large(tier, seed):
    sizes = [1, 2, 9, 10, 11, 99, 100, 101, 999, 1000, 1001, 1500]
    if tier != "quick":
        sizes += [3000, 5000, 9999, 10000, 10001]
    for shape in ("chain", "star", "comb", "balanced"):
        for n in sizes:
            for k, tstyle in enumerate(("int", "frac", "tiny", "huge", "neg", "mixed")):
                if n > 1001 and k % 2 and shape != "star":
                    continue
                yield dict(shape=shape, n=n, tstyle=tstyle)


def shape_depth(case):
    n = case["n"]
    return {"chain": n, "star": 2, "comb": n // 2 + 1}.get(case["shape"], int(math.log2(n + 1)) + 1)


def run_large(case, ctx):
    import tskit

    n = case["n"]
    flags, times, par = build_shape(case["shape"], n, case["tstyle"])
    t = tskit.TableCollection(1.0)
    t.nodes.set_columns(flags=flags, time=times)
    order = sorted(range(1, n), key=lambda u: (times[par[u]], par[u], u))
    t.edges.set_columns(left=[0.0] * (n - 1), right=[1.0] * (n - 1), parent=[par[u] for u in order],
                        child=order)
    ts = t.tree_sequence()
    tree = ts.first()
    ch = model.children_of(par)
    smp = [u for u in range(n) if flags[u]]
    deflab = {u: f"n{u}" for u in smp}
    dp = 0 if all(float(x).is_integer() for x in times) else 17
    ctx.label("shape_" + case["shape"])
    ctx.label("times_" + case["tstyle"])
    ctx.label("n>=999", n >= 999)
    ctx.label("depth>=1000", shape_depth(case) >= 1000)
    ctx.nt(n >= 2)
    spec = None
    for pa in (None, 0, 17):
        p = dp if pa is None else pa
        kw = {} if pa is None else dict(precision=pa)
        fast = tree.as_newick(**kw)
        check_newick_string(ctx, fast, expected_tree(spec, par, ch, 0, deflab, p, True, times=times),
                            "large.fast", f"[{case} precision={pa}]")
        if pa == 17 and n > 200:
            continue
        general = tree.as_newick(node_labels=dict(deflab), **kw)
        ctx.check(fast == general, "large.fast_vs_general", lambda: f"{fast[:200]!r} vs {general[:200]!r} {case}")
        if pa is None:
            s = tree.as_newick(include_branch_lengths=False)
            check_newick_string(ctx, s, expected_tree(spec, par, ch, 0, deflab, p, False, times=times),
                                "large.no_lengths", f"[{case}]")
    # a subtree root in the middle
    r = n // 2
    fast = tree.as_newick(root=r, precision=3)
    check_newick_string(ctx, fast, expected_tree(spec, par, ch, r, deflab, 3, True, times=times), "large.subtree",
                        f"[{case} root={r}]")


# ------------------------------------------------------------------ genomes longer than 2^53 / 2^63
def enum_bigcoords(tier, seed):
    for bps in ([0, 2**63, 2**64], [0, 2**53 + 2, 2**53 + 4, 2**54], [0, 2**62, 2**63], [0, 5, 2**63 + 2**11, 2**70]):
        for precision in (None, 0, 3):
            yield dict(bps=[float(b) for b in bps], precision=precision)


def run_bigcoords(case, ctx):
    """write_nexus on a discrete genome whose breakpoints need more than 53 / 63 bits: tree names are the exact decimal
    renderings of the interval ends."""
    bps = [F(b) for b in case["bps"]]
    nodes = [[1, 0.0, -1, -1, ""], [1, 0.0, -1, -1, ""], [1, 0.0, -1, -1, ""]]
    edges = []
    for i in range(len(bps) - 1):
        p = len(nodes)
        q = p + 1
        nodes += [[0, 1.0 + i, -1, -1, ""], [0, 10.0 + i, -1, -1, ""]]
        a, b = (0, 1) if i % 2 == 0 else (1, 2)
        c = 2 if i % 2 == 0 else 0
        edges += [[bps[i], bps[i + 1], p, a, ""], [bps[i], bps[i + 1], p, b, ""], [bps[i], bps[i + 1], q, p, ""],
                  [bps[i], bps[i + 1], q, c, ""]]
    edges.sort(key=lambda e: (nodes[e[2]][1], e[2], e[3], e[0]))
    spec = dict(L=bps[-1], nodes=nodes, edges=edges, sites=[], mutations=[], individuals=[], populations=[],
                migrations=[])
    run_text(dict(spec=spec, src="single_discrete", refmode="none", ref_arg=None, missing=None, wrap=60,
                  precision=case["precision"], include_trees=True, include_alignments=False), ctx)
    ctx.nt(True)


SUBCHECKS = [
    SubCheck("C18.newick", run_newick, strategy=newick_case, quick=6000, thorough=180000,
             rule="tree sequence has >=1 edge and: a polytomy, unary node or internal sample, or a negative time, "
             "or |time| >= 1e6, or num_nodes in {1,10}",
             floors={"negative_times": 0.15, "branch_exceeds_root_time": 0.1, "times>=1e6": 0.15,
                     "default_precision_0": 0.1, "mode_dict": 0.1, "mode_empty": 0.1, "no_branch_lengths": 0.1,
                     "num_nodes>=10": 0.1, "unary": 0.2, "polytomy": 0.1, "internal_sample": 0.2,
                     "multi_root": 0.2, "some_single_root_tree": 0.2}),
    SubCheck("C18.nexus_fasta", run_text, strategy=text_case, quick=5000, thorough=150000,
             rule="the compared text covers >=2 trees, or mutations, or a DATA block; or a documented error is expected",
             floors={"fasta_compared": 0.25, "nexus_compared": 0.3, "nexus_with_data": 0.1, "nexus_with_trees": 0.2,
                     "fasta_error_expected": 0.1, "nexus_error_expected": 0.1, "mutations": 0.3,
                     "ref_embedded": 0.05, "ref_arg": 0.05}),
    SubCheck("C18.large_shapes", run_large, enumerate=enum_large, quick=1, thorough=1,
             rule="chains, stars, combs and balanced trees on {1,2,9,10,11,99,100,101,999,1000,1001,1500} nodes (thorough: "
             "also 3000,5000,9999,10000,10001) x six time scales; n>=2"),
    SubCheck("C18.big_coords", run_bigcoords, enumerate=enum_bigcoords, quick=1, thorough=1,
             rule="nexus tree names for breakpoints beyond 2^53 and 2^63"),
]
