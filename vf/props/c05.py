"""C05 — storage and interchange are lossless: dump/load (path, file object, fd, pipe, FIFO,
several objects on one stream), asdict/fromdict, pickle, copy, dump_tables, skip_* projections, and
equals/assert_equals agreement under every ignore_* option."""
import copy as _copy
import errno
import fcntl
import itertools
import os
import pathlib
import pickle
import struct

from hypothesis import strategies as st

from ..core import SubCheck
from ..gen import B
from . import _c05_spec as S

META = dict(
    level="exploration",
    rule="Collections come from G1 (valid tree sequences by construction, vf/gen.py, plus provenance, "
    "schema text, top-level metadata, time units, reference-sequence subsets, index built or absent) and "
    "from G3 (vf/props/_c05_spec.py: arbitrary rows in all eight tables - any int32/uint32, any double "
    "bit pattern incl. NaN payloads/unknown time/-0.0, ragged columns with empty rows and embedded NULs, "
    "non-UTF-8 allele and provenance bytes, non-ASCII / non-JSON / non-canonical schema text, explicit "
    "arbitrary index arrays, extreme sequence lengths). Each is built by one of four builders (add_row, "
    "set_columns, fromdict with 32- or 64-bit offsets). ORACLE: the image of asdict(force_offset_64=True) "
    "computed from the spec rows alone (dtype + bytes of every column, schema/metadata/time-units/"
    "reference-sequence strings, index arrays), which every derived object (loaded through any channel, "
    "fromdict, pickle, deepcopy, copy, dump_tables, ts.tables) must reproduce exactly, also through the "
    "per-column getters; file_uuid is the only permitted difference. Streams: k<=5 objects (tables and "
    "tree sequences mixed) dumped back-to-back after an optional junk prefix, tell() after every dump and "
    "load must agree and equal the stand-alone size, then EOFError (twice), or FileFormatError when a "
    "truncated object trails. equals: pairs built from a spec and an edited spec; the set of differing "
    "aspects is computed from the two spec images and equals() must be True iff every differing aspect "
    "is covered by the documented meaning of the switched-on ignore_* options, for all 64 combinations; "
    "assert_equals raises AssertionError iff equals is False; per-table and provenance likewise.",
    assumptions=[
        "spec -> column image (vf/props/_c05_spec.py columns/expected_image) is the trusted oracle",
        "the index of a collection built with build_index() is taken from tskit (index content is C01/C02)",
        "stream position after a load with skip_tables/skip_reference_sequence is not asserted "
        "(documented as unsupported for consecutive loads)",
        "per-table copy/pickle only for tables whose schema text is canonical (the Python API re-encodes "
        "the schema through MetadataSchema)",
        "assert_equals is only exercised on collections whose metadata decodes under its schema and "
        "whose text columns are UTF-8 (it decodes rows to build its message)",
        "sizes: <=3 rows per table (G3), <=6 nodes (G1), <=5 objects per stream; pipe capacity 1 MiB",
    ],
    technique="property-based testing (Hypothesis) incl. operation histories on one stream",
    engines=["hypothesis-runner"],
)

UNKNOWN = struct.unpack("<d", bytes.fromhex(S.UNKNOWN_BITS))[0]
F_SETPIPE_SZ = 1031
PIPE_CAP = 1 << 20


# ------------------------------------------------------------------ scratch files
def scratch(name):
    d = os.environ["VF_SCRATCH"]
    os.makedirs(d, exist_ok=True)
    return os.path.join(d, name)


def rm(*paths):
    for p in paths:
        try:
            os.unlink(p)
        except FileNotFoundError:
            pass


# ------------------------------------------------------------------ the oracle for one object
def check_tc(ctx, tskit, tc, E, what, loaded=None):
    """`tc` (a TableCollection) holds exactly the image E."""
    import numpy as np

    ctx.check(type(tc) is tskit.TableCollection, what, f"type {type(tc)}")
    got = S.image(tc.asdict(force_offset_64=True))
    d = S.image_diff(got, E)
    ctx.check(d is None, what + ".asdict64", d)
    d = S.image_diff(S.image(tc.asdict()), S.to_offsets32(E))
    ctx.check(d is None, what + ".asdict32", d)
    # attribute level (independent of the dict writer)
    ctx.check(struct.pack("<d", tc.sequence_length) == E["sequence_length"][1], what, "sequence_length")
    ctx.check(tc.time_units == E["time_units"][1], what, f"time_units {tc.time_units!r}")
    ctx.check(tc.metadata_bytes == E.get("metadata", (0, b""))[1], what, "top-level metadata bytes")
    ctx.check(tc._ll_tables.metadata_schema == E.get("metadata_schema", (0, ""))[1], what,
              "top-level metadata schema")
    ix = tc.indexes
    if E["indexes"]:
        ctx.check(tc.has_index(), what, "has_index() is False")
        for k in ("edge_insertion_order", "edge_removal_order"):
            a = getattr(ix, k)
            ctx.check(a is not None and ("nd", a.dtype.str, a.tobytes()) == E["indexes"][k], what,
                      lambda: f"indexes.{k} = {a}")
    else:
        ctx.check(not tc.has_index(), what, "has_index() is True but no index expected")
        ctx.check(ix.edge_insertion_order is None and ix.edge_removal_order is None, what, "indexes not None")
    er = E.get("reference_sequence")
    ctx.check(tc.has_reference_sequence() == (er is not None), what, "has_reference_sequence")
    rs = tc.reference_sequence
    er = er or {}
    ctx.check(rs.data == er.get("data", (0, ""))[1], what, f"reference_sequence.data {rs.data!r}")
    ctx.check(rs.url == er.get("url", (0, ""))[1], what, f"reference_sequence.url {rs.url!r}")
    ctx.check(rs.metadata_bytes == er.get("metadata", (0, b""))[1], what, "reference_sequence.metadata")
    ctx.check(rs._ll_object.metadata_schema == er.get("metadata_schema", (0, ""))[1], what,
              "reference_sequence.metadata_schema")
    for name in S.TABLES:
        table = getattr(tc, name)
        et = E[name]
        nrows = len(np.frombuffer(et[[k for k in et if k.endswith("_offset")][0]][2], dtype="<u8")) - 1
        ctx.check(table.num_rows == nrows and len(table) == nrows, what, f"{name}.num_rows {table.num_rows}")
        for col in table.column_names:
            a = getattr(table, col)
            e = et[col]
            if col.endswith("_offset"):
                ok = a.astype("<u8").tobytes() == e[2]
            else:
                ok = (a.dtype.str, a.tobytes()) == (e[1], e[2])
            ctx.check(ok, what, lambda: f"{name}.{col} getter: {a!r} ({a.dtype}) expected {S._show(e)}")
        if name != "provenances":
            ctx.check(table.ll_table.metadata_schema == et.get("metadata_schema", (0, ""))[1], what,
                      f"{name}.metadata_schema")
    if loaded is True:
        u = tc.file_uuid
        ctx.check(isinstance(u, str) and len(u) == 36, what, f"file_uuid of a loaded collection: {u!r}")
    elif loaded is False:
        ctx.check(tc.file_uuid is None, what, f"file_uuid {tc.file_uuid!r} on an object never loaded")


def check_obj(ctx, tskit, obj, E, what, loaded=None):
    """TableCollection or TreeSequence."""
    if isinstance(obj, tskit.TreeSequence):
        if loaded:
            u = obj.file_uuid
            ctx.check(isinstance(u, str) and len(u) == 36, what, f"ts.file_uuid {u!r}")
        ctx.check(struct.pack("<d", obj.sequence_length) == E["sequence_length"][1], what, "ts.sequence_length")
        ctx.check(obj.time_units == E["time_units"][1], what, "ts.time_units")
        ctx.check(obj.has_reference_sequence() == ("reference_sequence" in E), what,
                  "ts.has_reference_sequence")
        check_tc(ctx, tskit, obj.dump_tables(), E, what + ".dump_tables")
    else:
        check_tc(ctx, tskit, obj, E, what, loaded=loaded)


def prepare(ctx, tskit, spec, builder, kind):
    """Builds the collection (and the tree sequence for kind='ts'); returns (object to dump,
    tables, image E of the object, built-index-or-None)."""
    t = S.build(spec, tskit, builder)
    ix = S.explicit_index(spec)
    if spec.get("index") == "build":
        i = t.indexes
        ix = (i.edge_insertion_order, i.edge_removal_order)
    E = S.expected_image(spec, ix)
    check_tc(ctx, tskit, t, E, f"build[{builder}]", loaded=False)
    if kind == "ts":
        ts = t.tree_sequence()  # builds the index in place when absent
        i = t.indexes
        E = S.expected_image(spec, (i.edge_insertion_order, i.edge_removal_order))
        return ts, t, E
    return t, t, E


def labels_for(ctx, spec):
    labs = S.spec_labels(spec)
    for l in labs:
        ctx.label(l)
    return labs


# ------------------------------------------------------------------ sub-check 1: round trips
FILE_CH = ["path", "pathlib", "fobj", "fobj0", "fd"]
DUMP_CH = FILE_CH + ["fobj_rw", "pipe_fd", "pipe_fobj", "fifo"]


@st.composite
def spec_any(draw, g1_kw=None, g3_kw=None, p_g1=2):
    if draw(st.integers(0, 3)) < p_g1:
        return draw(S.g1_spec(**(g1_kw or {})))
    return draw(S.g3_spec(**(g3_kw or {})))


@st.composite
def roundtrip_case(draw):
    spec = draw(spec_any())
    kind = "tc"
    if spec["valid"]:
        kind = draw(st.sampled_from(["tc", "ts", "ts"]))
    return dict(
        spec=spec, kind=kind,
        builder=draw(st.sampled_from(["rows", "columns", "dict32", "dict64"])),
        dump=draw(st.sampled_from(DUMP_CH)), load=draw(st.sampled_from(FILE_CH)),
        loader_ts=draw(st.booleans()), protocol=draw(st.integers(0, 5)),
        skip=draw(st.sampled_from([[True, False], [False, True], [True, True]])),
        skip_ts=draw(st.booleans()),
    )


def make_pipe():
    r, w = os.pipe()
    got = fcntl.fcntl(w, F_SETPIPE_SZ, PIPE_CAP)
    if got < PIPE_CAP:
        raise RuntimeError(f"pipe capacity {got}")
    return r, w


def make_fifo(path):
    rm(path)
    os.mkfifo(path)
    r = os.open(path, os.O_RDONLY | os.O_NONBLOCK)
    fcntl.fcntl(r, F_SETPIPE_SZ, PIPE_CAP)
    fcntl.fcntl(r, fcntl.F_SETFL, fcntl.fcntl(r, fcntl.F_GETFL) & ~os.O_NONBLOCK)
    return r


def loader_fn(tskit, use_ts):
    return tskit.load if use_ts else tskit.TableCollection.load


def expect_eof(ctx, fn, src, what):
    try:
        r = fn(src)
    except EOFError:
        return
    ctx.fail(what, f"load at end of stream returned {type(r).__name__} instead of raising EOFError")


def run_roundtrip(case, ctx):
    import numpy as np
    import tskit

    spec, kind = case["spec"], case["kind"]
    labs = labels_for(ctx, spec)
    ctx.nt(S.nontrivial(labs))
    ctx.label("kind_" + kind)
    ctx.label("builder_" + case["builder"])
    obj, t, E = prepare(ctx, tskit, spec, case["builder"], kind)
    has_index = bool(E["indexes"])

    # ---- in-memory interchange
    d = t.asdict()
    check_tc(ctx, tskit, tskit.TableCollection.fromdict(d), E, "fromdict(asdict())", loaded=False)
    d64 = t.asdict(force_offset_64=True)
    check_tc(ctx, tskit, tskit.TableCollection.fromdict(d64), E, "fromdict(asdict(force_offset_64))",
             loaded=False)
    c = t.copy()
    check_tc(ctx, tskit, c, E, "copy()", loaded=False)
    ctx.check(c.equals(t) and t.equals(c) and c == t, "copy()", "copy does not compare equal")
    c.assert_equals(t)
    p = pickle.loads(pickle.dumps(t, protocol=case["protocol"]))
    check_tc(ctx, tskit, p, E, f"pickle(protocol={case['protocol']})", loaded=False)
    check_tc(ctx, tskit, _copy.deepcopy(t), E, "deepcopy", loaded=False)
    # deep: clearing the copies leaves the original alone
    c.clear(clear_provenance=True, clear_metadata_schemas=True, clear_ts_metadata_and_schema=True)
    p.nodes.clear()
    p.time_units = "zz"
    check_tc(ctx, tskit, t, E, "original after modifying its copies", loaded=False)
    # individual tables (python API re-encodes the schema: canonical schema text only)
    for name in S.TABLES:
        s = spec.get("schemas", {}).get(name, "")
        if s and s not in S.CANON_SCHEMAS:
            continue
        table = getattr(t, name)
        for how, t2 in (("copy", table.copy()),
                        ("pickle", pickle.loads(pickle.dumps(table, protocol=case["protocol"])))):
            W = f"{name}.{how}"
            ctx.check(type(t2) is type(table), W, "type")
            for col in table.column_names:
                a, b = getattr(table, col), getattr(t2, col)
                ctx.check((a.dtype.str, a.tobytes()) == (b.dtype.str, b.tobytes()), W, f"column {col}")
            if name != "provenances":
                ctx.check(t2.ll_table.metadata_schema == s, W, "metadata_schema")
            ctx.check(t2.equals(table) and table.equals(t2), W, "not equal to the original")
            t2.assert_equals(table)
    if kind == "ts":
        ts = obj
        check_obj(ctx, tskit, ts, E, "tree_sequence()")
        check_tc(ctx, tskit, ts.tables, E, "ts.tables")
        ts2 = pickle.loads(pickle.dumps(ts, protocol=case["protocol"]))
        ctx.check(type(ts2) is tskit.TreeSequence, "pickle(ts)", "type")
        check_obj(ctx, tskit, ts2, E, "pickle(ts)")
        ctx.check(ts2.equals(ts) and ts2 == ts, "pickle(ts)", "not equal")

    # ---- one object through a channel
    path = scratch("rt.trees")
    fifo = scratch("rt.fifo")
    dch, lch = case["dump"], case["load"]
    ctx.label("dump_" + dch)
    use_ts = case["loader_ts"] and spec["valid"] and has_index
    ctx.label("loader_ts" if use_ts else "loader_tc")
    load = loader_fn(tskit, use_ts)
    try:
        if dch in ("pipe_fd", "pipe_fobj", "fifo"):
            if dch == "fifo":
                r = make_fifo(fifo)
                ctx.check(obj.dump(fifo) is None, "dump", "return value")
                w = None
            else:
                r, w = make_pipe()
                if dch == "pipe_fd":
                    obj.dump(w)
                else:
                    with os.fdopen(w, "wb", closefd=False) as f:
                        obj.dump(f)
                os.close(w)
            try:
                if dch == "pipe_fobj" or lch in ("fobj", "fobj0"):
                    with os.fdopen(r, "rb", closefd=False) as f:
                        got = load(f)
                        check_obj(ctx, tskit, got, E, f"load[{dch}/fobj]", loaded=True)
                        expect_eof(ctx, load, f, "eof[pipe]")
                else:
                    got = load(r)
                    check_obj(ctx, tskit, got, E, f"load[{dch}/fd]", loaded=True)
                    expect_eof(ctx, load, r, "eof[pipe]")
                    expect_eof(ctx, tskit.TableCollection.load, r, "eof[pipe] again")
            finally:
                os.close(r)
            # a file for the projections below
            obj.dump(path)
        else:
            ctx.label("load_" + lch)
            if dch == "path":
                obj.dump(path)
            elif dch == "pathlib":
                obj.dump(pathlib.Path(path))
            elif dch == "fobj":
                with open(path, "wb") as f:
                    obj.dump(f)
                    size_told = f.tell()
                ctx.check(size_told == os.path.getsize(path), "dump[fobj]", "tell() after dump != file size")
            elif dch == "fobj0":
                with open(path, "wb", buffering=0) as f:
                    obj.dump(f)
            elif dch == "fd":
                fd = os.open(path, os.O_WRONLY | os.O_CREAT | os.O_TRUNC, 0o600)
                try:
                    obj.dump(fd)
                    ctx.check(os.lseek(fd, 0, os.SEEK_CUR) == os.path.getsize(path), "dump[fd]",
                              "fd offset after dump != file size")
                finally:
                    os.close(fd)
            elif dch == "fobj_rw":
                with open(path, "w+b") as f:
                    obj.dump(f)
                    f.seek(0)
                    got = load(f)
                    check_obj(ctx, tskit, got, E, "load[fobj_rw]", loaded=True)
                    ctx.check(f.tell() == os.path.getsize(path), "load[fobj_rw]", "tell() != size")
                    expect_eof(ctx, load, f, "eof[fobj_rw]")
            size = os.path.getsize(path)
            W = f"load[{dch}->{lch}]"
            if lch == "path":
                got = load(path)
            elif lch == "pathlib":
                got = load(pathlib.Path(path))
            elif lch in ("fobj", "fobj0"):
                with open(path, "rb", **({"buffering": 0} if lch == "fobj0" else {})) as f:
                    got = load(f)
                    ctx.check(f.tell() == size, W, f"consumed {f.tell()} of {size} bytes")
                    expect_eof(ctx, load, f, "eof[" + lch + "]")
                    ctx.check(f.tell() == size, W, "position moved by the EOF load")
            else:
                fd = os.open(path, os.O_RDONLY)
                try:
                    got = load(fd)
                    ctx.check(os.lseek(fd, 0, os.SEEK_CUR) == size, W, "fd offset after load != size")
                    expect_eof(ctx, load, fd, "eof[fd]")
                finally:
                    os.close(fd)
            check_obj(ctx, tskit, got, E, W, loaded=True)
        # ---- the other loader on the same file
        if spec["valid"] and has_index:
            check_obj(ctx, tskit, tskit.load(path), E, "tskit.load(path)", loaded=True)
        check_obj(ctx, tskit, tskit.TableCollection.load(path), E, "TableCollection.load(path)", loaded=True)
        # ---- projections
        sk_t, sk_r = case["skip"]
        Es = S.expected_image(spec, None, skip_tables=sk_t, skip_refseq=sk_r)
        if not sk_t:
            Es["indexes"] = E["indexes"]
        ctx.label("skip_tables", sk_t)
        ctx.label("skip_refseq", sk_r)
        got = tskit.TableCollection.load(path, skip_tables=sk_t, skip_reference_sequence=sk_r)
        check_tc(ctx, tskit, got, Es, f"TableCollection.load(skip_tables={sk_t},skip_refseq={sk_r})",
                 loaded=True)
        if case["skip_ts"] and (sk_t or (spec["valid"] and has_index)):
            got = tskit.load(path, skip_tables=sk_t, skip_reference_sequence=sk_r)
            check_obj(ctx, tskit, got, Es, f"tskit.load(skip_tables={sk_t},skip_refseq={sk_r})", loaded=True)
    finally:
        rm(path, fifo)
    # ---- history: an index built earlier is stale once the edge table changes; dump must not write it
    if t.has_index():
        ctx.label("stale_index_history")
        for how in ("add", "truncate"):
            t2 = t.copy()
            # low-level row operations: the Python wrappers would re-parse (possibly non-JSON) schema text
            if how == "add":
                t2.edges.ll_table.add_row(0.0, 1.0, 0, 0)
            elif t2.edges.num_rows > 0:
                t2.edges.ll_table.truncate(t2.edges.num_rows - 1)
            else:
                continue
            ctx.check(not t2.has_index(), "stale_index", f"has_index() still True after edges.{how}")
            p2 = scratch("stale.trees")
            try:
                t2.dump(p2)
                back = tskit.TableCollection.load(p2)
            finally:
                rm(p2)
            ctx.check(not back.has_index(), "stale_index", f"a stale index was written to the file (after edges.{how})")
            ctx.check(back.equals(t2) and back.edges.num_rows == t2.edges.num_rows, "stale_index",
                      f"collection modified after build_index (edges.{how}) does not reload equal")


# ------------------------------------------------------------------ sub-check 2: streams
STREAM_CH = ["fobj", "fobj0", "fobj_rw", "fd", "pipe_fd", "pipe_fobj", "fifo"]


@st.composite
def stream_case(draw):
    k = draw(st.sampled_from([1, 2, 2, 3, 3, 4, 5]))
    objs = []
    for _ in range(k):
        spec = draw(spec_any(g1_kw=dict(max_nodes=5, max_sites=2), g3_kw=dict(max_rows=2)))
        kind = draw(st.sampled_from(["tc", "ts"])) if spec["valid"] else "tc"
        objs.append(dict(spec=spec, kind=kind, loader_ts=draw(st.booleans()),
                         builder=draw(st.sampled_from(["rows", "columns", "dict32"]))))
    ch = draw(st.sampled_from(STREAM_CH))
    return dict(
        objs=objs, channel=ch,
        junk=draw(st.sampled_from([0, 0, 1, 3, 7, 8, 17])),
        tail=draw(st.sampled_from([None, None, None, 1, 7, 8, 63, 64, 65, 200, -1])),
        interleave=draw(st.booleans()) if ch.startswith("pipe") or ch == "fifo" else False,
    )


def run_stream(case, ctx):
    import tskit

    objs = case["objs"]
    ch = case["channel"]
    k = len(objs)
    ctx.label(f"objects_{min(k, 3)}{'+' if k >= 3 else ''}")
    ctx.label("channel_" + ch)
    ctx.nt(k >= 2)
    path = scratch("st.trees")
    one = scratch("st.one")
    fifo = scratch("st.fifo")
    prepared = []
    any_labs = set()
    for i, o in enumerate(objs):
        any_labs |= S.spec_labels(o["spec"])
        obj, t, E = prepare(ctx, tskit, o["spec"], o["builder"], o["kind"])
        obj.dump(one)
        size = os.path.getsize(one)
        use_ts = o["loader_ts"] and o["spec"]["valid"] and bool(E["indexes"])
        prepared.append((obj, E, size, use_ts))
    for l in any_labs:
        ctx.label(l)
    ctx.label("mixed_kinds", len({o["kind"] for o in objs}) > 1)
    ctx.label("has_ts_loader", any(p[3] for p in prepared))
    junk = b"\xde\xad\xbe\xef" * 5
    junk = junk[: case["junk"]]
    tail = b""
    if case["tail"] is not None:
        with open(one, "rb") as f:
            data = f.read()
        m = case["tail"]
        m = len(data) - 1 if m < 0 else min(m, len(data) - 1)
        tail = data[:m]
        ctx.label("truncated_tail")
    ctx.label("junk_prefix", bool(junk))
    total = len(junk) + len(tail) + sum(p[2] for p in prepared)
    if total > PIPE_CAP - 8192:
        raise RuntimeError("stream too large for the pipe")

    def verify(i, got, where):
        check_obj(ctx, tskit, got, prepared[i][1], f"stream object {i}/{k} via {where}", loaded=True)

    def skip_reads(src, seek, offsets, where):
        """History on one open seekable stream: after the objects were read in order, each stored object is read
        again from its own offset through the lazy (skip_*) read paths; only the content is asserted, not the
        stream position afterwards."""
        for i in range(k - 1, -1, -1):
            sk_t, sk_r = [(True, False), (False, True), (True, True)][(i + k) % 3]
            Es = S.expected_image(objs[i]["spec"], None, skip_tables=sk_t, skip_refseq=sk_r)
            if not sk_t:
                Es["indexes"] = prepared[i][1]["indexes"]
            seek(offsets[i])
            got = tskit.TableCollection.load(src, skip_tables=sk_t, skip_reference_sequence=sk_r)
            check_tc(ctx, tskit, got, Es, f"stream object {i}/{k} via {where} skip_tables={sk_t} skip_refseq={sk_r}",
                     loaded=True)
        ctx.label("skip_reads_on_stream", k >= 2)

    seekable = ch in ("fobj", "fobj0", "fobj_rw", "fd")

    def end_of_stream(src, what):
        if tail:
            try:
                r = tskit.TableCollection.load(src)
            except tskit.FileFormatError:
                return
            except OSError as e:
                # observation (reported, not part of this property): on a non-seekable stream read
                # through a raw fd the format sniffer of util.raise_known_file_format_errors seeks
                # and the FileFormatError is replaced by OSError(ESPIPE).  Still distinct from EOF.
                if e.errno == errno.ESPIPE and not seekable:
                    ctx.label("espipe_masks_fileformaterror")
                    return
                raise
            except EOFError:
                ctx.fail(what, f"EOFError for a stream ending in a truncated object ({len(tail)} bytes)")
            ctx.fail(what, f"truncated object of {len(tail)} bytes loaded as {type(r).__name__}")
        else:
            expect_eof(ctx, tskit.TableCollection.load, src, what)
            expect_eof(ctx, tskit.load, src, what + " (second attempt)")

    try:
        if ch in ("fobj", "fobj0", "fobj_rw", "fd"):
            offsets = []
            if ch == "fd":
                fd = os.open(path, os.O_RDWR | os.O_CREAT | os.O_TRUNC, 0o600)
                try:
                    os.write(fd, junk)
                    offsets.append(os.lseek(fd, 0, os.SEEK_CUR))
                    for obj, E, size, _ in prepared:
                        obj.dump(fd)
                        offsets.append(os.lseek(fd, 0, os.SEEK_CUR))
                    os.write(fd, tail)
                    check_offsets(ctx, offsets, prepared, junk)
                    os.lseek(fd, len(junk), os.SEEK_SET)
                    for i, (obj, E, size, use_ts) in enumerate(prepared):
                        got = loader_fn(tskit, use_ts)(fd)
                        pos = os.lseek(fd, 0, os.SEEK_CUR)
                        ctx.check(pos == offsets[i + 1], "consumption[fd]",
                                  f"after loading object {i}: offset {pos} expected {offsets[i + 1]}")
                        verify(i, got, "fd")
                    end_of_stream(fd, "end[fd]")
                    skip_reads(fd, lambda o: os.lseek(fd, o, os.SEEK_SET), offsets, "fd")
                finally:
                    os.close(fd)
            else:
                kw = {"buffering": 0} if ch == "fobj0" else {}
                f = open(path, "w+b" if ch == "fobj_rw" else "wb", **kw)
                try:
                    f.write(junk)
                    f.flush()
                    offsets.append(f.tell())
                    for obj, E, size, _ in prepared:
                        obj.dump(f)
                        offsets.append(f.tell())
                    f.write(tail)
                    f.flush()
                    check_offsets(ctx, offsets, prepared, junk)
                    if ch != "fobj_rw":
                        f.close()
                        f = open(path, "rb", **kw)
                    f.seek(len(junk))
                    for i, (obj, E, size, use_ts) in enumerate(prepared):
                        got = loader_fn(tskit, use_ts)(f)
                        ctx.check(f.tell() == offsets[i + 1], f"consumption[{ch}]",
                                  f"after loading object {i}: tell() {f.tell()} expected {offsets[i + 1]}")
                        verify(i, got, ch)
                    end_of_stream(f, f"end[{ch}]")
                    # (a fresh file object: after a failed load BufferedReader.seek() may move only its own
                    # pointer, while the loader reads through the descriptor)
                    with open(path, "rb", **kw) as g:
                        skip_reads(g, g.seek, offsets, ch)
                finally:
                    f.close()
        else:
            if ch == "fifo":
                r = make_fifo(fifo)
                w = None
            else:
                r, w = make_pipe()
            rf = os.fdopen(r, "rb", closefd=False) if ch == "pipe_fobj" else None
            wf = os.fdopen(w, "wb", closefd=False) if ch == "pipe_fobj" else None
            src = rf if rf is not None else r
            inter = case["interleave"]
            ctx.label("interleaved", inter)

            def put(obj):
                if ch == "fifo":
                    obj.dump(fifo)
                elif ch == "pipe_fobj":
                    obj.dump(wf)
                else:
                    obj.dump(w)

            def raw_put(data):
                if not data:
                    return
                if ch == "fifo":
                    with open(fifo, "wb") as g:
                        g.write(data)
                else:
                    os.write(w, data)

            def close_w():
                if wf is not None:
                    wf.close()
                if w is not None:
                    os.close(w)

            w_open = True
            try:
                raw_put(junk)
                if junk:
                    ctx.check(os.read(r, len(junk)) == junk, "harness", "junk prefix")
                if inter:
                    # everything a load needs is already in the pipe: a non-blocking read end
                    # turns an over-read into an error instead of a hang
                    fl = fcntl.fcntl(r, fcntl.F_GETFL)
                    fcntl.fcntl(r, fcntl.F_SETFL, fl | os.O_NONBLOCK)
                    for i, (obj, E, size, use_ts) in enumerate(prepared):
                        put(obj)
                        verify(i, loader_fn(tskit, use_ts)(src), ch + " interleaved")
                    fcntl.fcntl(r, fcntl.F_SETFL, fl)
                    raw_put(tail)
                    close_w()
                    w_open = False
                else:
                    for obj, E, size, _ in prepared:
                        put(obj)
                    raw_put(tail)
                    close_w()
                    w_open = False
                    for i, (obj, E, size, use_ts) in enumerate(prepared):
                        verify(i, loader_fn(tskit, use_ts)(src), ch)
                end_of_stream(src, f"end[{ch}]")
            finally:
                if w_open:
                    close_w()
                if rf is not None:
                    rf.close()
                os.close(r)
    finally:
        rm(path, one, fifo)


def check_offsets(ctx, offsets, prepared, junk):
    ctx.check(offsets[0] == len(junk), "harness", "junk offset")
    for i, (obj, E, size, _) in enumerate(prepared):
        ctx.check(offsets[i + 1] - offsets[i] == size, "dump size on a stream",
                  f"object {i} advanced the stream by {offsets[i + 1] - offsets[i]} bytes; "
                  f"its stand-alone file has {size}")


# ------------------------------------------------------------------ sub-check 3: equals / assert_equals
OPTS = ["ignore_metadata", "ignore_ts_metadata", "ignore_provenance", "ignore_timestamps",
        "ignore_tables", "ignore_reference_sequence"]
ROW_TYPES = dict(
    individuals=["u32", "ldbl", "li32", "md"],
    nodes=["u32", "dbl", "i32", "i32", "md"],
    edges=["dbl", "dbl", "i32", "i32", "md"],
    migrations=["dbl", "dbl", "i32", "i32", "i32", "dbl", "md"],
    sites=["dbl", "text", "md"],
    mutations=["i32", "i32", "text", "i32", "mtime", "md"],
    populations=["md"],
    provenances=["text", "text"],
)


@st.composite
def edit_strategy(draw):
    kind = draw(st.sampled_from(
        ["cell", "cell", "cell", "md_lastbyte", "md_lastbyte", "append", "delete", "schema", "ts_schema",
         "ts_metadata", "time_units", "time_units", "L", "L", "refseq", "refseq", "refseq", "prov_cell",
         "prov_cell", "none"]))
    e = dict(kind=kind, table=draw(st.sampled_from(S.TABLES)), row=draw(st.integers(0, 7)),
             col=draw(st.integers(0, 7)))
    e["vals"] = dict(
        i32=draw(S.I32), u32=draw(S.U32), dbl=draw(S.DBL), mtime=draw(st.one_of(st.none(), S.DBL)),
        ldbl=draw(st.lists(S.DBL, max_size=2)), li32=draw(st.lists(S.I32, max_size=2)),
        text=draw(S._utf8_text()), raw_md=draw(S._bytes(S.RAW_MD)), json_md=draw(st.sampled_from(S.JSON_MD)),
        schema=draw(st.sampled_from([""] + S.CANON_SCHEMAS)),
        unicode=draw(st.sampled_from(S.UNICODE_TEXT)), L=draw(st.sampled_from(S.L_POOL)),
        field=draw(st.sampled_from(["data", "url", "metadata", "schema"])),
        refdata=draw(st.sampled_from(["", "ACGT", "ACGA", "é"])),
    )
    return e


def apply_edit(spec, e):
    """Returns an edited deep copy of the spec (possibly identical: the oracle works on the
    difference of the images, not on the intention of the edit)."""
    s = _copy.deepcopy(spec)
    v = e["vals"]
    kind = e["kind"]
    name = e["table"]

    def md_for(table_name):
        return v["json_md"] if s.get("schemas", {}).get(table_name) else v["raw_md"]

    def new_value(table_name, typ):
        if typ == "md":
            return md_for(table_name)
        return v[typ]

    if kind == "prov_cell":
        name, kind = "provenances", "cell"
    rows = s.get(name, [])
    types = ROW_TYPES[name]
    if kind == "cell":
        if not rows:
            kind = "append"
        else:
            r = rows[e["row"] % len(rows)]
            j = e["col"] % len(types)
            r[j] = new_value(name, types[j])
    if kind == "md_lastbyte":
        if name == "provenances" or s.get("schemas", {}).get(name):
            name = "nodes" if not s.get("schemas", {}).get("nodes") else "edges"
            rows = s.get(name, [])
            types = ROW_TYPES[name]
        j = types.index("md")
        # only the last row can carry the last byte of the column
        if not s.get("schemas", {}).get(name) and rows and rows[-1][j]:
            last = rows[-1][j][-1]
            rows[-1][j] = rows[-1][j][:-1] + ("\x01" if last != "\x01" else "\x02")
    if kind == "append":
        s.setdefault(name, []).append([new_value(name, t) for t in types])
    elif kind == "delete":
        if rows:
            rows.pop(e["row"] % len(rows))
    elif kind == "schema":
        if name != "provenances":
            # keep metadata decodable: a schema is only put on a table whose metadata is JSON
            j = types.index("md")
            if v["schema"] == "" or all(r[j] in S.JSON_MD for r in rows):
                sch = dict(s.get("schemas", {}))
                if v["schema"]:
                    sch[name] = v["schema"]
                else:
                    sch.pop(name, None)
                s["schemas"] = sch
    elif kind == "ts_schema":
        if v["schema"] == "" or s.get("metadata", "") in S.JSON_MD:
            s["ts_schema"] = v["schema"]
    elif kind == "ts_metadata":
        s["metadata"] = v["json_md"] if s.get("ts_schema") else v["raw_md"]
    elif kind == "time_units":
        s["time_units"] = v["unicode"]
    elif kind == "L":
        s["L"] = v["L"]
    elif kind == "refseq":
        r = dict(s.get("refseq") or dict(data="", url="", metadata="", schema=""))
        f = v["field"]
        if f == "data":
            r["data"] = v["refdata"]
        elif f == "url":
            r["url"] = v["unicode"]
        elif f == "metadata":
            r["metadata"] = v["json_md"] if r.get("schema") else v["raw_md"]
        elif v["schema"] == "" or r.get("metadata", "") in S.JSON_MD:
            r["schema"] = v["schema"]
        s["refseq"] = r
    if isinstance(s.get("index"), list):
        ne = len(s["edges"])
        s["index"] = [(s["index"][0] + [0] * ne)[:ne], (s["index"][1] + [0] * ne)[:ne]]
    return s


def diff_aspects(E1, E2):
    import numpy as np

    A = set()
    if E1["sequence_length"] != E2["sequence_length"]:
        A.add("L")
    if E1["time_units"] != E2["time_units"]:
        A.add("time_units")
    if E1.get("metadata") != E2.get("metadata") or E1.get("metadata_schema") != E2.get("metadata_schema"):
        A.add("ts_md")

    def nrows(et, key):
        return len(et[key][2]) // 8 - 1

    mdk = {"metadata", "metadata_offset", "metadata_schema"}
    for name in S.MD_TABLES:
        a, b = E1[name], E2[name]
        if any(a.get(k) != b.get(k) for k in mdk):
            A.add(("tbl_md", name))
        if any(a.get(k) != b.get(k) for k in (set(a) | set(b)) - mdk) or \
                nrows(a, "metadata_offset") != nrows(b, "metadata_offset"):
            A.add(("tbl", name))
    a, b = E1["provenances"], E2["provenances"]
    if a["record"] != b["record"] or a["record_offset"] != b["record_offset"]:
        A.add("prov")
    if a["timestamp"] != b["timestamp"] or a["timestamp_offset"] != b["timestamp_offset"]:
        A.add("prov_ts")
    r1, r2 = E1.get("reference_sequence", {}), E2.get("reference_sequence", {})
    nul = ("str", "")
    if r1.get("data", nul) != r2.get("data", nul) or r1.get("url", nul) != r2.get("url", nul):
        A.add("ref")
    if r1.get("metadata") != r2.get("metadata") or r1.get("metadata_schema") != r2.get("metadata_schema"):
        A.add("ref_md")
    return A


def covered(aspect, o):
    """The documented meaning of the options (TableCollection.equals docstring)."""
    if aspect in ("L", "time_units"):
        return False
    if aspect == "ts_md":
        return o["ignore_metadata"] or o["ignore_ts_metadata"]
    if aspect == "prov":
        return o["ignore_tables"] or o["ignore_provenance"]
    if aspect == "prov_ts":
        return o["ignore_tables"] or o["ignore_provenance"] or o["ignore_timestamps"]
    if aspect == "ref":
        return o["ignore_reference_sequence"]
    if aspect == "ref_md":
        return o["ignore_reference_sequence"] or o["ignore_metadata"]
    if aspect[0] == "tbl":
        return o["ignore_tables"]
    if aspect[0] == "tbl_md":
        return o["ignore_tables"] or o["ignore_metadata"]
    raise AssertionError(aspect)


@st.composite
def equals_case(draw):
    kw = dict(schema_mode="canon", conform=True, text_safe=True)
    spec = draw(spec_any(g1_kw=kw, g3_kw=kw, p_g1=1))
    edits = draw(st.lists(edit_strategy(), min_size=1, max_size=2))
    return dict(spec=spec, edits=edits, builder=draw(st.sampled_from(["rows", "columns", "dict32"])),
                builder2=draw(st.sampled_from(["rows", "columns", "dict64"])),
                drop_index=draw(st.booleans()))


def raises_assertion(ctx, fn, what):
    """True iff fn() raises AssertionError; any other exception is the defect."""
    try:
        fn()
    except AssertionError:
        return True
    return False


def run_equals(case, ctx):
    import tskit

    spec = case["spec"]
    spec2 = spec
    for e in case["edits"]:
        spec2 = apply_edit(spec2, e)
        ctx.label("edit_" + e["kind"])
    labels_for(ctx, spec)
    t1 = S.build(spec, tskit, case["builder"])
    # the edited collection need not be indexable: never build its index implicitly
    want_index = spec2.get("index") == "build" and not case["drop_index"]
    if spec2.get("index") == "build":
        spec2 = dict(spec2, index="none")
    t2 = S.build(spec2, tskit, case["builder2"])
    if want_index:
        try:
            t2.build_index()
        except tskit.LibraryError:
            pass
    elif case["drop_index"]:
        t2.drop_index()
    E1 = S.expected_image(spec)
    E2 = S.expected_image(spec2)
    A = diff_aspects(E1, E2)
    for a in A:
        ctx.label("aspect_" + (a if isinstance(a, str) else a[0]))
    ctx.label("no_difference", not A)
    ctx.label("two_aspects", len(A) >= 2)
    ctx.nt(bool(A))
    ctx.label("index_differs", t1.has_index() != t2.has_index())
    n_true = 0
    for bits in itertools.product([False, True], repeat=6):
        o = dict(zip(OPTS, bits))
        exp = all(covered(a, o) for a in A)
        n_true += exp
        W = "equals(" + ",".join(k[7:] for k in OPTS if o[k]) + ")"
        got = t1.equals(t2, **o)
        ctx.check(got is exp, W, lambda: f"returned {got!r}, expected {exp}; differing aspects {sorted(map(str, A))}")
        got = t2.equals(t1, **o)
        ctx.check(got is exp, W + " reversed", lambda: f"returned {got!r}, expected {exp}; aspects {sorted(map(str, A))}")
        r = raises_assertion(ctx, lambda: t1.assert_equals(t2, **o), W)
        ctx.check(r == (not exp), "assert_" + W,
                  f"{'raised' if r else 'did not raise'} AssertionError, equals is {exp}; aspects {sorted(map(str, A))}")
    ctx.label("some_option_set_equalises", 0 < n_true < 64)
    ctx.check((t1 == t2) == (not A), "__eq__", f"{t1 == t2} with aspects {A}")
    # per table
    for name in S.MD_TABLES:
        x, y = getattr(t1, name), getattr(t2, name)
        for im in (False, True):
            exp = ("tbl", name) not in A and (im or ("tbl_md", name) not in A)
            W = f"{name}.equals(ignore_metadata={im})"
            got = x.equals(y, ignore_metadata=im)
            ctx.check(got is exp, W, f"returned {got!r} expected {exp}")
            ctx.check(y.equals(x, ignore_metadata=im) is exp, W + " reversed", f"expected {exp}")
            r = raises_assertion(ctx, lambda: x.assert_equals(y, ignore_metadata=im), W)
            ctx.check(r == (not exp), f"{name}.assert_equals(ignore_metadata={im})",
                      f"{'raised' if r else 'did not raise'}, equals is {exp}")
        ctx.check((x == y) == (("tbl", name) not in A and ("tbl_md", name) not in A), f"{name}.__eq__", "")
    x, y = t1.provenances, t2.provenances
    for it in (False, True):
        exp = "prov" not in A and (it or "prov_ts" not in A)
        W = f"provenances.equals(ignore_timestamps={it})"
        got = x.equals(y, ignore_timestamps=it)
        ctx.check(got is exp, W, f"returned {got!r} expected {exp}")
        r = raises_assertion(ctx, lambda: x.assert_equals(y, ignore_timestamps=it), W)
        ctx.check(r == (not exp), "provenances.assert_equals", f"{'raised' if r else 'did not raise'}, equals is {exp}")
    # reference sequence objects: equals and assert_equals agree; byte-identical => equal;
    # different data/url => different
    x, y = t1.reference_sequence, t2.reference_sequence
    for im in (False, True):
        got = x.equals(y, ignore_metadata=im)
        r = raises_assertion(ctx, lambda: x.assert_equals(y, ignore_metadata=im), "refseq")
        ctx.check(got == (not r), f"reference_sequence.equals(ignore_metadata={im})",
                  f"equals {got} but assert_equals {'raised' if r else 'passed'}")
        if "ref" in A:
            ctx.check(got is False, "reference_sequence.equals", "True although data/url differ")
        elif "ref_md" not in A:
            ctx.check(got is True, "reference_sequence.equals", "False for identical reference sequences")
    # tree sequences delegate to their tables
    if spec["valid"] and not isinstance(spec.get("index"), list):
        try:
            ts1 = t1.tree_sequence()
            ts2 = t2.tree_sequence()
        except tskit.LibraryError:
            ts1 = None
        if ts1 is not None:
            ctx.label("ts_level")
            for bits in itertools.product([False, True], repeat=6):
                o = dict(zip(OPTS, bits))
                exp = all(covered(a, o) for a in A)
                got = ts1.equals(ts2, **o)
                ctx.check(got is exp, "ts.equals", f"{o}: returned {got!r} expected {exp}; aspects {A}")
            ctx.check((ts1 == ts2) == (not A), "ts.__eq__", "")


# ------------------------------------------------------------------ long tables and fat cells
@st.composite
def large_case(draw):
    """A small arbitrary-rows collection (every table non-empty) whose rows are repeated until every table has more
    than 2^16 rows, or whose ragged cells are blown up to more than 2^16 bytes each; file channels only (a pipe
    holds 1 MiB)."""
    spec = draw(S.g3_spec(max_rows=3).filter(lambda sp: all(sp[nm] for nm in S.MD_TABLES) and sp["provenances"]))
    return dict(
        spec=spec, kind="tc", builder=draw(st.sampled_from(["columns", "dict32", "dict64", "rows"])),
        dump=draw(st.sampled_from(FILE_CH)), load=draw(st.sampled_from(FILE_CH)),
        loader_ts=False, protocol=draw(st.sampled_from([2, 4, 5])),
        skip=draw(st.sampled_from([[True, False], [False, True], [True, True]])), skip_ts=False,
        how=draw(st.sampled_from(["rows", "rows", "cells"])), rep=draw(st.sampled_from([66000, 70001, 33000])),
        fat=draw(st.sampled_from([70000, 140001])),
    )


def amplify(case):
    spec = _copy.deepcopy(case["spec"])
    if case["how"] == "rows":
        for nm in S.TABLES:
            k = -(-case["rep"] // len(spec[nm]))
            spec[nm] = [list(r) for _ in range(k) for r in spec[nm]]
        if isinstance(spec.get("index"), list):
            k = len(spec["edges"]) // len(spec["index"][0]) if spec["index"][0] else 0
            spec["index"] = [list(spec["index"][0]) * k, list(spec["index"][1]) * k]
    else:
        # every string-valued cell of the first row of each table becomes `fat` bytes long
        for nm in S.TABLES:
            row = spec[nm][0]
            cols = list(dict(sites=[1], mutations=[2], provenances=[0, 1]).get(nm, []))
            if nm in S.MD_INDEX and not spec["schemas"].get(nm):
                cols.append(S.MD_INDEX[nm])  # metadata under a schema keeps its (decodable) value
            for j in cols:
                unit = row[j] or "\x00"
                row[j] = (unit * (case["fat"] // len(unit) + 1))[: case["fat"]]
    out = dict(case)
    out["spec"] = spec
    return out


def run_large(case, ctx):
    big = amplify(case)
    ctx.label("amplify_" + case["how"])
    run_roundtrip(big, ctx)
    ctx.nt(True)


SUBCHECKS = [
    SubCheck("C05.roundtrip", run_roundtrip, strategy=roundtrip_case, quick=2400, thorough=72000,
             rule="a ragged column with both an empty and a non-empty row, or a NaN payload (NaN other "
                  "than the default quiet NaN, incl. UNKNOWN_TIME) in a float column",
             floors={"g3_raw": 0.25, "g1_valid": 0.2, "ragged_empty_and_nonempty_row": 0.35,
                     "nan_payload": 0.2, "non_ascii_schema": 0.1, "non_json_schema": 0.05,
                     "refseq_partial": 0.15, "index_none": 0.2, "index_built": 0.06,
                     "index_explicit": 0.06, "kind_ts": 0.07, "some_table_empty": 0.3,
                     "dump_pipe_fd": 0.03, "dump_fifo": 0.02, "dump_fd": 0.03, "skip_tables": 0.3,
                     "skip_refseq": 0.25, "embedded_nul": 0.1, "loader_ts": 0.04}),
    SubCheck("C05.stream", run_stream, strategy=stream_case, quick=600, thorough=18000,
             rule=">= 2 objects dumped back-to-back on one stream",
             floors={"objects_2": 0.1, "objects_3+": 0.2, "mixed_kinds": 0.1, "truncated_tail": 0.2,
                     "junk_prefix": 0.25, "interleaved": 0.03, "channel_fifo": 0.02,
                     "channel_pipe_fd": 0.02, "channel_fd": 0.02, "has_ts_loader": 0.08}),
    SubCheck("C05.equals", run_equals, strategy=equals_case, quick=1200, thorough=36000,
             rule="the two collections differ in at least one aspect (row value, metadata, schema, top-level "
                  "metadata/schema, provenance record/timestamp, reference sequence, time units, length)",
             floors={"aspect_tbl": 0.15, "aspect_tbl_md": 0.1, "aspect_ts_md": 0.02, "aspect_prov": 0.03,
                     "aspect_prov_ts": 0.03, "aspect_ref": 0.02, "aspect_ref_md": 0.005,
                     "aspect_time_units": 0.015, "aspect_L": 0.015, "some_option_set_equalises": 0.3,
                     "no_difference": 0.03, "ts_level": 0.03}),
    SubCheck("C05.large", run_large, strategy=large_case, quick=8, thorough=400, shards=16, max_shrink_runs=(30, 200),
             rule="arbitrary-rows collections amplified to >2^16 rows per table, or to ragged cells of >2^16 bytes"),
]
