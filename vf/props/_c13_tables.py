"""C13 (a): the eight table classes against a Python list-of-rows model.

A history is a JSON list of operations.  `run_history` interprets it against the real table and
against `Model` (a plain list of row dicts + the schema string) and compares everything observable
after every step.  Arguments that depend on the current size are raw integers reduced in here.
"""
import json
import pickle
import struct
import types

from hypothesis import strategies as st

from ..gen import B, F, fjson

MAX_ID = 2**31 - 2

# fixed columns: (name, kind); ragged columns: (name, kind); kind of a ragged column:
#   bytes (int8, passed as bytes), text (int8, passed/returned as str, utf-8), f64, i32
DEFS = {
    "individuals": dict(cls="IndividualTable", fixed=[("flags", "u32")],
                        ragged=[("location", "f64"), ("parents", "i32"), ("metadata", "bytes")],
                        selfref="parents"),
    "nodes": dict(cls="NodeTable", fixed=[("flags", "u32"), ("time", "f64"), ("population", "i32"),
                                          ("individual", "i32")], ragged=[("metadata", "bytes")]),
    "edges": dict(cls="EdgeTable", fixed=[("left", "f64"), ("right", "f64"), ("parent", "i32"),
                                          ("child", "i32")], ragged=[("metadata", "bytes")]),
    "migrations": dict(cls="MigrationTable",
                       fixed=[("left", "f64"), ("right", "f64"), ("node", "i32"), ("source", "i32"),
                              ("dest", "i32"), ("time", "f64")], ragged=[("metadata", "bytes")]),
    "sites": dict(cls="SiteTable", fixed=[("position", "f64")],
                  ragged=[("ancestral_state", "text"), ("metadata", "bytes")]),
    "mutations": dict(cls="MutationTable", fixed=[("site", "i32"), ("node", "i32"), ("time", "f64"),
                                                  ("parent", "i32")],
                      ragged=[("derived_state", "text"), ("metadata", "bytes")], selfref="parent"),
    "populations": dict(cls="PopulationTable", fixed=[], ragged=[("metadata", "bytes")]),
    "provenances": dict(cls="ProvenanceTable", fixed=[], ragged=[("record", "text"), ("timestamp", "text")]),
}
TABLES = list(DEFS)
# set_columns arguments that may be left out (documented defaults)
OPTIONAL = {"individuals": ["location", "parents", "metadata"], "nodes": ["population", "individual", "metadata"],
            "edges": ["metadata"], "migrations": ["metadata"], "sites": ["metadata"],
            "mutations": ["parent", "time", "metadata"], "populations": [], "provenances": []}
NP = {"u32": "<u4", "i32": "<i4", "f64": "<f8"}
JSON_SCHEMA = '{"codec":"json"}'


def has_md(name):
    return name != "provenances"


# ------------------------------------------------------------------ strategies (JSON rows / ops)
F64 = [0.0, 1.0, -1.5, 2.0, 1e300, "inf", "-inf", "nan", "bits:230100000000f87f", -0.0, 5e-324, 0.25]
ST_F64 = st.one_of(st.sampled_from(F64), st.floats(allow_nan=True, allow_infinity=True).map(fjson))
ST_U32 = st.one_of(st.sampled_from([0, 1, 2, 3, 1 << 16, 1 << 31, 2**32 - 1]), st.integers(0, 2**32 - 1))
ST_ID = st.sampled_from([-1, -1, 0, 0, 1, 2, 3, 7, MAX_ID])
ST_BYTES = st.one_of(st.just(""), st.just(""), st.binary(max_size=6).map(lambda b: b.decode("latin-1")),
                     st.sampled_from(["\x00", "ab", "\xff" * 40, "{}", "m" * 9]))
ST_TEXT = st.text(alphabet=st.sampled_from(["a", "b", "A", "\x00", "\xe9", "€", "\U0001F600"]), max_size=4)


@st.composite
def st_row(draw, name):
    d = DEFS[name]
    row = {}
    for col, kind in d["fixed"]:
        if col == d.get("selfref"):
            row[col] = draw(st.integers(0, 40))
        else:
            row[col] = draw({"u32": ST_U32, "i32": ST_ID, "f64": ST_F64}[kind])
    for col, kind in d["ragged"]:
        if kind == "bytes":
            row[col] = draw(ST_BYTES)
        elif kind == "text":
            row[col] = draw(ST_TEXT)
        elif kind == "f64":
            row[col] = draw(st.lists(ST_F64, max_size=3))
        elif col == d.get("selfref"):
            row[col] = draw(st.lists(st.integers(0, 40), max_size=3))
        else:
            row[col] = draw(st.lists(ST_ID, max_size=3))
    if "selfref" in d:
        # rel: references are reduced into [-1, n) when the row is applied; lit: taken as they are
        row["$ref"] = draw(st.sampled_from(["rel", "rel", "rel", "lit"]))
    return row


def st_rows(name, max_size=4):
    return st.lists(st_row(name), max_size=max_size)


RAW = st.integers(0, 10**6)
BITS = st.lists(st.booleans(), min_size=1, max_size=8)


@st.composite
def st_op(draw, name):
    d = DEFS[name]
    ragged_cols = [c for c, _ in d["ragged"]]
    fixed_cols = [c for c, _ in d["fixed"]]
    kinds = ["add_row"] * 6 + ["append"] * 3 + ["setitem"] * 6 + ["getitem"] + ["truncate"] * 3 + \
        ["keep_rows"] * 5 + ["clear", "set_columns", "append_columns", "append_columns",
                             "packset", "packset", "setattr", "setattr", "copy", "pickle", "asdict",
                             "replace_with", "burst", "burst", "equals", "bad", "bad", "bad"]
    if name != "provenances":
        kinds += ["slice", "mask", "ids", "take", "take", "drop_metadata", "schema"]
    if "selfref" in d:
        kinds += ["keep_rows"] * 5
    k = draw(st.sampled_from(kinds))
    if k in ("add_row", "append"):
        return [k, draw(st_row(name))]
    if k == "setitem":
        return [k, draw(RAW), draw(st_row(name))]
    if k == "getitem":
        return [k, draw(RAW), draw(st.booleans())]
    if k == "slice":
        lim = st.one_of(st.none(), st.integers(-12, 12))
        return [k, draw(lim), draw(lim), draw(st.sampled_from([None, 1, 2, -1, -2, 3]))]
    if k == "mask":
        return [k, draw(BITS), draw(st.booleans())]
    if k == "ids":
        return [k, draw(st.lists(RAW, max_size=6))]
    if k == "take":
        return [k, draw(st.sampled_from(["ids", "mask", "slice"])), draw(st.lists(RAW, max_size=6)), draw(BITS)]
    if k == "truncate":
        return [k, draw(RAW)]
    if k == "keep_rows":
        return [k, draw(BITS), draw(st.booleans())]
    if k in ("set_columns", "append_columns", "replace_with"):
        omit = [c for c in OPTIONAL[name] if draw(st.integers(0, 4)) == 0] if k != "replace_with" else []
        return [k, draw(st_rows(name)), omit, draw(st.integers(0, 1))]
    if k == "packset":
        col = draw(st.sampled_from(ragged_cols))
        kind = dict(d["ragged"])[col]
        vals = draw(st.lists({"bytes": ST_BYTES, "text": ST_TEXT, "f64": st.lists(ST_F64, max_size=3),
                              "i32": st.lists(st.integers(0, 40) if col == d.get("selfref") else ST_ID,
                                              max_size=3)}[kind], min_size=1, max_size=4))
        return [k, col, vals]
    if k == "setattr":
        if fixed_cols and draw(st.booleans()):
            col = draw(st.sampled_from(fixed_cols))
            kind = dict(d["fixed"])[col]
            vals = draw(st.lists({"u32": ST_U32, "i32": st.one_of(ST_ID, st.sampled_from([-2, -(2**31)])),
                                  "f64": ST_F64}[kind], min_size=1, max_size=4))
            return [k, "fixed", col, vals]
        col = draw(st.sampled_from(ragged_cols))
        return [k, "ragged", col, draw(st.lists(st.integers(0, 255), min_size=1, max_size=4))]
    if k == "drop_metadata":
        return [k, draw(st.booleans())]
    if k == "schema":
        return [k, draw(st.integers(0, 1))]
    if k == "burst":
        return [k, draw(st.sampled_from([20, 40, 300, 1100])), draw(st_row(name)), draw(st.booleans())]
    if k == "bad":
        bads = ["getitem", "setitem", "truncate", "keep_len", "set_columns_len", "set_columns_offsets",
                "append_columns_offsets", "setattr_len", "packset_len"]
        if name != "provenances":
            bads += ["ids", "mask_len"]
        if "selfref" in d:
            bads += ["keep_dangling", "keep_dangling"]
        return [k, draw(st.sampled_from(bads)), draw(RAW), draw(st_row(name))]
    return [k]


@st.composite
def history_case(draw, table=None):
    name = table or draw(st.sampled_from(TABLES))
    # every history starts from a few rows (most operations are vacuous on an empty table)
    init = draw(st.lists(st_row(name), min_size=2, max_size=8))
    ops = [["append_columns", init, [], 0]] + draw(st.lists(st_op(name), min_size=3, max_size=29))
    return dict(table=name, inc=draw(st.sampled_from([0, 0, 1, 3])), ops=ops)


@st.composite
def large_history_case(draw, table=None):
    """As history_case, but the second step grows the table past 2^16 rows in one append_columns call (or, rarely,
    row by row), and the remaining steps operate on that long table."""
    name = table or draw(st.sampled_from(TABLES))
    init = draw(st.lists(st_row(name), min_size=2, max_size=5))
    big = ["burst", draw(st.sampled_from([65534, 66000, 70001])), draw(st_row(name)), draw(st.integers(0, 7)) > 0]
    ops = [["append_columns", init, [], 0], big] + draw(st.lists(st_op(name), min_size=2, max_size=7))
    return dict(table=name, inc=draw(st.sampled_from([0, 0, 1, 4096])), ops=ops)


# ------------------------------------------------------------------ model
def f64b(x):
    return struct.pack("<d", x)


class Model:
    def __init__(self, name):
        self.name = name
        self.d = DEFS[name]
        self.rows = []
        self.schema = ""

    # --- turning a JSON row into concrete values, given the size n the table will have
    def concrete(self, row, n):
        d = self.d
        out = {}
        rel = row.get("$ref") == "rel"
        for col, kind in d["fixed"]:
            v = row[col]
            if col == d.get("selfref"):
                v = (v % (n + 1)) - 1 if rel else [-1, 0, 1, 5, MAX_ID][v % 5]
            out[col] = F(v) if kind == "f64" else int(v)
        for col, kind in d["ragged"]:
            v = row[col]
            if kind == "bytes":
                out[col] = B(v)
            elif kind == "text":
                out[col] = v
            elif kind == "f64":
                out[col] = [F(x) for x in v]
            elif col == d.get("selfref"):
                out[col] = [(x % (n + 1)) - 1 if rel else [-1, 0, 1, 5, MAX_ID][x % 5] for x in v]
            else:
                out[col] = [int(x) for x in v]
        return out

    def raw(self, row, col):
        """Bytes of one ragged cell."""
        kind = dict(self.d["ragged"])[col]
        v = row[col]
        if kind == "bytes":
            return v
        if kind == "text":
            return v.encode("utf-8")
        if kind == "f64":
            return b"".join(f64b(x) for x in v)
        return b"".join(struct.pack("<i", x) for x in v)

    def cell_len(self, row, col):
        kind = dict(self.d["ragged"])[col]
        return len(self.raw(row, col)) if kind in ("bytes", "text") else len(row[col])

    def columns(self, rows=None):
        """Expected bytes of every column: {name: bytes} and offsets as lists."""
        rows = self.rows if rows is None else rows
        out = {}
        for col, kind in self.d["fixed"]:
            if kind == "f64":
                out[col] = b"".join(f64b(r[col]) for r in rows)
            else:
                out[col] = b"".join(struct.pack("<I" if kind == "u32" else "<i", r[col]) for r in rows)
        for col, kind in self.d["ragged"]:
            out[col] = b"".join(self.raw(r, col) for r in rows)
            off = [0]
            for r in rows:
                off.append(off[-1] + self.cell_len(r, col))
            out[col + "_offset"] = off
        return out

    def arrays(self, rows, omit=()):
        """Keyword arguments for set_columns/append_columns."""
        import numpy as np

        cols = self.columns(rows)
        kw = {}
        for col, kind in self.d["fixed"]:
            if col not in omit:
                kw[col] = np.frombuffer(cols[col], dtype=NP[kind]).copy()
        for col, kind in self.d["ragged"]:
            if col in omit:
                continue
            dt = {"bytes": "i1", "text": "i1", "f64": "<f8", "i32": "<i4"}[kind]
            kw[col] = np.frombuffer(cols[col], dtype=dt).copy()
            kw[col + "_offset"] = np.array(cols[col + "_offset"], dtype=np.uint64)
        return kw

    def default_row_values(self, col):
        kind = dict(self.d["fixed"] + self.d["ragged"])[col]
        if col == "time" and self.name == "mutations":
            return struct.unpack("<d", bytes.fromhex("2174696b7374f87f"))[0]  # tskit.UNKNOWN_TIME
        return {"i32": -1 if col in dict(self.d["fixed"]) else [], "bytes": b"", "f64": [], "text": ""}[kind]

    def keep(self, mask):
        """-> ("ok", new_rows, id_map) or ("error", reason)."""
        n = len(self.rows)
        id_map, k = [], 0
        for j in range(n):
            if mask[j]:
                id_map.append(k)
                k += 1
            else:
                id_map.append(-1)
        sr = self.d.get("selfref")
        new = []
        for j in range(n):
            if not mask[j]:
                continue
            r = dict(self.rows[j])
            if sr:
                refs = r[sr] if isinstance(r[sr], list) else [r[sr]]
                for p in refs:
                    if p != -1:
                        if p < 0 or p >= n:
                            return ("error", "out_of_bounds")
                        if id_map[p] == -1:
                            return ("error", "maps_to_deleted")
                r[sr] = [id_map[p] if p != -1 else -1 for p in refs] if isinstance(r[sr], list) \
                    else (id_map[r[sr]] if r[sr] != -1 else -1)
            new.append(r)
        return ("ok", new, id_map)


def cycle(bits, n):
    return [bool(bits[i % len(bits)]) for i in range(n)]


def closure(model, mask):
    """Extend a keep mask so that no kept row refers to a deleted one (if references are valid)."""
    sr = model.d.get("selfref")
    if not sr:
        return mask
    n = len(model.rows)
    mask = list(mask)
    changed = True
    while changed:
        changed = False
        for j in range(n):
            if mask[j]:
                r = model.rows[j][sr]
                for p in (r if isinstance(r, list) else [r]):
                    if 0 <= p < n and not mask[p]:
                        mask[p] = True
                        changed = True
    return mask


# ------------------------------------------------------------------ the interpreter
def make_table(tskit, name, inc=0):
    return getattr(tskit, DEFS[name]["cls"])(max_rows_increment=inc)


def add_kwargs(model, row, md_json):
    kw = {k: v for k, v in row.items()}
    if has_md(model.name) and md_json:
        kw["metadata"] = json.loads(row["metadata"])
    return kw


def row_like(model, row, md_json):
    import numpy as np

    kw = add_kwargs(model, row, md_json)
    for col, kind in model.d["ragged"]:
        if kind == "f64" and len(kw[col]) and len(kw[col]) % 2:
            kw[col] = np.array(kw[col], dtype=np.float64)  # row-likes may carry arrays or lists
    return types.SimpleNamespace(**kw)


def jsonify_md(model, row):
    """With a JSON schema on the table, rows go in as objects; the model stores their encoding."""
    if has_md(model.name) and model.schema == JSON_SCHEMA:
        row = dict(row)
        row["metadata"] = ('{"k":%d}' % len(row["metadata"])).encode()
    return row


def check_row(ctx, model, got, want, what):
    import numpy as np

    for col, kind in model.d["fixed"]:
        g = getattr(got, col)
        if kind == "f64":
            ok = isinstance(g, float) and f64b(g) == f64b(want[col])
        else:
            ok = int(g) == want[col]
        ctx.check(ok, what, lambda: f"{col}: {g!r} expected {want[col]!r}")
    for col, kind in model.d["ragged"]:
        if col == "metadata":
            if model.schema == "":
                g = got.metadata
                ctx.check(g == want[col], what, lambda: f"metadata {g!r} expected {want[col]!r}")
            else:
                try:
                    exp = json.loads(want[col].decode()) if want[col] else {}
                except (ValueError, UnicodeDecodeError):
                    continue  # bytes put there by a bulk method: not JSON, decoding is not asserted
                g = got.metadata
                ctx.check(g == exp, what, lambda: f"metadata {g!r} expected {exp!r}")
            continue
        g = getattr(got, col)
        if kind == "text":
            ok = g == want[col]
        elif kind == "f64":
            ok = isinstance(g, np.ndarray) and g.dtype == np.float64 and g.tobytes() == model.raw(want, col)
        else:
            ok = isinstance(g, np.ndarray) and g.dtype == np.int32 and g.tobytes() == model.raw(want, col)
        ctx.check(ok, what, lambda: f"{col}: {g!r} expected {want[col]!r}")


def check_table(ctx, model, t, rows, schema, what, deep=True):
    """Everything observable about table t equals the list `rows`."""
    import numpy as np

    n = len(rows)
    ctx.check(len(t) == n and t.num_rows == n, what, lambda: f"len {len(t)} / num_rows {t.num_rows} expected {n}")
    cols = model.columns(rows)
    for col, kind in model.d["fixed"]:
        a = getattr(t, col)
        ctx.check(a.dtype == np.dtype(NP[kind]) and a.tobytes() == cols[col], what,
                  lambda: f"column {col} = {a!r} expected bytes {cols[col].hex()}")
    for col, kind in model.d["ragged"]:
        a = getattr(t, col)
        o = getattr(t, col + "_offset")
        ctx.check(a.tobytes() == cols[col], what, lambda: f"ragged column {col} = {a.tobytes()!r} expected {cols[col]!r}")
        ctx.check(len(o) == n + 1 and [int(x) for x in o] == cols[col + "_offset"], what,
                  lambda: f"{col}_offset = {list(o)} expected {cols[col + '_offset']}")
    if has_md(model.name):
        ctx.check(repr(t.metadata_schema) == schema, what, lambda: f"schema {t.metadata_schema!r} expected {schema!r}")
    if deep:
        idx = range(n) if n <= 48 else list(range(8)) + list(range(n // 2 - 4, n // 2 + 4)) + list(range(n - 8, n))
        saved, model_schema = model.schema, schema
        model.schema = schema
        try:
            for j in idx:
                check_row(ctx, model, t[j], rows[j], what + f".row[{j}]")
            if n <= 48:
                k = 0
                for k, r in enumerate(t, 1):
                    pass
                ctx.check(k == n, what, "iteration length")
        finally:
            model.schema = saved


def snapshot(model, t):
    d = {c: getattr(t, c).tobytes() for c in t.column_names}
    d["$n"] = len(t)
    if has_md(model.name):
        d["$schema"] = repr(t.metadata_schema)
    return d


def must_raise(ctx, model, t, fn, excs, what):
    """fn must raise one of excs and leave t unchanged."""
    before = snapshot(model, t)
    try:
        fn()
    except excs:
        pass
    else:
        ctx.fail("no_error", f"{what}: no exception")
    ctx.check(snapshot(model, t) == before, "failed_op_changed_table", f"{what} raised but the table changed")


def run_history(case, ctx):
    import numpy as np
    import tskit

    name = case["table"]
    model = Model(name)
    d = model.d
    t = make_table(tskit, name, case["inc"])
    ctx.label("table_" + name)
    LibErr = tskit.LibraryError
    copies = []  # (table, rows, schema) that must stay as they were
    rewrites = 0
    flags = dict(rewrite_then_op=False, keep_selfref=False, truncate_then_grow=False)
    truncated = False
    rewrote = False
    md_cols = [c for c, _ in d["ragged"]]

    def md_json():
        return has_md(name) and model.schema == JSON_SCHEMA

    for step, op in enumerate(case["ops"]):
        k = op[0]
        n = len(model.rows)
        what = f"step{step}:{k}"
        if rewrote and k not in ("bad",):
            flags["rewrite_then_op"] = True
        if k in ("add_row", "append"):
            row = jsonify_md(model, model.concrete(op[1], n + 1))
            if k == "add_row":
                rid = t.add_row(**add_kwargs(model, row, md_json()))
            else:
                rid = t.append(row_like(model, row, md_json()))
            ctx.check(rid == n, what, f"returned id {rid} expected {n}")
            model.rows.append(row)
            if truncated:
                flags["truncate_then_grow"] = True
        elif k == "setitem":
            if n == 0:
                row = model.concrete(op[2], 1)
                must_raise(ctx, model, t, lambda: t.__setitem__(0, row_like(model, jsonify_md(model, row), md_json())),
                           (IndexError,), what)
                continue
            j = op[1] % (2 * n) - n
            row = jsonify_md(model, model.concrete(op[2], n))
            old = model.rows[j]
            if any(model.cell_len(old, c) != model.cell_len(row, c) for c in md_cols):
                ctx.label("setitem_rewrite")
                rewrote = True
            else:
                ctx.label("setitem_inplace")
            t[j] = row_like(model, row, md_json())
            model.rows[j] = row
        elif k == "getitem":
            if n == 0:
                must_raise(ctx, model, t, lambda: t[0], (IndexError,), what)
                continue
            j = op[1] % (2 * n) - n
            r = t[np.int64(j)] if op[2] else t[j]
            check_row(ctx, model, r, model.rows[j], what)
        elif k == "slice":
            sl = slice(op[1], op[2], op[3])
            sub = t[sl]
            check_table(ctx, model, sub, model.rows[sl], model.schema, what)
            ctx.check(type(sub) is type(t), what, "type of the result")
        elif k == "mask":
            m = cycle(op[1], n)
            sub = t[np.array(m, dtype=bool)] if op[2] else t[m] if n else t[np.array(m, dtype=bool)]
            check_table(ctx, model, sub, [r for r, b in zip(model.rows, m) if b], model.schema, what)
        elif k == "ids":
            ids = [r % n for r in op[1]] if n else []
            sub = t[np.array(ids, dtype=np.int64)] if step % 2 else t[ids] if ids else t[np.array(ids, dtype=np.int32)]
            check_table(ctx, model, sub, [model.rows[i] for i in ids], model.schema, what)
        elif k == "take":
            if op[1] == "ids":
                ids = [r % n for r in op[2]] if n else []
                sub = t[np.array(ids, dtype=np.int32)]
                rows = [model.rows[i] for i in ids]
            elif op[1] == "mask":
                m = cycle(op[3], n)
                sub = t[np.array(m, dtype=bool)]
                rows = [r for r, b in zip(model.rows, m) if b]
            else:
                sl = slice(op[2][0] % 5 if op[2] else None, None, None)
                sub = t[sl]
                rows = model.rows[sl]
            copies.append((t, list(model.rows), model.schema))
            t = sub
            model.rows = [dict(r) for r in rows]
        elif k == "truncate":
            m = op[1] % (n + 1)
            t.truncate(m)
            model.rows = model.rows[:m]
            truncated = truncated or m < n
        elif k == "keep_rows":
            m = cycle(op[1], n)
            if op[2]:
                m = closure(model, m)
            res = model.keep(m)
            arg = np.array(m, dtype=bool) if step % 2 else m
            if res[0] == "error":
                ctx.label("keep_rows_" + res[1])
                must_raise(ctx, model, t, lambda: t.keep_rows(arg), (LibErr,), what + " (" + res[1] + ")")
                continue
            id_map = t.keep_rows(arg)
            ctx.check(isinstance(id_map, np.ndarray) and id_map.dtype == np.int32 and id_map.tolist() == res[2],
                      what, lambda: f"id_map {id_map!r} expected {res[2]}")
            sr = d.get("selfref")
            if sr and not all(m) and any(p != -1 for r in res[1] for p in (r[sr] if isinstance(r[sr], list) else [r[sr]])):
                flags["keep_selfref"] = True
                ctx.label("keep_rows_remap")
            model.rows = res[1]
        elif k == "clear":
            t.clear()
            model.rows = []
        elif k in ("set_columns", "append_columns"):
            rows = [model.concrete(r, len(op[1]) if k == "set_columns" else n + len(op[1])) for r in op[1]]
            omit = list(op[2])
            if k == "append_columns" and name == "mutations":
                pass
            kw = model.arrays(rows, omit)
            if op[3] and rows:
                kw = {a: (v.tolist() if not a.endswith("_offset") and v.dtype.kind != "f" else v) for a, v in kw.items()}
            for c in omit:
                dv = model.default_row_values(c)
                rows = [dict(r, **{c: dv}) for r in rows]
            if k == "set_columns":
                t.set_columns(**kw)
                model.rows = rows
            else:
                t.append_columns(**kw)
                model.rows = model.rows + rows
                if truncated and rows:
                    flags["truncate_then_grow"] = True
        elif k == "replace_with":
            other = make_table(tskit, name)
            rows = [model.concrete(r, len(op[1])) for r in op[1]]
            other.set_columns(**model.arrays(rows))
            oschema = ""
            if has_md(name) and op[3]:
                other.metadata_schema = tskit.MetadataSchema.permissive_json()
                oschema = JSON_SCHEMA
            t.replace_with(other)
            model.rows = rows
            if has_md(name):
                model.schema = oschema
            other.clear()  # the replacement is a copy
        elif k == "packset":
            col, vals = op[1], op[2]
            kind = dict(d["ragged"])[col]
            tmp = []
            for j in range(n):
                fake = {c: (vals[j % len(vals)] if c == col else ([] if kd in ("f64", "i32") else ""))
                        for c, kd in d["ragged"]}
                for c, kd in d["fixed"]:
                    fake[c] = 0
                fake["$ref"] = "rel"
                tmp.append(model.concrete(fake, n)[col])
            arg = list(tmp)
            if kind == "f64":
                arg = [np.array(v, dtype=np.float64) for v in tmp]
            getattr(t, "packset_" + col)(arg)
            for j in range(n):
                model.rows[j] = dict(model.rows[j], **{col: tmp[j]})
        elif k == "setattr":
            if op[1] == "fixed":
                col, vals = op[2], op[3]
                kind = dict(d["fixed"])[col]
                new = [F(vals[j % len(vals)]) if kind == "f64" else int(vals[j % len(vals)]) for j in range(n)]
                arr = np.frombuffer(b"".join(f64b(x) for x in new), dtype="<f8") if kind == "f64" \
                    else np.array(new, dtype=NP[kind])
                setattr(t, col, arr if step % 2 else (arr.tolist() if kind != "f64" else arr))
                for j in range(n):
                    model.rows[j] = dict(model.rows[j], **{col: new[j]})
            else:
                # overwrite the flattened data of a ragged column, same total length, same offsets
                col, vals = op[2], op[3]
                kind = dict(d["ragged"])[col]
                total = sum(model.cell_len(r, col) for r in model.rows)
                if kind in ("bytes", "text"):
                    data = bytes((vals[i % len(vals)] % (128 if kind == "text" else 256)) for i in range(total))
                    setattr(t, col, np.frombuffer(data, dtype=np.int8))
                elif kind == "f64":
                    data = [float(vals[i % len(vals)]) for i in range(total)]
                    setattr(t, col, np.array(data, dtype=np.float64))
                else:
                    data = [(vals[i % len(vals)] % (n + 1)) - 1 for i in range(total)]
                    setattr(t, col, np.array(data, dtype=np.int32))
                pos = 0
                for j in range(n):
                    ln = model.cell_len(model.rows[j], col)
                    chunk = data[pos:pos + ln]
                    pos += ln
                    if kind == "bytes":
                        v = bytes(chunk)
                    elif kind == "text":
                        v = bytes(chunk).decode("utf-8")
                    else:
                        v = list(chunk)
                    model.rows[j] = dict(model.rows[j], **{col: v})
        elif k == "drop_metadata":
            t.drop_metadata(keep_schema=op[1])
            model.rows = [dict(r, metadata=b"") for r in model.rows]
            if not op[1]:
                model.schema = ""
        elif k == "schema":
            if op[1]:
                t.metadata_schema = tskit.MetadataSchema.permissive_json()
                model.schema = JSON_SCHEMA
            else:
                t.metadata_schema = tskit.MetadataSchema(None)
                model.schema = ""
        elif k == "copy":
            c = t.copy()
            ctx.check(c.equals(t) and c == t and t.equals(c), what, "copy is not equal to the original")
            copies.append((t, [dict(r) for r in model.rows], model.schema))
            t = c
        elif k == "pickle":
            c = pickle.loads(pickle.dumps(t))
            ctx.check(c.equals(t), what, "unpickled table differs")
            copies.append((t, [dict(r) for r in model.rows], model.schema))
            t = c
        elif k == "asdict":
            dd = t.asdict()
            cols = model.columns()
            for c in t.column_names:
                a = dd[c]
                exp = cols[c]
                if c.endswith("_offset"):
                    ctx.check([int(x) for x in a] == exp, what, f"asdict()[{c}]")
                else:
                    ctx.check(a.tobytes() == exp, what, f"asdict()[{c}]")
                if a.size and a.flags.writeable:
                    a[...] = 1  # arrays handed out are copies: scribbling must not reach the table
            for c in t.column_names:
                a = getattr(t, c)
                if a.size and a.flags.writeable:
                    a[...] = 3
        elif k == "burst":
            cnt = op[1]
            rows = [model.concrete(op[2], n + cnt) for _ in range(cnt)]
            if op[3]:
                t.append_columns(**model.arrays(rows))
            else:
                rows = [jsonify_md(model, r) for r in rows]
                for r in rows:
                    t.add_row(**add_kwargs(model, r, md_json()))
            model.rows = model.rows + rows
            ctx.label("burst>=300", cnt >= 300)
            ctx.label("burst>=1100", cnt >= 1100)
            ctx.label("burst>=65534", cnt >= 65534)
            if truncated:
                flags["truncate_then_grow"] = True
        elif k == "equals":
            other = make_table(tskit, name)
            other.set_columns(**model.arrays(model.rows))
            if has_md(name):
                other.metadata_schema = tskit.MetadataSchema.permissive_json() if model.schema else tskit.MetadataSchema(None)
            ctx.check(t.equals(other) and other.equals(t) and t == other, what, "table != table rebuilt from the model")
            if n:
                other.truncate(n - 1)
                ctx.check(not t.equals(other), what, "equals() ignores the last row")
        elif k == "bad":
            kind = op[1]
            ctx.label("bad_" + kind)
            row = jsonify_md(model, model.concrete(op[3], n + 1))
            good = model.arrays([row])
            # out of range by one, or by a multiple of 2^32 / 2^64 (aliases of valid rows in narrower integers)
            far = [n, -n - 1, 2**32 + (op[2] % max(1, n)), -(2**32) - 1, 2**31 + n, 2**64 + (op[2] % max(1, n)),
                   -(2**63) - 1, 2**32 - 1 - (op[2] % max(1, n))]
            if kind == "getitem":
                j = far[op[2] % len(far)]
                must_raise(ctx, model, t, lambda: t[j], (IndexError, OverflowError), what)
            elif kind == "setitem":
                j = far[op[2] % len(far)]
                must_raise(ctx, model, t, lambda: t.__setitem__(j, row_like(model, row, md_json())),
                           (IndexError, OverflowError), what)
            elif kind == "truncate":
                j = n + 1 + op[2] % 3 if op[2] % 2 else -1 - op[2] % 3
                must_raise(ctx, model, t, lambda: t.truncate(j), (ValueError,), what)
            elif kind == "keep_len":
                must_raise(ctx, model, t, lambda: t.keep_rows([True] * (n + 1)), (ValueError,), what)
            elif kind == "ids":
                ids = [0] * min(n, 1) + [n + op[2] % 3]
                must_raise(ctx, model, t, lambda: t[ids], (LibErr,), what)
            elif kind == "mask_len":
                must_raise(ctx, model, t, lambda: t[np.array([True] * (n + 1))], (IndexError,), what)
            elif kind in ("set_columns_len", "setattr_len"):
                if not d["fixed"]:
                    continue
                col = d["fixed"][op[2] % len(d["fixed"])][0]
                if kind == "set_columns_len":
                    two = model.arrays([row, row])
                    two[col] = two[col][:1]
                    must_raise(ctx, model, t, lambda: t.set_columns(**two), (ValueError,), what)
                else:
                    must_raise(ctx, model, t, lambda: setattr(t, col, good[col].tolist() * (n + 1) + [0]),
                               (ValueError,), what)
            elif kind in ("set_columns_offsets", "append_columns_offsets"):
                # offsets that decrease, or whose last entry is not the data length.  (offsets[0] != 0 is
                # the reported finding tables.set_columns_bad_first_offset_clears_table: probe only.)
                rc = d["ragged"][op[2] % len(d["ragged"])][0]
                two = model.arrays([row, row])
                ln = int(two[rc + "_offset"][2])
                if op[2] % 2 and ln >= 1:
                    two[rc + "_offset"] = np.array([0, ln, ln - 1], dtype=np.uint64)
                else:
                    two[rc + "_offset"] = np.array([0, 0, ln + 1], dtype=np.uint64)
                fn = t.set_columns if kind == "set_columns_offsets" else t.append_columns
                must_raise(ctx, model, t, lambda: fn(**two), (ValueError, LibErr), what)
            elif kind == "packset_len":
                if name == "populations":
                    # metadata is the only column there: a list of another length silently resizes the
                    # table (the docstring only says the length "must be equal"); not asserted
                    continue
                rc = d["ragged"][op[2] % len(d["ragged"])]
                val = {"bytes": b"x", "text": "x", "f64": [1.0], "i32": [-1]}[rc[1]]
                must_raise(ctx, model, t, lambda: getattr(t, "packset_" + rc[0])([val] * (n + 1)), (ValueError,), what)
            elif kind == "keep_dangling":
                # make row 0 refer to the last row, then try to delete the last row
                if n < 2:
                    continue
                sr = d["selfref"]
                r0 = dict(row)  # a fresh row (rows already in the table may hold ids < -1 put there by column ops)
                r0[sr] = [n - 1] if isinstance(r0[sr], list) else n - 1
                t[0] = row_like(model, r0, md_json())
                model.rows[0] = r0
                check_table(ctx, model, t, model.rows, model.schema, what + ".prepare", deep=False)
                must_raise(ctx, model, t, lambda: t.keep_rows([True] * (n - 1) + [False]), (LibErr,), what)
                ctx.label("keep_rows_maps_to_deleted")
            continue
        else:
            raise AssertionError(k)
        check_table(ctx, model, t, model.rows, model.schema, what, deep=(len(model.rows) <= 48 or k == "burst"))
    for tab, rows, schema in copies:
        check_table(ctx, model, tab, rows, schema, "independent_copy", deep=False)
    ctx.label("rewrite_then_op", flags["rewrite_then_op"])
    ctx.label("keep_selfref", flags["keep_selfref"])
    ctx.label("truncate_then_grow", flags["truncate_then_grow"])
    ctx.label("copies", bool(copies))
    ctx.nt(flags["rewrite_then_op"] or flags["keep_selfref"] or flags["truncate_then_grow"])
