"""C04 — simplify preserves the sample genealogy and the sample genotypes exactly.

Oracle: for every position x the set A_x of nodes with a chosen sample at or below them and the
retained set R_x are computed positionally from the raw input rows (vf/model.py parent_at); the
output tables (read back row by row) must describe, through the returned node map, exactly the
forest "every v in R_x hangs below its nearest strict ancestor in R_x" and nothing else.
"""
import itertools

from hypothesis import strategies as st

from .. import gen, model
from ..core import PropertyViolation, SubCheck
from ..gen import F

META = dict(
    level="exploration",
    rule="Valid tree sequences without migrations and without edge metadata (vf/gen.py ts_spec) x "
    "sample lists (None / all flagged samples permuted / subsets of the flagged samples / arbitrary "
    "node subsets incl. internal and non-sample nodes / singleton / empty) x 1-3 of the 384 option "
    "combinations {keep_unary | keep_unary_in_individuals | neither} x keep_input_roots x "
    "filter_nodes/sites/individuals/populations x update_sample_flags x reduce_to_site_topology "
    "(defaults passed explicitly or omitted) x entry point (TreeSequence.simplify(map_nodes=True) / "
    "TableCollection.simplify). Oracle: exact positional retained-set model R_x (samples, nodes "
    "with >=2 child lineages carrying samples, unary nodes / input roots when the options keep "
    "them) evaluated at every point of the common refinement of input and output breakpoints "
    "(at every input site position under reduce_to_site_topology); node map, node rows, exact "
    "output node set, mutation retention / re-attachment / parents, site, individual and "
    "population filtering with remapped references, model and tskit genotypes of the chosen "
    "samples, and byte-identical result when the output is simplified again with the same options.",
    assumptions=[
        "reference model vf/model.py (positional parent map, allele_at, mutation_parents)",
        "size bounds: <=10 nodes, <=4 elementary intervals, <=5 sites, <=4 (+ one per node when densified) mutations per site",
        "domain: edges carry no metadata and there are no migrations, because simplify refuses both with a "
        "LibraryError (asserted by C04.refusals)",
        "output edge order/squashing and which output id a non-sample node gets are not asserted",
        "re-simplification with reduce_to_site_topology is compared only when the first pass removed "
        "no site: with filter_sites the second pass reduces relative to fewer site positions, so the universal "
        "'simplifying again changes nothing' clause is not checked on exactly those cases",
        "open finding simplify.reduce_keep_input_roots_unreferenced_node is excluded only when the sole "
        "discrepancy is extra unreferenced non-sample input-root nodes under reduce_to_site_topology + "
        "keep_input_roots + filter_nodes",
    ],
    technique="property-based testing (Hypothesis) + bounded exhaustive enumeration against a "
    "positional retained-set oracle",
    engines=["hypothesis-runner"],
    exhaustive_subchecks=["C04.exhaustive_small"],
)

FLAGS = ["keep_input_roots", "filter_nodes", "filter_sites", "filter_individuals",
         "filter_populations", "update_sample_flags", "reduce_to_site_topology"]
DEFAULTS = dict(keep_unary=False, keep_unary_in_individuals=False, keep_input_roots=False,
                filter_nodes=True, filter_sites=True, filter_individuals=True,
                filter_populations=True, update_sample_flags=True, reduce_to_site_topology=False)
NOPT = 3 * 2 ** len(FLAGS)


def decode_opts(k):
    u = k % 3
    k //= 3
    o = dict(keep_unary=(u == 1), keep_unary_in_individuals=(u == 2))
    for name in FLAGS:
        o[name] = (not DEFAULTS[name]) if (k & 1) else DEFAULTS[name]
        k >>= 1
    return o


NO_FILTER_OPTS = [k for k in range(NOPT) if not any(decode_opts(k)[f] for f in (
    "filter_nodes", "filter_sites", "filter_individuals", "filter_populations"))]


def simplify_kwargs(opts, explicit):
    """Keyword arguments for the public API; defaults are omitted unless `explicit`."""
    kw = {}
    for name, v in opts.items():
        if v != DEFAULTS[name] or explicit:
            kw[name] = v
    return kw


# ------------------------------------------------------------------ positional oracle
def analyse(spec, S, opts, x):
    """(par, inA, chA, R, expp) at position x.  inA[u]: a chosen sample is at/below u;
    chA[u]: children of u in A; R: retained set; expp[v]: nearest strict ancestor of v in R."""
    n = len(spec["nodes"])
    par = model.parent_at(spec, x)
    inA = [False] * n
    for s in S:
        v = s
        while v >= 0 and not inA[v]:
            inA[v] = True
            v = par[v]
    chA = [[] for _ in range(n)]
    for u in range(n):
        if inA[u] and par[u] >= 0:
            chA[par[u]].append(u)
    inS = set(S)
    R = set()
    for u in range(n):
        if not inA[u]:
            continue
        k = len(chA[u])
        if u in inS or k >= 2:
            R.add(u)
        elif k == 1 and (opts["keep_unary"]
                         or (opts["keep_unary_in_individuals"] and spec["nodes"][u][3] != -1)):
            R.add(u)
        elif par[u] < 0 and opts["keep_input_roots"]:
            R.add(u)
    expp = {}
    for v in R:
        p = par[v]
        while p >= 0 and p not in R:
            p = par[p]
        expp[v] = p
    return par, inA, chA, R, expp


def carrier(u, R, chA):
    """First retained node met when descending from u in A along the unique chain of A-children."""
    v = u
    while v not in R:
        if len(chA[v]) != 1:
            raise AssertionError("model invariant: non-retained node of A without a unique A-child")
        v = chA[v][0]
    return v


def out_edges_at(ospec, x):
    return {(e[2], e[3]) for e in ospec["edges"] if F(e[0]) <= x < F(e[1])}


def check_simplify(ctx, tskit, spec, tables, samples, opts, explicit=True, via="ts",
                   as_array=False, record_provenance=False, tskit_genotypes=True, W="simplify"):
    """Run simplify on `tables` (built from `spec`) and compare everything with the model."""
    import numpy as np

    n = len(spec["nodes"])
    L = F(spec["L"])
    S = model.samples(spec) if samples is None else list(samples)
    kw = simplify_kwargs(opts, explicit)
    arg = None if samples is None else (np.array(samples, dtype=np.int32) if as_array else list(samples))
    nprov = tables.provenances.num_rows
    ts_in = None
    if via == "ts":
        ts_in = tables.tree_sequence()
        ots, M = ts_in.simplify(arg, map_nodes=True, record_provenance=record_provenance, **kw)
        out = ots.dump_tables()
    else:
        out = tables.copy()
        M = out.simplify(arg, record_provenance=record_provenance, **kw)
        ots = out.tree_sequence()  # output must be a valid tree sequence
    ctx.check(out.provenances.num_rows == nprov + (1 if record_provenance else 0), W + ".provenance",
              f"{out.provenances.num_rows} provenance rows, had {nprov}, record={record_provenance}")
    M = [int(v) for v in M]
    ctx.check(len(M) == n, W + ".node_map", f"length {len(M)} expected {n}")
    ospec = gen.spec_from_tables(out, tskit)
    on = len(ospec["nodes"])
    ctx.check(ospec["L"] == L, W, "sequence_length changed")
    ctx.check(out.time_units == tables.time_units, W, "time_units changed")
    ctx.check(not ospec["migrations"], W, "migrations in output")

    # ---------------- expected forests
    reduce_ = opts["reduce_to_site_topology"]
    site_pos = [F(s[0]) for s in spec["sites"]]
    ibps = model.breakpoints(spec)
    obps = model.breakpoints(ospec)
    if reduce_:
        xs = sorted(set(site_pos))
    else:
        xs = sorted((set(ibps) | set(obps)) - {L})
    ctx.check(all(0 <= b <= L for b in obps), W, "output edge coordinate outside [0, L]")
    ana = {}
    for x in set(xs) | set(site_pos):
        ana[x] = analyse(spec, S, opts, x)
    exp_nodes = set(S)
    for x in xs:
        exp_nodes.update(p for p in ana[x][4].values() if p >= 0)

    # ---------------- node map and node rows
    deferred = None
    kept = [v for v in range(n) if M[v] != -1]
    if opts["filter_nodes"]:
        ctx.check(all(0 <= M[v] < on for v in kept), W + ".node_map", f"value out of range: {M} ({on} output nodes)")
        ctx.check(len({M[v] for v in kept}) == len(kept), W + ".node_map", f"not injective: {M}")
        ctx.check(len(kept) == on, W + ".node_map", f"{on} output nodes but {len(kept)} mapped: {M}")
        for k, s in enumerate(S):
            ctx.check(M[s] == k, W + ".node_map", f"samples[{k}]={s} mapped to {M[s]}: {M}")
        if set(kept) != exp_nodes:
            detail = f"retained input nodes {kept} expected {sorted(exp_nodes)} (S={S}, opts={kw})"
            extra = set(kept) - exp_nodes
            refd = {e[2] for e in ospec["edges"]} | {e[3] for e in ospec["edges"]}
            roots_somewhere = set()
            for a in ibps[:-1]:
                par_a, inA_a = analyse(spec, S, opts, a)[:2]
                roots_somewhere.update(v for v in range(n) if inA_a[v] and par_a[v] < 0)
            if (reduce_ and opts["keep_input_roots"] and exp_nodes <= set(kept)
                    and all(M[v] not in refd and v in roots_somewhere for v in extra)):
                # narrow class: input roots over site-free regions survive as unreferenced nodes
                deferred = (W + ".node_set.unreferenced_input_root", detail)
            else:
                ctx.fail(W + ".node_set", detail)
    else:
        ctx.check(M == list(range(n)), W + ".node_map", f"not the identity with filter_nodes=False: {M}")
        ctx.check(on == n, W + ".node_map", "node table length changed with filter_nodes=False")
    ctx.label("nodes_removed", on < n)
    inS = set(S)
    # individuals / populations expected to survive
    ref_ind = sorted({spec["nodes"][v][3] for v in kept if spec["nodes"][v][3] != -1})
    ref_pop = sorted({spec["nodes"][v][2] for v in kept if spec["nodes"][v][2] != -1})
    nind, npop = len(spec["individuals"]), len(spec["populations"])
    if opts["filter_individuals"]:
        imap = {j: k for k, j in enumerate(ref_ind)}
    else:
        imap = {j: j for j in range(nind)}
    if opts["filter_populations"]:
        pmap = {j: k for k, j in enumerate(ref_pop)}
    else:
        pmap = {j: j for j in range(npop)}
    imap[-1] = -1
    pmap[-1] = -1
    for v in kept:
        fl, tm, pop, ind, md = spec["nodes"][v]
        efl = ((fl & ~1) | (1 if v in inS else 0)) if opts["update_sample_flags"] else fl
        got = ospec["nodes"][M[v]]
        ctx.check(got == [efl, tm, pmap[pop], imap[ind], md], W + ".node_row",
                  lambda: f"input node {v} -> {M[v]}: {got} expected {[efl, tm, pmap[pop], imap[ind], md]}")
    # individuals
    if opts["filter_individuals"]:
        exp_inds = [[r[0], r[1], [imap.get(p, -1) for p in r[2]], r[3]]
                    for j, r in enumerate(spec["individuals"]) if j in imap]
    else:
        exp_inds = spec["individuals"]
    ctx.check(ospec["individuals"] == exp_inds, W + ".individuals",
              lambda: f"{ospec['individuals']} expected {exp_inds} (filter={opts['filter_individuals']})")
    exp_pops = [r for j, r in enumerate(spec["populations"]) if j in pmap]
    ctx.check(ospec["populations"] == exp_pops, W + ".populations",
              lambda: f"{ospec['populations']} expected {exp_pops} (filter={opts['filter_populations']})")
    ctx.label("individual_dropped", len(exp_inds) < nind)
    ctx.label("population_dropped", len(exp_pops) < npop)
    ctx.label("individual_parent_cut",
              opts["filter_individuals"] and any(p != -1 and p not in imap for j, r in enumerate(spec["individuals"])
                                                 if j in imap for p in r[2]))

    # ---------------- topology at every compared position
    unary_kept = root_kept = False
    for x in xs:
        par, inA, chA, R, expp = ana[x]
        exp_edges = {(M[p], M[v]) for v, p in expp.items() if p >= 0}
        got_edges = out_edges_at(ospec, x)
        ctx.check(got_edges == exp_edges, W + ".topology",
                  lambda: f"at x={x}: output (parent, child) pairs {sorted(got_edges)} expected {sorted(exp_edges)};"
                  f" R_x={sorted(R)} S={S} map={M} opts={kw}")
        for u in R:
            if u not in inS and len(chA[u]) == 1:
                if par[u] < 0 and opts["keep_input_roots"]:
                    root_kept = True
                else:
                    unary_kept = True
    ctx.label("unary_kept", unary_kept)
    ctx.label("input_root_kept", root_kept)
    if reduce_:
        allowed = {0.0, L} | set(site_pos)
        bad = [e for e in ospec["edges"] if F(e[0]) not in allowed or F(e[1]) not in allowed]
        ctx.check(not bad, W + ".reduce", lambda: f"edge ends not at 0/L/site positions: {bad} sites {site_pos}")
        if not site_pos:
            ctx.check(not ospec["edges"], W + ".reduce", "zero sites but edges in the output")
        else:
            for a, b in zip(obps[:-1], obps[1:]):
                ctx.check(any(a <= p < b for p in site_pos), W + ".reduce",
                          f"output tree [{a},{b}) contains no site; sites {site_pos}")
        ctx.check(ots.num_trees == len(obps) - 1, W + ".reduce", "num_trees vs edge breakpoints")

    # ---------------- mutations and sites
    exp_muts = []
    mmap = {-1: -1}
    keep_site = [False] * len(spec["sites"])
    remapped = False
    for j, m in enumerate(spec["mutations"]):
        site, u = m[0], m[1]
        par, inA, chA, R, expp = ana[site_pos[site]]
        if not inA[u]:
            continue
        w = carrier(u, R, chA)
        remapped = remapped or w != u
        mmap[j] = len(exp_muts)
        keep_site[site] = True
        exp_muts.append([site, M[w], m[2], m[3], m[4], m[5]])
    if opts["filter_sites"]:
        smap = {}
        for j, k in enumerate(keep_site):
            if k:
                smap[j] = len(smap)
    else:
        smap = {j: j for j in range(len(spec["sites"]))}
    exp_sites = [s for j, s in enumerate(spec["sites"]) if j in smap]
    ctx.check(ospec["sites"] == exp_sites, W + ".sites",
              lambda: f"{ospec['sites']} expected {exp_sites} (filter_sites={opts['filter_sites']})")
    for r in exp_muts:
        ctx.check(r[3] in mmap, W + ".model", "parent of a retained mutation is not retained")
        r[0] = smap[r[0]]
        r[3] = mmap[r[3]]
    ctx.check(ospec["mutations"] == exp_muts, W + ".mutations",
              lambda: f"{ospec['mutations']} expected {exp_muts}; S={S} map={M} opts={kw}")
    ctx.check([r[3] for r in ospec["mutations"]] == model.mutation_parents(ospec), W + ".mutation_parent",
              "output mutation parents are not the nearest mutation above in the output trees")
    ctx.label("mutation_moved", remapped)
    ctx.label("mutation_dropped", len(exp_muts) < len(spec["mutations"]))
    ctx.label("mutation_kept", bool(exp_muts))
    ctx.label("site_dropped", len(exp_sites) < len(spec["sites"]))

    # ---------------- genotypes of the chosen samples
    for j, s in enumerate(spec["sites"]):
        par = ana[site_pos[j]][0]
        before = [model.allele_at(spec, j, v, par) for v in S]
        if j in smap:
            after = [model.allele_at(ospec, smap[j], M[v]) for v in S]
            ctx.check(before == after, W + ".genotypes",
                      lambda: f"site {j} (pos {s[0]}): alleles of {S} before {before} after {after}")
        else:
            ctx.check(all(a == s[1] for a in before), W + ".genotypes",
                      f"site {j} removed although a chosen sample carries a derived allele: {before}")
    if tskit_genotypes and S and spec["sites"]:
        if ts_in is None:
            ts_in = tables.tree_sequence()
        gin = {v.site.id: [v.alleles[g] for g in v.genotypes]
               for v in ts_in.variants(samples=S, isolated_as_missing=False)}
        gout = {v.site.id: [v.alleles[g] for g in v.genotypes]
                for v in ots.variants(samples=[M[v] for v in S], isolated_as_missing=False)}
        ctx.check(gout == {smap[j]: g for j, g in gin.items() if j in smap}, W + ".tskit_genotypes",
                  lambda: f"before {gin} after {gout} site map {smap}")

    # ---------------- idempotence
    dropped_site = len(exp_sites) < len(spec["sites"])
    if deferred is not None:
        # everything else about this output was checked above; its re-simplification would only
        # show the consequence of the same defect (the extra node disappears), so stop here
        ctx.fail(*deferred)
    elif not (reduce_ and dropped_site):
        t2 = out.copy()
        M2 = t2.simplify([M[v] for v in S], record_provenance=False, **kw)
        ctx.check([int(v) for v in M2] == list(range(on)), W + ".idempotence",
                  f"second simplify node map {list(M2)} is not the identity")
        spec2 = gen.spec_from_tables(t2, tskit)
        ctx.check(spec2 == ospec, W + ".idempotence",
                  lambda: f"second simplify changed the tables: {_diff(ospec, spec2)} opts={kw}")
        ctx.check(t2.equals(out, ignore_provenance=True), W + ".idempotence", "tables not byte-identical")
    else:
        ctx.label("reduce_resimplify_skipped")
    return dict(out=out, ospec=ospec, M=M, on=on, S=S)


def _diff(a, b):
    return {k: (a[k], b[k]) for k in a if a[k] != b.get(k)}


# ------------------------------------------------------------------ random sub-check
def strip_edge_metadata(spec):
    spec = dict(spec)
    spec["edges"] = [e[:4] + [""] for e in spec["edges"]]
    return spec


@st.composite
def sample_list(draw, spec):
    n = len(spec["nodes"])
    flagged = model.samples(spec)
    mode = draw(st.sampled_from(["none", "none", "perm", "subset", "any", "any", "any", "single", "empty"]))
    if mode == "none":
        return mode, None
    if mode == "perm":
        return mode, list(draw(st.permutations(flagged)))
    if mode == "subset":
        return mode, [u for u in draw(st.permutations(flagged)) if draw(st.booleans())]
    if mode == "any":
        return mode, [u for u in draw(st.permutations(list(range(n)))) if draw(st.integers(0, 2)) > 0]
    if mode == "single":
        return mode, [draw(st.integers(0, n - 1))]
    return mode, []


def densify_mutations(draw, spec):
    """Add mutations on a drawn subset of nodes at every site (only when all mutation times are
    unknown): pass-through nodes then carry mutations that simplify has to move down."""
    n = len(spec["nodes"])
    spec = dict(spec)
    muts = []
    for j in range(len(spec["sites"])):
        rows = [m for m in spec["mutations"] if m[0] == j]
        for u in range(n):
            if draw(st.integers(0, 2)) == 0:
                rows.append([j, u, draw(st.sampled_from(["A", "C", "G", "T", "", "indel"])), -1, None, ""])
        rows.sort(key=lambda m: -F(spec["nodes"][m[1]][1]))  # stable: ancestors first
        muts += rows
    spec["mutations"] = [list(m) for m in muts]
    for m, p in zip(spec["mutations"], model.mutation_parents(spec)):
        m[3] = p
    return spec


@st.composite
def simplify_case(draw):
    spec = strip_edge_metadata(draw(gen.ts_spec(max_nodes=10, min_nodes=draw(st.sampled_from([1, 3, 5])),
                                                migrations=False)))
    if spec["sites"] and all(m[4] is None for m in spec["mutations"]) and draw(st.booleans()):
        spec = densify_mutations(draw, spec)
    mode, samples = draw(sample_list(spec))
    ks = draw(st.lists(st.integers(0, NOPT - 1), min_size=1, max_size=3))
    if draw(st.integers(0, 3)) == 0:
        # nothing filtered at all (one draw in four; a uniform draw gives it 1/16 of the time)
        ks = [draw(st.sampled_from(NO_FILTER_OPTS))] + ks[:2]
    return dict(spec=spec, mode=mode, samples=samples, ks=ks, explicit=draw(st.booleans()),
                via=draw(st.sampled_from(["ts", "tables"])), as_array=draw(st.booleans()),
                prov=draw(st.booleans()))


def has_internal(spec, S):
    parents = {e[2] for e in spec["edges"]}
    return any(s in parents for s in S)


def run_simplify(case, ctx):
    import tskit

    spec = case["spec"]
    labs = gen.spec_labels(spec, model)
    for l in labs:
        ctx.label(l)
    tables = gen.build_tables(spec, tskit)
    samples = case["samples"]
    S = model.samples(spec) if samples is None else samples
    ctx.label("samples:" + case["mode"])
    internal = ctx.label("internal_in_S", has_internal(spec, S))
    ctx.label("nonsample_in_S", any(not model.is_sample(spec, s) for s in S))
    ctx.label("via:" + case["via"])
    ctx.label("defaults_omitted", not case["explicit"])
    pending = None
    for k in case["ks"]:
        opts = decode_opts(k)
        for name, v in opts.items():
            ctx.label("opt:" + name + "=" + str(v)[0], v != DEFAULTS[name])
        ctx.label("opt:all_default", k == 0)
        ctx.label("opt:nothing_filtered", k in NO_FILTER_OPTS)
        try:
            res = check_simplify(ctx, tskit, spec, tables, samples, opts, explicit=case["explicit"],
                                 via=case["via"], as_array=case["as_array"], record_provenance=case["prov"])
        except PropertyViolation as e:
            # an instance of the open finding must not hide the remaining option sets of the case
            if classify(case, e) is None:
                raise
            pending = pending or e
            continue
        ctx.nt((res["on"] < len(spec["nodes"]) and "multi_tree" in labs) or k != 0 or internal)
    if pending is not None:
        raise pending


# ------------------------------------------------------------------ larger shapes (segment queues etc.)
def enum_large(tier, seed):
    sizes = [65, 130] if tier == "quick" else [64, 65, 129, 130, 260, 520]
    for sa, sb in (("comb", "balanced"), ("balanced", "star"), ("star", "comb"), ("multiroot", "balanced")):
        for k in sizes:
            for mode in ("all", "half", "few"):
                for kopt in (0, 1, 3 * 1, 3 * 2):  # defaults, keep_unary, keep_input_roots-ish bit patterns
                    yield dict(sa=sa, sb=sb, k=k, mode=mode, kopt=kopt)
    # two parents with more than 341 children each (per-parent interval buffers spill into a second block)
    for k in ([800] if tier == "quick" else [684, 686, 800, 1400]):
        for sb in ("twostar", "star"):
            for mode in ("all", "half"):
                yield dict(sa="twostar", sb=sb, k=k, mode=mode, kopt=0)
    for k in ([700] if tier == "quick" else [684, 700, 1000]):
        for kopt in (0, 1):
            yield dict(stagger=k, kopt=kopt)
    # few edges above, thousands of ancestry segments below: alternating unary nodes, many-tree sequences
    for B in ([520, 1100] if tier == "quick" else [511, 512, 520, 1030, 1100, 2100, 4200]):
        for kopt in (0, 1, 3):
            yield dict(alternating=B, kopt=kopt)
    for T in ([600] if tier == "quick" else [340, 600, 1100]):
        for variant in (0, 1):
            yield dict(many_trees=T, variant=variant, kopt=0)


def run_large(case, ctx):
    """Trees with 65-520 samples on two intervals: more lineages through one node than the simplifier's
    initial queue sizes; same positional oracle as C04.simplify."""
    import tskit

    from ._shapes import staggered_twostar, two_tree_spec

    ctx.nt(True)
    if "stagger" in case:
        spec = staggered_twostar(case["stagger"])
        tables = gen.build_tables(spec, tskit)
        check_simplify(ctx, tskit, spec, tables, None, decode_opts(case["kopt"]), explicit=True, via="ts",
                       tskit_genotypes=False)
        return
    if "alternating" in case or "many_trees" in case:
        from ._shapes import alternating_unary_spec

        if "alternating" in case:
            spec = alternating_unary_spec(case["alternating"])
        else:
            from .c01 import many_trees_spec

            spec = many_trees_spec(case["many_trees"], case["variant"])
        ctx.label("shape:" + ("alternating" if "alternating" in case else "many_trees"))
        tables = gen.build_tables(spec, tskit)
        check_simplify(ctx, tskit, spec, tables, None, decode_opts(case["kopt"]), explicit=True, via="ts")
        return
    k = case["k"]
    spec = two_tree_spec(case["sa"], case["sb"], k, internal_samples=(k % 2 == 0))
    tables = gen.build_tables(spec, tskit)
    if case["mode"] == "all":
        samples = None
    elif case["mode"] == "half":
        samples = list(range(0, k, 2))
    else:
        samples = [0, k // 3, k - 1]
    ctx.nt(True)
    ctx.label("shape:" + case["sa"] + "+" + case["sb"])
    check_simplify(ctx, tskit, spec, tables, samples, decode_opts(case["kopt"]), explicit=True, via="ts")


# ------------------------------------------------------------------ documented refusals
@st.composite
def refusal_case(draw):
    spec = strip_edge_metadata(draw(gen.ts_spec(max_nodes=6, migrations=False, min_nodes=2)))
    n = len(spec["nodes"])
    kind = draw(st.sampled_from(["duplicate", "out_of_range", "negative", "both_unary", "migrations", "edge_metadata"]))
    samples = list(draw(st.lists(st.integers(0, n - 1), unique=True, min_size=1, max_size=n)))
    pos = draw(st.integers(0, len(samples)))
    return dict(spec=spec, kind=kind, samples=samples, pos=pos, k=draw(st.integers(0, NOPT - 1)),
                via=draw(st.sampled_from(["ts", "tables"])))


def run_refusal(case, ctx):
    import tskit

    spec, kind = case["spec"], case["kind"]
    n = len(spec["nodes"])
    samples = list(case["samples"])
    opts = decode_opts(case["k"])
    ctx.label("kind:" + kind)
    tables = gen.build_tables(spec, tskit)
    if kind == "duplicate":
        samples.insert(case["pos"], samples[case["pos"] % len(samples)])
    elif kind == "out_of_range":
        samples.insert(case["pos"], n)
    elif kind == "negative":
        samples.insert(case["pos"], -1)
    elif kind == "both_unary":
        opts["keep_unary"] = opts["keep_unary_in_individuals"] = True
    elif kind == "edge_metadata":
        # simplify cannot carry edge metadata and must refuse rather than drop it silently
        # (TSK_ERR_CANT_PROCESS_EDGES_WITH_METADATA); needs >= 1 edge
        if tables.edges.num_rows == 0:
            ctx.label("kind:edge_metadata(no edges)")
            return
        j = case["pos"] % tables.edges.num_rows
        tables.edges[j] = tables.edges[j].replace(metadata=b"md")
    else:
        if tables.populations.num_rows == 0:
            tables.populations.add_row()
        u = case["pos"] % n
        tables.migrations.add_row(0, tables.sequence_length, u, 0, 0, F(spec["nodes"][u][1]))
    ctx.nt(True)
    before = gen.spec_from_tables(tables, tskit)
    if case["via"] == "ts":
        ts = tables.tree_sequence()
        call = lambda: ts.simplify(samples, map_nodes=True, **opts)  # noqa: E731
    else:
        t = tables.copy()
        call = lambda: t.simplify(samples, **opts)  # noqa: E731
    try:
        call()
    except tskit.LibraryError:
        pass
    else:
        ctx.fail("refusal", f"simplify accepted {kind}: samples={samples} n={n} opts={opts}")
    if case["via"] == "ts":
        ctx.check(gen.spec_from_tables(ts.dump_tables(), tskit) == before, "refusal",
                  "tree sequence changed by a failed simplify")


# ------------------------------------------------------------------ exhaustive small scope
def _forests(n):
    return list(itertools.product(*[[-1] + list(range(u + 1, n)) for u in range(n)]))


def enum_small(tier, seed):
    """All forests on n nodes (time = id) x 1..2 intervals; one site per interval with one mutation
    on every node (ancestors first).  run_small loops over all sample subsets x 24 option sets."""
    plan = [(1, 1), (2, 1), (2, 2), (3, 1), (3, 2), (4, 1)]
    if tier != "quick":
        plan += [(4, 2), (5, 1)]
    for n, nint in plan:
        forests = _forests(n)
        bps = [0.0, 1.0, 2.0][: nint + 1]
        for fs in itertools.product(forests, repeat=nint):
            if nint == 2 and fs[0] == fs[1]:
                continue
            edges = []
            for u in range(n):
                i = 0
                while i < nint:
                    p = fs[i][u]
                    if p < 0:
                        i += 1
                        continue
                    j = i
                    while j + 1 < nint and fs[j + 1][u] == p:
                        j += 1
                    edges.append([bps[i], bps[j + 1], p, u, ""])
                    i = j + 1
            edges.sort(key=lambda e: (e[2], e[3], e[0]))
            # variant 0: a site in every interval; variant 1 (two intervals): a site in the first
            # interval only, run with the reduce_to_site_topology option sets
            for variant in range(nint):
                sites, muts = [], []
                for i in range(nint - variant):
                    sites.append([bps[i] + 0.5, "a", ""])
                    for u in range(n - 1, -1, -1):
                        muts.append([i, u, "m%d" % u, -1, None, ""])
                spec = dict(L=bps[-1], nodes=[[0, float(u), -1, (0 if u % 2 else -1), ""] for u in range(n)],
                            edges=edges, sites=sites, mutations=muts,
                            individuals=[[0, [], [], ""]], populations=[], migrations=[])
                mp = model.mutation_parents(spec)
                for j, m in enumerate(muts):
                    m[3] = mp[j]
                yield dict(spec=spec, reduce_only=bool(variant))


SMALL_OPTS = [k for k in range(NOPT)
              if all(decode_opts(k)[f] == DEFAULTS[f]
                     for f in ("filter_sites", "filter_individuals", "filter_populations", "update_sample_flags"))]


def run_small(case, ctx):
    import tskit

    spec = case["spec"]
    n = len(spec["nodes"])
    ctx.nt(n >= 2)
    tables = gen.build_tables(spec, tskit)
    pending = None
    for r in range(n + 1):
        for S in itertools.combinations(range(n), r):
            S = list(S)
            if len(S) >= 2 and (len(S) + S[0]) % 2:
                S = S[::-1]
            for k in SMALL_OPTS:
                if case.get("reduce_only") and not decode_opts(k)["reduce_to_site_topology"]:
                    continue
                try:
                    check_simplify(ctx, tskit, spec, tables, S, decode_opts(k), via="tables",
                                   tskit_genotypes=False)
                except PropertyViolation as e:
                    # an instance of the open finding must not hide the remaining combinations
                    if classify(case, e) is None:
                        raise
                    pending = pending or e
    if pending is not None:
        raise pending


KEY_ROOT = "simplify.reduce_keep_input_roots_unreferenced_node"


def classify(case, exc):
    """Narrow class: reduce_to_site_topology + keep_input_roots + filter_nodes leave an input root
    whose remaining ancestry covers no site in the node table although no edge references it."""
    if getattr(exc, "what", "").endswith(".node_set.unreferenced_input_root"):
        return KEY_ROOT
    return None


_PROBE_SPEC = dict(
    L=1.0,
    nodes=[[1, 0.0, -1, -1, ""], [1, 0.0, -1, -1, ""], [0, 1.0, -1, -1, ""]],
    edges=[[0.0, 1.0, 2, 0, ""], [0.0, 1.0, 2, 1, ""]],
    sites=[], mutations=[], individuals=[], populations=[], migrations=[])
PROBES = {
    KEY_ROOT: ("C04.simplify", dict(spec=_PROBE_SPEC, mode="none", samples=None, ks=[3 + 3 * 64],
                                    explicit=True, via="tables", as_array=False, prov=False)),
}

NT = ("output has fewer nodes than the input and the input has >=2 trees, or an option differs from its "
      "default, or the chosen samples include a node that is a parent somewhere")
SUBCHECKS = [
    SubCheck("C04.simplify", run_simplify, strategy=simplify_case, quick=20000, thorough=600000, rule=NT,
             classify=classify,
             floors={"multi_tree": 0.25, "nodes_removed": 0.3, "internal_in_S": 0.2, "nonsample_in_S": 0.08,
                     "mutation_moved": 0.03, "mutation_dropped": 0.15, "mutation_kept": 0.2,
                     "site_dropped": 0.15, "individual_dropped": 0.15, "population_dropped": 0.1,
                     "individual_parent_cut": 0.03, "unary_kept": 0.07, "input_root_kept": 0.06,
                     "samples:empty": 0.02, "samples:single": 0.03, "samples:perm": 0.05,
                     "samples:any": 0.1, "via:tables": 0.15, "defaults_omitted": 0.25,
                     "opt:all_default": 0.08, "opt:nothing_filtered": 0.2, "opt:keep_unary=T": 0.2,
                     "opt:keep_unary_in_individuals=T": 0.2, "opt:keep_input_roots=T": 0.2,
                     "opt:filter_nodes=F": 0.2, "opt:filter_sites=F": 0.2, "opt:filter_individuals=F": 0.2,
                     "opt:filter_populations=F": 0.2, "opt:update_sample_flags=F": 0.2,
                     "opt:reduce_to_site_topology=T": 0.2}),
    SubCheck("C04.large_shapes", run_large, enumerate=enum_large, quick=1, thorough=1, classify=classify,
             rule="two-interval tree sequences (comb/balanced/star/multi-root) with 65-130 (thorough: up to 520) samples x "
                  "sample lists all/half/three x four option sets"),
    SubCheck("C04.refusals", run_refusal, strategy=refusal_case, quick=600, thorough=12000,
             rule="every case: duplicate / out-of-range sample ids, both keep_unary options, a migration row, or"
             " an edge with metadata must raise LibraryError",
             floors={"kind:edge_metadata": 0.02, "kind:migrations": 0.02, "kind:duplicate": 0.02}),
    SubCheck("C04.exhaustive_small", run_small, enumerate=enum_small, quick=1, thorough=1,
             rule="every forest on <=3 nodes x <=2 intervals and 4 nodes x 1 interval (thorough: also 4 nodes x"
             " 2 intervals and 5 nodes x 1 interval) x every"
             " sample subset x 24 topology option sets, a mutation on every node at one site per interval"
             " (two intervals: also with a site in the first interval only, reduce_to_site_topology sets); n>=2",
             classify=classify),
]
