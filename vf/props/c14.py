"""C14 — subset and union retain exactly the referenced data and invert each other.

subset: the output rows are recomputed from the raw input rows (nodes in list order, edges with
both ends listed, mutations on listed nodes, referenced sites / individuals / populations, all
references remapped).  union: the output is recomputed from the raw rows of `self` and `other`
(self + everything of other that involves a node mapped to NULL), and for a two-part cover
A=subset(S+X), B=subset(S+Y) of one tree sequence the union must canonicalise to the same bytes as
the original in the same node order.
"""
from hypothesis import strategies as st

from .. import gen, model
from ..core import SubCheck
from ..gen import F

META = dict(
    level="exploration",
    rule="subset: valid tree sequences without migrations (vf/gen.py ts_spec, edge metadata kept) x node "
    "lists (identity, permutation, ordered/unordered sub-list, single, empty) x reorder_populations x "
    "remove_unreferenced (given or omitted) x TreeSequence/TableCollection entry point; every output "
    "table is recomputed row by row from the input rows. union: a shared node set S (arbitrary, "
    "ancestor-closed, empty or everything), the other nodes split into X and Y along connected "
    "components of the edge graph without S (nodes sharing an individual stay together, individual "
    "parent links that cannot survive the split are removed at generation time), A=subset(S+X) and "
    "B=subset(S+Y) in drawn node orders, optionally one row of the shared part edited on one side (or two "
    "shared nodes of different age exchanged in the node mapping), x "
    "check_shared_equality x add_populations; the result is recomputed from the rows of A and B, "
    "refusal is required exactly when the shared part was edited and the check is on, `other` must be "
    "unchanged, and without an edit (add_populations=False, populations not reordered) "
    "canonicalise(union) must equal canonicalise(original.subset(same node order)) byte for byte.",
    assumptions=[
        "reference model vf/model.py (mutation_parents) and the row-level recomputation in this module",
        "size bounds: <=9 nodes, <=4 elementary intervals, <=5 sites",
        "no migrations (subset and union raise the documented error; asserted by C14.refusals)",
        "node lists without duplicates",
        "order of the individual table after subset is compared up to the id bijection induced by the "
        "node references (documentation and implementation disagree on it); rows appended by union are "
        "identified through the references of the new nodes",
        "individual parent links form no cycle in union cases (canonicalise refuses pedigree cycles)",
        "open finding union.unknown_mutation_times_parent_after_child is excluded only when union raises "
        "TSK_ERR_MUTATION_PARENT_AFTER_CHILD and the case has an unknown-time mutation on a node of self "
        "whose parent mutation sits on a node contributed only by other (label predicted:parent_after_child)",
        "mutation order inside a site after union is compared as a multiset plus validity of the result "
        "and equality of the mutation parents with the positional model",
    ],
    technique="property-based testing (Hypothesis) against a row-level recomputation oracle",
    engines=["hypothesis-runner"],
)


# ------------------------------------------------------------------ subset oracle
def _edge_key(e):
    return (F(e[0]), F(e[1]), e[2], e[3], e[4])


def individual_bijection(ctx, spec, ospec, pairs, keep_all, W):
    """old individual id -> new id, induced by (old node, new node) pairs; unreferenced individuals
    (when kept) are matched in their original relative order."""
    no = len(ospec["individuals"])
    imap = {}
    for u, k in pairs:
        i, j = spec["nodes"][u][3], ospec["nodes"][k][3]
        if i == -1:
            ctx.check(j == -1, W + ".node_individual", f"node {u}->{k}: individual -1 became {j}")
            continue
        ctx.check(0 <= j < no, W + ".node_individual", f"node {u}->{k}: individual {i} became {j} ({no} rows)")
        ctx.check(imap.setdefault(i, j) == j, W + ".node_individual",
                  f"individual {i} mapped to both {imap[i]} and {j}")
    ctx.check(len(set(imap.values())) == len(imap), W + ".node_individual", f"individual map not injective: {imap}")
    if keep_all:
        rest_old = [i for i in range(len(spec["individuals"])) if i not in imap]
        used = set(imap.values())
        rest_new = [j for j in range(no) if j not in used]
        ctx.check(len(rest_old) == len(rest_new), W + ".individuals",
                  f"{no} individuals in the output, expected {len(imap) + len(rest_old)}")
        imap.update(zip(rest_old, rest_new))
    ctx.check(no == len(imap), W + ".individuals", f"{no} individuals in the output, expected {len(imap)}")
    return imap


def check_subset(ctx, spec, ospec, nodes, reorder, remove_unref, W="subset"):
    """ospec must be exactly the subset of spec on `nodes` (a list without duplicates)."""
    n = len(spec["nodes"])
    nmap = {u: k for k, u in enumerate(nodes)}
    ctx.check(len(ospec["nodes"]) == len(nodes), W + ".nodes", f"{len(ospec['nodes'])} rows for {len(nodes)} listed")
    ctx.check(ospec["L"] == F(spec["L"]), W, "sequence length changed")
    # populations
    npop = len(spec["populations"])
    if reorder:
        order = []
        for u in nodes:
            p = spec["nodes"][u][2]
            if p != -1 and p not in order:
                order.append(p)
        if not remove_unref:
            order += [p for p in range(npop) if p not in order]
    else:
        order = list(range(npop))
    pmap = {p: k for k, p in enumerate(order)}
    pmap[-1] = -1
    exp_pops = [spec["populations"][p] for p in order]
    ctx.check(ospec["populations"] == exp_pops, W + ".populations",
              lambda: f"{ospec['populations']} expected {exp_pops} (reorder={reorder}, remove_unreferenced={remove_unref})")
    # individuals
    imap = individual_bijection(ctx, spec, ospec, [(u, k) for k, u in enumerate(nodes)], not remove_unref, W)
    for i, j in imap.items():
        r = spec["individuals"][i]
        exp = [r[0], r[1], [(-1 if p == -1 else imap[p]) for p in r[2] if p == -1 or p in imap], r[3]]
        ctx.check(ospec["individuals"][j] == exp, W + ".individuals",
                  lambda: f"individual {i}->{j}: {ospec['individuals'][j]} expected {exp}")
    imap[-1] = -1
    # nodes
    for k, u in enumerate(nodes):
        fl, tm, pop, ind, md = spec["nodes"][u]
        exp = [fl, tm, pmap[pop], imap[ind], md]
        ctx.check(ospec["nodes"][k] == exp, W + ".nodes", lambda: f"node {u}->{k}: {ospec['nodes'][k]} expected {exp}")
    # edges
    exp_edges = sorted(([e[0], e[1], nmap[e[2]], nmap[e[3]], e[4]] for e in spec["edges"]
                        if e[2] in nmap and e[3] in nmap), key=_edge_key)
    got_edges = sorted(ospec["edges"], key=_edge_key)
    ctx.check(got_edges == exp_edges, W + ".edges", lambda: f"{got_edges} expected {exp_edges} (nodes={nodes})")
    # mutations and sites
    mmap = {-1: -1}
    kept = []
    for j, m in enumerate(spec["mutations"]):
        if m[1] in nmap:
            mmap[j] = len(kept)
            kept.append(j)
    used_sites = {spec["mutations"][j][0] for j in kept}
    site_ids = [s for s in range(len(spec["sites"])) if (not remove_unref) or s in used_sites]
    smap = {s: k for k, s in enumerate(site_ids)}
    exp_sites = [spec["sites"][s] for s in site_ids]
    ctx.check(ospec["sites"] == exp_sites, W + ".sites",
              lambda: f"{ospec['sites']} expected {exp_sites} (remove_unreferenced={remove_unref})")
    exp_muts = []
    for j in kept:
        s, u, d, p, tm, md = spec["mutations"][j]
        exp_muts.append([smap[s], nmap[u], d, mmap.get(p, -1), tm, md])
    ctx.check(ospec["mutations"] == exp_muts, W + ".mutations",
              lambda: f"{ospec['mutations']} expected {exp_muts} (nodes={nodes})")
    ctx.check(not ospec["migrations"], W, "migrations in the output")
    return dict(
        drop_edge=len(exp_edges) < len(spec["edges"]), drop_mut=len(kept) < len(spec["mutations"]),
        drop_site=len(exp_sites) < len(spec["sites"]), drop_pop=len(exp_pops) < npop,
        drop_ind=len(ospec["individuals"]) < len(spec["individuals"]),
        parent_cut=any(p not in mmap for j in kept for p in [spec["mutations"][j][3]]),
        ind_parent_cut=any(p != -1 and p not in imap for i in imap if i != -1 for p in spec["individuals"][i][2]),
    )


def densify_mutations(draw, spec):
    """Add mutations on a drawn subset of nodes at every site; all mutation times become either
    unknown or equal to the time of their node (which keeps every ordering requirement)."""
    n = len(spec["nodes"])
    if not spec["sites"]:
        return spec
    spec = dict(spec)
    known = draw(st.booleans())
    muts = []
    for j in range(len(spec["sites"])):
        rows = [list(m) for m in spec["mutations"] if m[0] == j]
        for u in range(n):
            if draw(st.integers(0, 2)) == 0:
                rows.append([j, u, draw(st.sampled_from(["A", "C", "G", "T", "", "indel"])), -1, None,
                             draw(st.sampled_from(["", "", "md"]))])
        rows.sort(key=lambda m: -F(spec["nodes"][m[1]][1]))  # stable: ancestors first
        muts += rows
    for m in muts:
        m[4] = spec["nodes"][m[1]][1] if known else None
    spec["mutations"] = muts
    for m, p in zip(muts, model.mutation_parents(spec)):
        m[3] = p
    return spec


@st.composite
def node_list(draw, n):
    mode = draw(st.sampled_from(["identity", "perm", "sublist", "sublist", "subset_sorted", "single", "empty"]))
    if mode == "identity":
        return mode, list(range(n))
    if mode == "perm":
        return mode, list(draw(st.permutations(list(range(n)))))
    if mode == "sublist":
        return mode, [u for u in draw(st.permutations(list(range(n)))) if draw(st.integers(0, 2)) > 0]
    if mode == "subset_sorted":
        return mode, [u for u in range(n) if draw(st.integers(0, 2)) > 0]
    if mode == "single":
        return mode, [draw(st.integers(0, n - 1))]
    return mode, []


@st.composite
def subset_case(draw):
    spec = draw(gen.ts_spec(max_nodes=9, min_nodes=draw(st.sampled_from([1, 3, 5])), migrations=False))
    if draw(st.booleans()):
        spec = densify_mutations(draw, spec)
    mode, nodes = draw(node_list(len(spec["nodes"])))
    return dict(spec=spec, mode=mode, nodes=nodes,
                reorder=draw(st.sampled_from([None, True, False])),
                remove=draw(st.sampled_from([None, True, False])),
                via=draw(st.sampled_from(["ts", "tables"])), as_array=draw(st.booleans()),
                prov=draw(st.sampled_from([None, True, False])))


def _subset_kwargs(case):
    kw = {}
    if case["reorder"] is not None:
        kw["reorder_populations"] = case["reorder"]
    if case["remove"] is not None:
        kw["remove_unreferenced"] = case["remove"]
    if case["prov"] is not None:
        kw["record_provenance"] = case["prov"]
    return kw


def run_subset(case, ctx):
    import numpy as np
    import tskit

    spec, nodes = case["spec"], case["nodes"]
    for l in gen.spec_labels(spec, model):
        ctx.label(l)
    ctx.label("nodes:" + case["mode"])
    reorder = case["reorder"] is not False
    remove = case["remove"] is not False
    ctx.label("reorder_populations=F", not reorder)
    ctx.label("remove_unreferenced=F", not remove)
    ctx.label("via:" + case["via"])
    tables = gen.build_tables(spec, tskit)
    nprov = tables.provenances.num_rows
    arg = np.array(nodes, dtype=np.int32) if case["as_array"] else list(nodes)
    kw = _subset_kwargs(case)
    if case["via"] == "ts":
        ts = tables.tree_sequence()
        out = ts.subset(arg, **kw).dump_tables()
        ctx.check(gen.spec_from_tables(ts.dump_tables(), tskit) == gen.spec_from_tables(tables, tskit),
                  "subset", "the input tree sequence changed")
    else:
        out = tables.copy()
        out.subset(arg, **kw)
        out.tree_sequence()  # sorted and valid
    ctx.check(out.provenances.num_rows == nprov + (0 if case["prov"] is False else 1), "subset.provenance",
              f"{out.provenances.num_rows} provenance rows, had {nprov}")
    ctx.check(out.metadata == tables.metadata and out.time_units == tables.time_units, "subset",
              "top-level metadata / time_units changed")
    ospec = gen.spec_from_tables(out, tskit)
    info = check_subset(ctx, spec, ospec, nodes, reorder, remove)
    for k, v in info.items():
        ctx.label(k, v)
    ctx.nt(nodes != list(range(len(spec["nodes"])))
           and (info["drop_ind"] or info["drop_site"] or info["drop_edge"] or info["drop_mut"]))


# ------------------------------------------------------------------ union
def acyclic_individuals(draw, spec):
    nind = len(spec["individuals"])
    if nind == 0:
        return spec
    rank = list(draw(st.permutations(list(range(nind)))))
    spec = dict(spec)
    spec["individuals"] = [[r[0], r[1], [p for p in r[2] if p == -1 or rank[p] < rank[j]], r[3]]
                           for j, r in enumerate(spec["individuals"])]
    return spec


def _components(spec, S):
    """Connected components of the nodes outside S: joined by an edge (over any interval) or by
    sharing an individual that no node of S refers to."""
    n = len(spec["nodes"])
    inS = set(S)
    root = list(range(n))

    def find(a):
        while root[a] != a:
            root[a] = root[root[a]]
            a = root[a]
        return a

    for e in spec["edges"]:
        if e[2] not in inS and e[3] not in inS:
            root[find(e[2])] = find(e[3])
    shared_inds = {spec["nodes"][u][3] for u in S}
    first = {}
    for u in range(n):
        i = spec["nodes"][u][3]
        if u in inS or i == -1 or i in shared_inds:
            continue
        if i in first:
            root[find(u)] = find(first[i])
        else:
            first[i] = u
    return [find(u) for u in range(n)]


@st.composite
def cover_case(draw):
    spec = draw(gen.ts_spec(max_nodes=9, min_nodes=draw(st.sampled_from([2, 4, 6])), migrations=False))
    spec = acyclic_individuals(draw, spec)
    if draw(st.integers(0, 2)) > 0:
        spec = densify_mutations(draw, spec)
    n = len(spec["nodes"])
    smode = ["separator"] * 5 + ["ancestor_closed", "ancestor_closed", "arbitrary", "empty", "all"]
    smode = smode[draw(st.integers(0, 9))]
    if smode == "separator":
        # three-way colouring; every X-Y conflict (an edge, or an individual no node of S refers to)
        # is resolved by moving a node into S
        side = [draw(st.integers(0, 2)) for _ in range(n)]  # 0: S, 1: X, 2: Y
        changed = True
        while changed:
            changed = False
            for e in spec["edges"]:
                if {side[e[2]], side[e[3]]} == {1, 2}:
                    side[e[2]] = 0
                    changed = True
            by_ind = {}
            for u in range(n):
                if spec["nodes"][u][3] != -1:
                    by_ind.setdefault(spec["nodes"][u][3], []).append(u)
            for us in by_ind.values():
                sides = {side[u] for u in us}
                if 0 not in sides and sides == {1, 2}:
                    side[us[0]] = 0
                    changed = True
        S = [u for u in range(n) if side[u] == 0]
        X = [u for u in range(n) if side[u] == 1]
        Y = [u for u in range(n) if side[u] == 2]
        inS = set(S)
    else:
        if smode == "empty":
            S = []
        elif smode == "all":
            S = list(range(n))
        else:
            S = [u for u in range(n) if draw(st.integers(0, 3)) == 0]
            if smode == "ancestor_closed":
                inS = set(S)
                changed = True
                while changed:
                    changed = False
                    for e in spec["edges"]:
                        if e[3] in inS and e[2] not in inS:
                            inS.add(e[2])
                            changed = True
                S = sorted(inS)
        comp = _components(spec, S)
        mask = draw(st.integers(0, 2 ** n - 1))
        bits = [bool((mask >> u) & 1) for u in range(n)]
        inS = set(S)
        X = [u for u in range(n) if u not in inS and bits[comp[u]]]
        Y = [u for u in range(n) if u not in inS and not bits[comp[u]]]
    permA = list(draw(st.permutations(list(range(n)))))
    permB = list(draw(st.permutations(list(range(n))))) if draw(st.booleans()) else list(range(n))
    inA = inS | set(X)
    inB = inS | set(Y)
    orderA = [u for u in permA if u in inA]
    orderB = [u for u in permB if u in inB]
    # individual parent links that cannot survive the split are removed (see module docstring)
    touchA = {spec["nodes"][u][3] for u in inA}
    touchB = {spec["nodes"][u][3] for u in inB}
    inds = []
    for i, r in enumerate(spec["individuals"]):
        if i in touchA:
            par = [p for p in r[2] if p == -1 or p in touchA]
        elif i in touchB:
            par = [p for p in r[2] if p == -1 or p in touchB]
        else:
            par = r[2]
        inds.append([r[0], r[1], par, r[3]])
    spec = dict(spec)
    spec["individuals"] = inds
    scenario = ["edited", "edited", "free", "free", "free", "inverse", "inverse", "inverse", "inverse",
                "inverse"][draw(st.integers(0, 9))]
    if scenario == "inverse":
        add_pop, reorderA, reorderB, edit = False, False, False, 0
    else:
        add_pop = draw(st.sampled_from([None, True, False]))
        reorderA = draw(st.sampled_from([False, True]))
        reorderB = draw(st.sampled_from([False, True]))
        edit = draw(st.integers(1, 8)) if scenario == "edited" else 0
    return dict(spec=spec, smode=smode, scenario=scenario, S=S, X=X, Y=Y, orderA=orderA, orderB=orderB,
                check=draw(st.sampled_from([None, True, True, False])),
                add_pop=add_pop, reorderA=reorderA, reorderB=reorderB,
                removeA=draw(st.booleans()), removeB=draw(st.booleans()),
                edit=edit, edit_side=draw(st.sampled_from(["A", "B"])),
                edit_pick=draw(st.integers(0, 50)),
                via=draw(st.sampled_from(["ts", "tables"])), prov=draw(st.booleans()))


def apply_edit(tskit, t, shared_ids, kind, pick):
    """Change one row of the part of `t` that involves only shared nodes; returns a description or
    None when `t` has no such row."""
    shared = sorted(shared_ids)
    if not shared:
        return None
    if kind == 1:
        u = shared[pick % len(shared)]
        t.nodes[u] = t.nodes[u].replace(metadata=t.nodes[u].metadata + b"!")
        return f"node {u} metadata"
    if kind == 2:
        u = shared[pick % len(shared)]
        t.nodes[u] = t.nodes[u].replace(flags=t.nodes[u].flags ^ (1 << 18))
        return f"node {u} flags"
    if kind == 3:
        ids = [j for j in range(t.edges.num_rows) if t.edges.parent[j] in shared_ids and t.edges.child[j] in shared_ids]
        if not ids:
            return None
        j = ids[pick % len(ids)]
        keep = [True] * t.edges.num_rows
        keep[j] = False
        t.edges.keep_rows(keep)
        return f"edge {j} removed"
    if kind == 4:
        ids = [j for j in range(t.mutations.num_rows) if t.mutations.node[j] in shared_ids]
        if not ids:
            return None
        j = ids[pick % len(ids)]
        t.mutations[j] = t.mutations[j].replace(derived_state=t.mutations[j].derived_state + "x")
        return f"mutation {j} derived state"
    if kind == 5:
        ids = sorted({int(t.mutations.site[j]) for j in range(t.mutations.num_rows) if t.mutations.node[j] in shared_ids})
        if not ids:
            return None
        s = ids[pick % len(ids)]
        t.sites[s] = t.sites[s].replace(ancestral_state=t.sites[s].ancestral_state + "x")
        return f"site {s} ancestral state"
    if kind == 6:
        ids = sorted({int(t.nodes.individual[u]) for u in shared} - {-1})
        if not ids:
            return None
        i = ids[pick % len(ids)]
        t.individuals[i] = t.individuals[i].replace(metadata=t.individuals[i].metadata + b"!")
        return f"individual {i} metadata"
    if kind == 7:
        ids = sorted({int(t.nodes.population[u]) for u in shared} - {-1})
        if not ids:
            return None
        p = ids[pick % len(ids)]
        t.populations[p] = t.populations[p].replace(metadata=t.populations[p].metadata + b"!")
        return f"population {p} metadata"
    raise AssertionError(kind)


def check_union(ctx, a, b, o, mapping, add_pop, W="union"):
    """o must be a + everything of b that involves a node mapped to -1 (specs of the real tables)."""
    na, nb = len(a["nodes"]), len(b["nodes"])
    new = [k for k in range(nb) if mapping[k] == -1]
    ctx.check(len(o["nodes"]) == na + len(new), W + ".nodes", f"{len(o['nodes'])} nodes expected {na + len(new)}")
    nmap = {k: mapping[k] for k in range(nb) if mapping[k] != -1}
    for q, k in enumerate(new):
        nmap[k] = na + q
    # self's rows stay where they are
    ctx.check(o["nodes"][:na] == a["nodes"], W + ".nodes", "rows of self changed")
    ctx.check(o["individuals"][:len(a["individuals"])] == a["individuals"], W + ".individuals", "rows of self changed")
    ctx.check(o["populations"][:len(a["populations"])] == a["populations"], W + ".populations", "rows of self changed")
    # individuals of the new nodes
    imap = {}
    for k in range(nb):
        if mapping[k] != -1 and b["nodes"][k][3] != -1 and a["nodes"][mapping[k]][3] != -1:
            imap[b["nodes"][k][3]] = a["nodes"][mapping[k]][3]
    new_inds = []
    for k in new:
        i = b["nodes"][k][3]
        if i != -1 and i not in imap:
            imap[i] = o["nodes"][nmap[k]][3]
            new_inds.append(i)
    ctx.check(len(o["individuals"]) == len(a["individuals"]) + len(new_inds), W + ".individuals",
              f"{len(o['individuals'])} rows expected {len(a['individuals']) + len(new_inds)}")
    ids = [imap[i] for i in new_inds]
    ctx.check(len(set(ids)) == len(ids) and all(len(a["individuals"]) <= j < len(o["individuals"]) for j in ids),
              W + ".individuals", f"new individuals got ids {ids}")
    for i in new_inds:
        r = b["individuals"][i]
        exp = [r[0], r[1], [(-1 if p == -1 else imap.get(p, -1)) for p in r[2]], r[3]]
        ctx.check(o["individuals"][imap[i]] == exp, W + ".individuals",
                  lambda: f"new individual {i}->{imap[i]}: {o['individuals'][imap[i]]} expected {exp}")
    imap[-1] = -1
    # populations of the new nodes
    pmap = {-1: -1}
    new_pops = []
    for k in new:
        p = b["nodes"][k][2]
        if p == -1 or p in pmap:
            continue
        if add_pop:
            pmap[p] = o["nodes"][nmap[k]][2]
            new_pops.append(p)
        else:
            pmap[p] = p
    ctx.check(len(o["populations"]) == len(a["populations"]) + len(new_pops), W + ".populations",
              f"{len(o['populations'])} rows expected {len(a['populations']) + len(new_pops)} (add_populations={add_pop})")
    ids = [pmap[p] for p in new_pops]
    ctx.check(len(set(ids)) == len(ids) and all(len(a["populations"]) <= j < len(o["populations"]) for j in ids),
              W + ".populations", f"new populations got ids {ids}")
    for p in new_pops:
        ctx.check(o["populations"][pmap[p]] == b["populations"][p], W + ".populations", f"new population {p} row")
    for k in new:
        fl, tm, pop, ind, md = b["nodes"][k]
        exp = [fl, tm, pmap[pop], imap[ind], md]
        ctx.check(o["nodes"][nmap[k]] == exp, W + ".nodes",
                  lambda: f"new node {k}->{nmap[k]}: {o['nodes'][nmap[k]]} expected {exp}")
    # edges
    exp_edges = [list(e) for e in a["edges"]]
    for e in b["edges"]:
        if mapping[e[2]] == -1 or mapping[e[3]] == -1:
            exp_edges.append([e[0], e[1], nmap[e[2]], nmap[e[3]], e[4]])
    exp_edges.sort(key=_edge_key)
    got_edges = sorted(o["edges"], key=_edge_key)
    ctx.check(got_edges == exp_edges, W + ".edges", lambda: f"{got_edges} expected {exp_edges}")
    # sites (deduplicated by position, self's row wins) and mutations
    site_rows = {}
    muts = {}
    for s, r in enumerate(a["sites"]):
        site_rows[F(r[0])] = r
        muts[F(r[0])] = []
    for m in a["mutations"]:
        muts[F(a["sites"][m[0]][0])].append((m[1], m[2], m[4], m[5]))
    for m in b["mutations"]:
        if mapping[m[1]] == -1:
            r = b["sites"][m[0]]
            x = F(r[0])
            if x not in site_rows:
                site_rows[x] = r
                muts[x] = []
            muts[x].append((nmap[m[1]], m[2], m[4], m[5]))
    exp_sites = [site_rows[x] for x in sorted(site_rows)]
    ctx.check(o["sites"] == exp_sites, W + ".sites", lambda: f"{o['sites']} expected {exp_sites}")
    got = {F(r[0]): [] for r in o["sites"]}
    for m in o["mutations"]:
        got[F(o["sites"][m[0]][0])].append((m[1], m[2], m[4], m[5]))
    key = lambda r: (r[0], r[1], -1.0 if r[2] is None else F(r[2]), r[3])  # noqa: E731
    for x in sorted(site_rows):
        ctx.check(sorted(got[x], key=key) == sorted(muts[x], key=key), W + ".mutations",
                  lambda: f"site at {x}: {got[x]} expected {muts[x]}")
    ctx.check([m[3] for m in o["mutations"]] == model.mutation_parents(o), W + ".mutation_parent",
              lambda: f"parents {[m[3] for m in o['mutations']]} expected {model.mutation_parents(o)}")
    ctx.check(not o["migrations"], W, "migrations in the output")
    return dict(new_inds=len(new_inds), new_pops=len(new_pops), shared_site=any(
        F(b["sites"][m[0]][0]) in {F(r[0]) for r in a["sites"]} for m in b["mutations"] if mapping[m[1]] == -1))


WHAT_PAC = "union.unknown_times_parent_after_child"
KEY_PAC = "union.unknown_mutation_times_parent_after_child"


def parent_after_child_predicted(spec, selfnodes, newnodes):
    """A mutation with unknown time on a node of self whose parent mutation sits on a node that only
    `other` contributes."""
    return any(m[4] is None and m[1] in selfnodes and m[3] != -1 and spec["mutations"][m[3]][1] in newnodes
               for m in spec["mutations"])


def classify(case, exc):
    if getattr(exc, "what", "") == WHAT_PAC:
        return KEY_PAC
    return None


def run_union(case, ctx):
    import tskit

    spec = case["spec"]
    S, X, Y, orderA, orderB = case["S"], case["X"], case["Y"], case["orderA"], case["orderB"]
    for l in gen.spec_labels(spec, model):
        ctx.label(l)
    ctx.label("S:" + case["smode"])
    ctx.label("scenario:" + case.get("scenario", "probe"))
    check = case["check"] is not False
    add_pop = case["add_pop"] is not False
    ctx.label("check_shared_equality=F", not check)
    ctx.label("add_populations=F", not add_pop)
    ctx.label("via:" + case["via"])
    tables = gen.build_tables(spec, tskit)
    A = tables.copy()
    A.subset(orderA, reorder_populations=case["reorderA"], remove_unreferenced=case["removeA"], record_provenance=False)
    B = tables.copy()
    B.subset(orderB, reorder_populations=case["reorderB"], remove_unreferenced=case["removeB"], record_provenance=False)
    posA = {u: k for k, u in enumerate(orderA)}
    inS = set(S)
    mapping = [posA[u] if u in inS else -1 for u in orderB]
    # optional edit of the shared part on one side
    edit = None
    if case["edit"] == 8:
        # two shared nodes of different age exchange their partners in the node mapping
        ks = [k for k, u in enumerate(orderB) if u in inS]
        pairs = [(k1, k2) for k1 in ks for k2 in ks
                 if k1 < k2 and spec["nodes"][orderB[k1]][1] != spec["nodes"][orderB[k2]][1]]
        if pairs:
            k1, k2 = pairs[case["edit_pick"] % len(pairs)]
            mapping[k1], mapping[k2] = mapping[k2], mapping[k1]
            edit = f"mapping of {k1} and {k2} exchanged"
            ctx.label("mapping_exchanged")
            if not check:
                return  # without the check the result of a wrong mapping is not defined
    elif case["edit"]:
        if case["edit_side"] == "A":
            edit = apply_edit(tskit, A, {posA[u] for u in S}, case["edit"], case["edit_pick"])
        else:
            edit = apply_edit(tskit, B, {k for k, u in enumerate(orderB) if u in inS}, case["edit"], case["edit_pick"])
        if edit is not None:
            A.sort()
            B.sort()
    ctx.label("edited", edit is not None)
    mutsY = any(m[1] in set(Y) for m in spec["mutations"])
    mutsX = any(m[1] in set(X) for m in spec["mutations"])
    mutsS = any(m[1] in inS for m in spec["mutations"])
    full = ctx.label("cover:S,X,Y non-empty", bool(S and X and Y))
    ctx.label("cover:mutations on S,X,Y", full and mutsS and mutsX and mutsY)
    ctx.label("cover:X empty", not X)
    ctx.label("cover:Y empty", not Y)
    ctx.nt(bool(Y) and (bool(S) or bool(X)))
    a = gen.spec_from_tables(A, tskit)
    b = gen.spec_from_tables(B, tskit)
    kw = {}
    if case["check"] is not None:
        kw["check_shared_equality"] = case["check"]
    if case["add_pop"] is not None:
        kw["add_populations"] = case["add_pop"]
    nprov = A.provenances.num_rows
    if case["via"] == "ts":
        tsA, tsB = A.tree_sequence(), B.tree_sequence()
        call = lambda: tsA.union(tsB, mapping, record_provenance=case["prov"], **kw).dump_tables()  # noqa: E731
    else:
        U0 = A.copy()

        def call():
            U0.union(B, mapping, record_provenance=case["prov"], **kw)
            return U0
    if edit is not None and check:
        try:
            call()
        except tskit.LibraryError:
            ctx.label("refused")
        else:
            ctx.fail("union.refusal", f"shared parts differ ({edit} on {case['edit_side']}) but union succeeded; "
                     f"mapping={mapping}")
        ctx.check(gen.spec_from_tables(B, tskit) == b, "union.other", "`other` was modified by a refused union")
        return
    # add_populations=False keeps the population ids of the new nodes: ids that do not exist in
    # self cannot be accepted
    if not add_pop and any(mapping[k] == -1 and b["nodes"][k][2] >= len(a["populations"]) for k in range(len(mapping))):
        ctx.label("population_out_of_bounds")
        try:
            call()
        except tskit.LibraryError:
            return
        ctx.fail("union.population_bounds", "new node keeps a population id that self does not have")
    # open finding: with unknown mutation times union puts the mutations taken from `other` after
    # those of self at a site, so a new mutation that is ancestral to an existing one makes
    # compute_mutation_parents refuse the result
    predicted = parent_after_child_predicted(spec, inS | set(X), set(Y))
    ctx.label("predicted:parent_after_child", predicted)
    try:
        U = call()
    except tskit.LibraryError as e:
        if predicted and "TSK_ERR_MUTATION_PARENT_AFTER_CHILD" in str(e):
            ctx.fail(WHAT_PAC, f"{e}; S={S} X={X} Y={Y} orderA={orderA} orderB={orderB}")
        raise
    U.tree_sequence()  # valid
    ctx.check(gen.spec_from_tables(B, tskit) == b, "union.other", "`other` was modified")
    ctx.check(U.provenances.num_rows == nprov + (1 if case["prov"] else 0), "union.provenance", "row count")
    o = gen.spec_from_tables(U, tskit)
    info = check_union(ctx, a, b, o, mapping, add_pop)
    ctx.label("new_individuals", info["new_inds"] > 0)
    ctx.label("new_populations", info["new_pops"] > 0)
    ctx.label("site_deduplicated", info["shared_site"])
    # inverse law
    if edit is None and not add_pop and not case["reorderA"] and not case["reorderB"]:
        ctx.label("inverse_law")
        order = orderA + [u for u in orderB if u not in inS]
        E = tables.copy()
        E.subset(order, reorder_populations=False, record_provenance=False)
        E.canonicalise()
        C = U.copy()
        C.canonicalise()
        es, cs = gen.spec_from_tables(E, tskit), gen.spec_from_tables(C, tskit)
        ctx.check(cs == es, "union.inverse",
                  lambda: f"canonical union differs from canonical original: { {k: (cs[k], es[k]) for k in es if cs[k] != es[k]} }"
                  f" S={S} X={X} Y={Y} orderA={orderA} orderB={orderB}")
        ctx.check(C.equals(E, ignore_provenance=True), "union.inverse", "tables not byte-identical after canonicalise")


# ------------------------------------------------------------------ documented refusals
@st.composite
def refusal_case(draw):
    spec = draw(gen.ts_spec(max_nodes=6, min_nodes=2, migrations=False))
    n = len(spec["nodes"])
    return dict(spec=spec, kind=draw(st.sampled_from(["subset_oob", "subset_negative", "subset_migrations",
                                                      "union_migrations_self", "union_migrations_other",
                                                      "union_bad_map", "union_short_map"])),
                nodes=list(draw(st.lists(st.integers(0, n - 1), unique=True, max_size=n))),
                pos=draw(st.integers(0, 20)), remove=draw(st.booleans()), via=draw(st.sampled_from(["ts", "tables"])))


def run_refusal(case, ctx):
    import tskit

    spec, kind = case["spec"], case["kind"]
    n = len(spec["nodes"])
    ctx.label("kind:" + kind)
    ctx.nt(True)
    t = gen.build_tables(spec, tskit)
    nodes = list(case["nodes"])

    def add_migration(tc):
        if tc.populations.num_rows == 0:
            tc.populations.add_row()
        u = case["pos"] % n
        tc.migrations.add_row(0, tc.sequence_length, u, 0, 0, F(spec["nodes"][u][1]))

    other = t.copy()
    mapping = list(range(n))
    exc = (tskit.LibraryError,)
    if kind.startswith("subset"):
        if kind == "subset_oob":
            nodes.insert(case["pos"] % (len(nodes) + 1), n)
        elif kind == "subset_negative":
            nodes.insert(case["pos"] % (len(nodes) + 1), -1)
        else:
            add_migration(t)
        if case["via"] == "ts":
            ts = t.tree_sequence()
            call = lambda: ts.subset(nodes, remove_unreferenced=case["remove"])  # noqa: E731
        else:
            call = lambda: t.subset(nodes, remove_unreferenced=case["remove"])  # noqa: E731
    else:
        if kind == "union_migrations_self":
            add_migration(t)
        elif kind == "union_migrations_other":
            add_migration(other)
        elif kind == "union_bad_map":
            mapping[case["pos"] % n] = n if case["remove"] else -2
        else:
            mapping = mapping[:-1]
            exc = (tskit.LibraryError, ValueError)
        if case["via"] == "ts":
            ts, tso = t.tree_sequence(), other.tree_sequence()
            call = lambda: ts.union(tso, mapping, check_shared_equality=case["remove"])  # noqa: E731
        else:
            call = lambda: t.union(other, mapping, check_shared_equality=case["remove"])  # noqa: E731
    try:
        call()
    except exc:
        pass
    else:
        ctx.fail("refusal", f"{kind} accepted: nodes={nodes} mapping={mapping} n={n}")


_PROBE_SPEC = dict(
    L=1.0, nodes=[[0, 1.0, -1, -1, ""], [1, 0.0, -1, -1, ""]], edges=[[0.0, 1.0, 0, 1, ""]],
    sites=[[0.0, "A", ""]], mutations=[[0, 0, "C", -1, None, ""], [0, 1, "G", 0, None, ""]],
    individuals=[], populations=[], migrations=[])
PROBES = {
    KEY_PAC: ("C14.union", dict(spec=_PROBE_SPEC, smode="arbitrary", S=[1], X=[], Y=[0], orderA=[1], orderB=[0, 1],
                                check=None, add_pop=False, reorderA=False, reorderB=False, removeA=True,
                                removeB=True, edit=0, edit_side="A", edit_pick=0, via="tables", prov=False)),
}

NT_SUBSET = "the node list is not the identity and an edge, mutation, site or individual is dropped"
NT_UNION = "Y is non-empty and at least one of S, X is non-empty (something is added to a non-empty self)"
# ------------------------------------------------------------------ deep pedigrees (counts beyond 32 / 64 bits)
def enum_pedigree(tier, seed):
    for G in ([20, 34, 40] if tier == "quick" else [20, 31, 32, 33, 34, 40, 63, 64, 65, 70]):
        for s1, s2 in ((0, 1), (2, 3)):
            yield dict(G=G, s1=s1, s2=s2)


def run_pedigree(case, ctx):
    """Split a tree sequence carrying a fully inbred pedigree (shared ancestral generations, one sample tip on each
    side, the two parts with differently ordered individual tables) and re-join with union: the shared parts are
    equal, so union must not refuse, and the result is the original up to canonical ordering."""
    import tskit

    from ._shapes import deep_pedigree_tables

    G = case["G"]
    full = deep_pedigree_tables(tskit, G, case["s1"])
    other_full = deep_pedigree_tables(tskit, G, case["s2"])
    anc = list(range(2 * G))
    A = full.copy()
    A.subset(anc + [2 * G], reorder_populations=False)
    B = other_full.copy()
    B.subset(anc + [2 * G + 1], reorder_populations=False)
    ctx.nt(True)
    u = A.copy()
    u.union(B, node_mapping=anc + [-1], check_shared_equality=True, add_populations=False, record_provenance=False)
    want = full.copy()
    for t_ in (u, want):
        t_.canonicalise()
        t_.provenances.clear()
    ctx.check(u.equals(want), "union.deep_pedigree", f"G={G}: subset-split and union differs from the original after canonicalise")


# ------------------------------------------------------------------ thousands of edges; sites at neighbouring doubles
def enum_large_split(tier, seed):
    for T in ([1500] if tier == "quick" else [1365, 1366, 1500, 3000]):
        for mode in ("all_reversed", "every_other", "drop_few"):
            yield dict(kind="subset", T=T, mode=mode)
    for p in ("2.0", "1e-300", "0.1", "1e300", "5e-324"):
        yield dict(kind="adjacent_sites", p=p)


def run_large_split(case, ctx):
    import math

    import tskit

    ctx.nt(True)
    if case["kind"] == "subset":
        from .c01 import many_trees_spec

        T = case["T"]
        spec = many_trees_spec(T, 0)
        spec["sites"] = [[i + 0.5, "A", ""] for i in range(0, T, 7)]
        spec["mutations"] = [[j, (j % 2), "T", -1, None, "m"] for j in range(len(spec["sites"]))]
        n = len(spec["nodes"])
        if case["mode"] == "all_reversed":
            nodes = list(range(n))[::-1]
        elif case["mode"] == "every_other":
            nodes = [0, 1, 2, 3, 4, 5] + list(range(6, n, 2))
        else:
            nodes = [u for u in range(n) if u % 97 != 11]
        run_subset(dict(spec=spec, nodes=nodes, mode="large", reorder=None, remove=None, prov=False, via="tables",
                        as_array=True), ctx)
        ctx.nt(True)
        return
    # two tips below a shared ancestry; tip 1's mutation sits at p, tip 2's at the next double
    p = float(case["p"])
    q = math.nextafter(p, math.inf)
    L = max(4.0, q * 2) if q < 1e200 else 1.7e308
    full = tskit.TableCollection(L)
    r = full.nodes.add_row(time=3.0)
    u = full.nodes.add_row(time=2.0)
    s1 = full.nodes.add_row(flags=1, time=0.0)
    s2 = full.nodes.add_row(flags=1, time=0.0)
    full.edges.add_row(0, L, u, s1)
    full.edges.add_row(0, L, u, s2)
    full.edges.add_row(0, L, r, u)
    positions = sorted({p / 2 if p / 2 > 0 else 0.0, p, q, math.nextafter(q, math.inf) * 1.5})
    for x in positions:
        full.sites.add_row(x, "A")
    ids = {x: j for j, x in enumerate(positions)}
    full.mutations.add_row(ids[positions[0]], u, "G")
    full.mutations.add_row(ids[p], s1, "T")
    full.mutations.add_row(ids[q], s2, "C")
    full.mutations.add_row(ids[positions[-1]], u, "G")
    full.sort()
    full.tree_sequence()
    A = full.copy()
    A.subset([r, u, s1], reorder_populations=False)
    B = full.copy()
    B.subset([r, u, s2], reorder_populations=False)
    ctx.check(A.sites.num_rows == 3 and B.sites.num_rows == 3, "subset.sites", f"{A.sites.num_rows}, {B.sites.num_rows} sites")
    un = A.copy()
    un.union(B, node_mapping=[0, 1, -1], check_shared_equality=True, add_populations=False, record_provenance=False)
    want = full.copy()
    for t_ in (un, want):
        t_.canonicalise()
        t_.provenances.clear()
    ctx.check(un.sites.num_rows == 4, "union.sites", f"union has {un.sites.num_rows} sites, the original has 4 "
              f"(positions {list(un.sites.position)})")
    ctx.check(un.equals(want), "union.adjacent_sites", f"p={p!r}: subset-split and union differs from the original")


SUBCHECKS = [
    SubCheck("C14.subset", run_subset, strategy=subset_case, quick=10000, thorough=300000, rule=NT_SUBSET,
             floors={"nodes:perm": 0.05, "nodes:sublist": 0.1, "nodes:subset_sorted": 0.03, "nodes:empty": 0.03,
                     "nodes:single": 0.03, "nodes:identity": 0.1, "drop_edge": 0.2, "drop_mut": 0.12,
                     "drop_site": 0.1, "drop_ind": 0.1, "drop_pop": 0.08, "parent_cut": 0.015,
                     "ind_parent_cut": 0.025, "remove_unreferenced=F": 0.1, "reorder_populations=F": 0.1,
                     "via:tables": 0.15, "multi_tree": 0.2, "mutations": 0.3}),
    SubCheck("C14.union", run_union, strategy=cover_case, quick=12000, thorough=360000, rule=NT_UNION,
             classify=classify,
             floors={"cover:S,X,Y non-empty": 0.12, "cover:mutations on S,X,Y": 0.04, "inverse_law": 0.15,
                     "refused": 0.04, "edited": 0.06, "new_individuals": 0.05, "new_populations": 0.03,
                     "site_deduplicated": 0.08, "check_shared_equality=F": 0.08, "add_populations=F": 0.2,
                     "S:separator": 0.2, "S:ancestor_closed": 0.04, "S:arbitrary": 0.02, "via:tables": 0.15,
                     "known_mut_times": 0.1}),
    SubCheck("C14.refusals", run_refusal, strategy=refusal_case, quick=800, thorough=16000,
             rule="every case: out-of-range node ids, migrations, or an invalid node mapping must raise",
             floors={"kind:subset_oob": 0.03, "kind:subset_migrations": 0.03, "kind:union_bad_map": 0.02,
                     "kind:union_migrations_other": 0.03}),
    SubCheck("C14.deep_pedigree", run_pedigree, enumerate=enum_pedigree, quick=1, thorough=1, shards=6,
             rule="subset-split / union round trip on fully inbred pedigrees of 20-40 (thorough: up to 70) generations"),
    SubCheck("C14.large_split", run_large_split, enumerate=enum_large_split, quick=1, thorough=1, shards=8,
             rule="subset of a 1500-tree sequence (more than 4096 edges retained) in three node orders; split-and-union with "
             "the two parts' private sites at neighbouring doubles"),
]
