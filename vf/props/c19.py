"""C19 — IBD segments are exactly the maximal shared-path intervals of each requested pair."""
import itertools
import math

from hypothesis import strategies as st

from .. import gen, model
from ..core import SubCheck
from ..gen import F

META = dict(
    level="exploration",
    rule="Valid tree sequences (vf/gen.py ts_spec with split_edges=True, plus extra splitting of "
    "edges at interior points done here, so adjacent edges with equal parent/child are common; "
    "internal samples, unary nodes, several roots, gaps) x request (default samples | within = "
    "arbitrary unique node list incl. non-samples and ancestors of each other | between = 2-4 "
    "disjoint node sets, empty sets allowed) x min_span in {None, 0, span of a run of elementary "
    "intervals -ulp/exact/+ulp, > L} x max_time in {None, midpoint between node times, below all, "
    "above all; never equal to a node time, never negative} x store_pairs/store_segments x "
    "TreeSequence/TableCollection entry point. Oracle (positional, shares nothing with the edge "
    "sweep): for every requested pair and every elementary interval the signature (MRCA, edge-id "
    "chain u->MRCA, edge-id chain v->MRCA) from model.parent_at/edge_at; maximal runs of equal "
    "signatures are the expected segments; filters applied afterwards. Compared as sets of "
    "(left,right,node) per pair under both key orders, absent pairs must be absent, aggregates "
    "(num_segments,total_span,num_pairs, per-pair len/total_span, left/right/node arrays) must "
    "equal the aggregates of the expected lists under every store option.",
    assumptions=[
        "reference model vf/model.py (positional parent/edge maps from raw rows)",
        "size bounds: <=9 nodes, <=4 generated elementary intervals (+<=3 extra split points)",
        "max_time equal to a node time is not generated (docs: 'more recent than', code: <=)",
        "negative max_time/min_span are not generated (rejected with TSK_ERR_BAD_PARAM_VALUE, undocumented)",
        "order of segments in a list and of pairs is not asserted (documented as arbitrary)",
        "total_span compared with rtol 1e-9 (summation order is free)",
    ],
    technique="property-based testing (Hypothesis) against a positional edge-id-chain oracle; bounded "
    "exhaustive enumeration of all forests on <=3/4 nodes x <=2 intervals",
    engines=["hypothesis-runner", "exhaustive-small-scope"],
    exhaustive_subchecks=["C19.exhaustive_small"],
)


# ------------------------------------------------------------------ oracle
def _paths(par, ed, u):
    nodes, edges = [u], []
    while par[u] >= 0:
        edges.append(ed[u])
        u = par[u]
        nodes.append(u)
    return nodes, edges


def signature(par, ed, u, v):
    nu, eu = _paths(par, ed, u)
    nv, ev = _paths(par, ed, v)
    pos = {w: i for i, w in enumerate(nu)}
    for j, w in enumerate(nv):
        if w in pos:
            return (w, tuple(eu[: pos[w]]), tuple(ev[:j]))
    return None


def expected_segments(spec, pairs):
    """pair (u<v) -> list of (left, right, mrca) = maximal runs of equal signatures."""
    bps = model.breakpoints(spec)
    maps = [(model.parent_at(spec, a), model.edge_at(spec, a)) for a in bps[:-1]]
    out = {}
    for (u, v) in pairs:
        segs = []
        cur = None  # (sig, left, right)
        for i, (par, ed) in enumerate(maps):
            sig = signature(par, ed, u, v)
            if cur is not None and sig == cur[0]:
                cur[2] = bps[i + 1]
                continue
            if cur is not None and cur[0] is not None:
                segs.append((cur[1], cur[2], cur[0][0], cur[0]))
            cur = [sig, bps[i], bps[i + 1]]
        if cur is not None and cur[0] is not None:
            segs.append((cur[1], cur[2], cur[0][0], cur[0]))
        out[(u, v)] = segs
    return out


def requested_pairs(spec, req):
    n = len(spec["nodes"])
    if req["mode"] == "default":
        s = model.samples(spec)
        return [(a, b) for a in s for b in s if a < b]
    if req["mode"] == "within":
        s = sorted(req["within"])
        return [(a, b) for a in s for b in s if a < b]
    sid = {}
    for k, grp in enumerate(req["between"]):
        for u in grp:
            sid[u] = k
    nodes = sorted(sid)
    return [(a, b) for a in nodes for b in nodes if a < b and sid[a] != sid[b]]


def split_labels(spec):
    last = {}
    for j, e in enumerate(spec["edges"]):
        k = (e[2], e[3])
        if k in last and F(spec["edges"][last[k]][1]) == F(e[0]):
            return True
        last[k] = j
    return False


# ------------------------------------------------------------------ case generation
def _apply_extra_splits(spec, draw):
    """Split some edges in place at interior points (same parent/child, adjacent rows): the order
    required by the data model (parent time, parent grouped, child, left) is preserved."""
    edges = []
    for e in spec["edges"]:
        l, r = F(e[0]), F(e[1])
        k = draw(st.sampled_from([0, 0, 0, 1, 1, 2]))
        cuts = []
        for _ in range(k):
            num = draw(st.integers(1, 7))
            c = l + (r - l) * num / 8
            if l < c < r:
                cuts.append(c)
        pts = [l] + sorted(set(cuts)) + [r]
        for a, b in zip(pts[:-1], pts[1:]):
            edges.append([a, b, e[2], e[3], e[4]])
    spec = dict(spec)
    spec["edges"] = edges
    return spec


@st.composite
def ibd_case(draw):
    spec = draw(gen.ts_spec(max_nodes=9, min_nodes=draw(st.sampled_from([3, 3, 1, 5])), max_intervals=4,
                            max_sites=0, migrations=False, metadata=False,
                            individuals=False, populations=False, split_edges=True, extra_flags=True,
                            min_samples=draw(st.sampled_from([3, 2, 4, 0]))))
    if spec["edges"] and draw(st.integers(0, 2)) == 0:
        spec = _apply_extra_splits(spec, draw)
    n = len(spec["nodes"])
    mode = draw(st.sampled_from(["within", "between", "default"]))
    req = dict(mode=mode)
    if mode == "within":
        k = draw(st.integers(min(2, n), n)) if draw(st.integers(0, 7)) else draw(st.integers(0, min(1, n)))
        req["within"] = list(draw(st.permutations(list(range(n))))[:k])
    elif mode == "between":
        nsets = draw(st.integers(2, 4))
        perm = list(draw(st.permutations(list(range(n)))))
        k = draw(st.integers(min(2, n), n)) if draw(st.integers(0, 7)) else draw(st.integers(0, min(1, n)))
        sets = [[] for _ in range(nsets)]
        for u in perm[:k]:
            sets[draw(st.integers(0, nsets - 1))].append(u)
        req["between"] = sets
    # ---- filters
    bps = model.breakpoints(spec)
    L = bps[-1]
    raw = expected_segments(spec, requested_pairs(spec, req))
    spans = sorted({r - l for segs in raw.values() for (l, r, _a, _s) in segs})
    if not spans or draw(st.integers(0, 3)) == 0:
        spans = sorted({b - a for a, b in itertools.combinations(bps, 2)})
    kind = draw(st.sampled_from(["span", "none", "span", "zero", "span", "big"]))
    if kind == "none":
        min_span = None
    elif kind == "zero":
        min_span = 0
    elif kind == "big":
        min_span = L + 1
    else:
        s = draw(st.sampled_from(spans))
        adj = draw(st.sampled_from([-1, 0, 0, 1]))
        min_span = s if adj == 0 else math.nextafter(s, math.inf * adj)
        if min_span < 0:
            min_span = 0.0
    times = sorted({model.time(spec, u) for u in range(n)})
    tk = draw(st.sampled_from(["mid", "none", "mid", "none", "below", "above"]))
    max_time = None
    if tk == "mid" and len(times) > 1:
        i = draw(st.integers(0, len(times) - 2))
        max_time = (times[i] + times[i + 1]) / 2
    elif tk == "below":
        max_time = times[0] - 0.5
    elif tk == "above":
        max_time = times[-1] + 1.0 if times[-1] < 2.0**50 else times[-1] * 2
    if max_time is not None and (max_time < 0 or max_time in times):
        max_time = None
    store = draw(st.sampled_from(["segments", "pairs", "none", "both", "segments"]))
    return dict(spec=spec, req=req, min_span=min_span, max_time=max_time, store=store,
                api=draw(st.sampled_from(["ts", "tables"])))


# ------------------------------------------------------------------ the check
def _kwargs(case):
    req = case["req"]
    kw = {}
    if req["mode"] == "within":
        kw["within"] = req["within"]
    elif req["mode"] == "between":
        kw["between"] = req["between"]
    if case["min_span"] is not None:
        kw["min_span"] = case["min_span"]
    if case["max_time"] is not None:
        kw["max_time"] = case["max_time"]
    store = case["store"]
    if store == "pairs":
        kw["store_pairs"] = True
    elif store == "segments":
        kw["store_segments"] = True
    elif store == "both":
        kw["store_pairs"] = True
        kw["store_segments"] = True
    return kw


def check_ibd(ctx, tskit, spec, obj, case, label=True):
    n = len(spec["nodes"])
    L = F(spec["L"])
    pairs = requested_pairs(spec, case["req"])
    raw = expected_segments(spec, pairs)
    min_span = 0 if case["min_span"] is None else case["min_span"]
    max_time = math.inf if case["max_time"] is None else case["max_time"]
    exp = {}
    cut_span = cut_time = False
    for p, segs in raw.items():
        keep = []
        for (l, r, a, _sig) in segs:
            ok_s = (r - l) > min_span
            ok_t = model.time(spec, a) < max_time
            cut_span |= not ok_s
            cut_time |= not ok_t
            if ok_s and ok_t:
                keep.append((l, r, a))
        if keep:
            exp[p] = sorted(keep)
    # ---- labels / non-triviality
    same_mrca = split_chain = anc_pair = False
    for (u, v), segs in raw.items():
        for s0, s1 in zip(segs[:-1], segs[1:]):
            if s0[1] == s1[0] and s0[2] == s1[2]:
                same_mrca = True
                # same node paths, different edge ids => a split edge on a chain
                e = spec["edges"]
                np0 = [[(e[j][2], e[j][3]) for j in ch] for ch in s0[3][1:]]
                np1 = [[(e[j][2], e[j][3]) for j in ch] for ch in s1[3][1:]]
                if np0 == np1:
                    split_chain = True
        if any(s[2] in (u, v) for s in segs):
            anc_pair = True
    some = any(raw.values())
    if label:
        ctx.label("mode_" + case["req"]["mode"])
        ctx.label("store_" + case["store"])
        ctx.label("some_segments", some)
        ctx.label("same_mrca_diff_path", same_mrca)
        ctx.label("split_on_chain", split_chain)
        ctx.label("split_edges", split_labels(spec))
        ctx.label("ancestor_pair", anc_pair)
        ctx.label("min_span_cuts", cut_span)
        ctx.label("max_time_cuts", cut_time)
        ctx.label("filter_cuts_some_keeps_some", (cut_span or cut_time) and bool(exp))
        ctx.label("nonsample_requested", any(not model.is_sample(spec, u) for p in pairs for u in p))
        ctx.label("multi_tree", len(model.breakpoints(spec)) > 2)
        ctx.nt(some and (same_mrca or split_chain or anc_pair or cut_span or cut_time))

    res = obj.ibd_segments(**_kwargs(case))
    store = case["store"]
    W = f"ibd[{case['req']['mode']},{store}]"
    all_exp = [s for p in sorted(exp) for s in exp[p]]
    ctx.check(res.num_segments == len(all_exp), W + ".num_segments",
              lambda: f"{res.num_segments} expected {len(all_exp)}: {exp}")
    ctx.close(res.total_span, math.fsum(r - l for l, r, _ in all_exp), W + ".total_span")
    ctx.check(res.max_time == max_time and res.min_span == min_span, W, "max_time/min_span attributes")
    ctx.check(res.store_pairs == (store in ("pairs", "both")) and
              res.store_segments == (store in ("segments", "both")), W, "store attributes")
    str(res)
    if store == "none":
        for what, f in (("num_pairs", lambda: res.num_pairs), ("len", lambda: len(res)),
                        ("pairs", lambda: res.pairs), ("iter", lambda: list(res)),
                        ("getitem", lambda: res[(0, 1)] if n >= 2 else res.num_pairs)):
            try:
                f()
                ctx.fail(W, f"{what} did not raise although pairs are not stored")
            except tskit.IdentityPairsNotStoredError:
                pass
        return
    # ---- pairs stored
    ctx.check(res.num_pairs == len(exp) and len(res) == len(exp), W + ".num_pairs",
              lambda: f"{res.num_pairs} expected {len(exp)}")
    keys = list(res)
    ctx.check(all(isinstance(k, tuple) and len(k) == 2 for k in keys), W, "keys are pairs")
    ksets = sorted(tuple(sorted(map(int, k))) for k in keys)
    ctx.check(ksets == sorted(exp), W + ".keys", lambda: f"{ksets} expected {sorted(exp)}")
    parr = res.pairs
    ctx.check(parr.shape == (len(exp), 2), W, "pairs array shape")
    ctx.check(sorted(tuple(sorted(map(int, r))) for r in parr) == sorted(exp), W, "pairs array")
    have_segments = store in ("segments", "both")
    # every pair of distinct nodes (requested or not): present iff expected
    for u in range(n):
        for v in range(n):
            if u == v:
                continue
            p = (min(u, v), max(u, v))
            if p in exp:
                lst = res[(u, v)]
                ctx.check(((u, v) in res) and res.get((u, v)) is not None, W, "Mapping protocol: in/get")
                ctx.check(len(lst) == len(exp[p]), W + ".pair_len",
                          lambda: f"pair {(u, v)}: {len(lst)} segments expected {exp[p]}")
                ctx.close(lst.total_span, math.fsum(r - l for l, r, _ in exp[p]), W + ".pair_total_span")
                str(lst)
                if have_segments:
                    got = sorted((s.left, s.right, s.node) for s in lst)
                    ctx.check(got == exp[p], W + ".segments",
                              lambda: f"pair {(u, v)}: {got} expected {exp[p]}")
                    arr = sorted(zip(lst.left.tolist(), lst.right.tolist(), lst.node.tolist()))
                    ctx.check(arr == exp[p], W + ".arrays", lambda: f"pair {(u, v)}: {arr} expected {exp[p]}")
                    ctx.check(all(s.span == s.right - s.left for s in lst), W, "segment span")
                    # history on one result object: ordinary in-place numpy work on the arrays it handed out
                    # (or the refusal of it, if they are read-only) must not change what it reports afterwards
                    for nm in ("left", "right", "node"):
                        a_ = getattr(lst, nm)
                        try:
                            a_ += 1
                            a_[::-1].sort()
                        except ValueError:
                            pass
                    again = sorted(zip(res[(u, v)].left.tolist(), res[(u, v)].right.tolist(), res[(u, v)].node.tolist()))
                    ctx.check(again == exp[p], W + ".arrays_after_scribble",
                              lambda: f"pair {(u, v)}: {again} expected {exp[p]} after writing into the returned arrays")
                    ctx.check(sorted((s.left, s.right, s.node) for s in res[(u, v)]) == exp[p], W + ".segments_after_scribble",
                              f"pair {(u, v)}")
                    ctx.close(res[(u, v)].total_span, math.fsum(r - l for l, r, _ in exp[p]), W + ".pair_total_span_after_scribble")
                else:
                    for nm in ("left", "right", "node"):
                        try:
                            getattr(lst, nm)
                            ctx.fail(W, f"{nm} did not raise although segments are not stored")
                        except tskit.IdentitySegmentsNotStoredError:
                            pass
            else:
                try:
                    lst = res[(u, v)]
                    ctx.fail(W + ".absent_pair", f"pair {(u, v)} present with {len(lst)} segments, expected none")
                except KeyError:
                    pass
    if have_segments and case["min_span"] in (None, 0) and case["max_time"] is None:
        # the unfiltered segments of a pair tile exactly the region where the pair has an MRCA
        bps = model.breakpoints(spec)
        for p in pairs:
            got = sorted((s.left, s.right) for s in res[p]) if p in exp else []
            for a, b in zip(got[:-1], got[1:]):
                ctx.check(a[1] <= b[0], W + ".disjoint", f"pair {p}: overlapping {a} {b}")
            for a, b in zip(bps[:-1], bps[1:]):
                has = model.mrca(model.parent_at(spec, a), p[0], p[1]) >= 0
                cov = sum(1 for l, r in got if l <= a and b <= r)
                ctx.check(cov == (1 if has else 0), W + ".cover",
                          f"pair {p}: [{a},{b}) covered {cov} times, mrca exists: {has}")


def run_ibd(case, ctx):
    import tskit

    spec = case["spec"]
    tables = gen.build_tables(spec, tskit)
    obj = tables.tree_sequence() if case["api"] == "ts" else tables
    ctx.label("api_" + case["api"])
    check_ibd(ctx, tskit, spec, obj, case)


# ------------------------------------------------------------------ larger shapes (internal queue growth etc.)
def enum_bigids(tier, seed):
    for pad in ([50000] if tier == "quick" else [46340, 50000, 70000]):
        for store in ("segments", "pairs", "both"):
            for api in ("ts", "tables"):
                yield dict(pad=pad, store=store, api=api)


def run_bigids(case, ctx):
    """A small genealogy whose node ids start beyond 46341 (pair keys a*N+b need more than 31 bits): the result
    must be the one for the same genealogy at low ids, relabelled."""
    import numpy as np
    import tskit

    pad = case["pad"]
    base = dict(L=2.0, nodes=[[1, 0.0, -1, -1, ""], [1, 0.0, -1, -1, ""], [1, 0.0, -1, -1, ""], [0, 1.0, -1, -1, ""],
                              [0, 2.0, -1, -1, ""]],
                edges=[[0.0, 2.0, 3, 0, ""], [0.0, 1.0, 3, 1, ""], [1.0, 2.0, 4, 1, ""], [0.0, 2.0, 4, 2, ""],
                       [0.0, 2.0, 4, 3, ""]],
                sites=[], mutations=[], individuals=[], populations=[], migrations=[])
    t = tskit.TableCollection(2.0)
    t.nodes.set_columns(flags=np.zeros(pad, dtype=np.uint32), time=np.full(pad, 5.0))
    for fl, tm, *_ in base["nodes"]:
        t.nodes.add_row(flags=fl, time=tm)
    for l, r, p_, c, _ in base["edges"]:
        t.edges.add_row(l, r, p_ + pad, c + pad)
    t.sort()
    t.build_index()
    obj = t.tree_sequence() if case["api"] == "ts" else t
    kw = _kwargs(dict(req=dict(mode="default"), min_span=None, max_time=None, store=case["store"]))
    kw["within"] = [pad, pad + 1, pad + 2]
    res = obj.ibd_segments(**kw)
    pairs = requested_pairs(base, dict(mode="default"))
    exp = {}
    for p_, segs in expected_segments(base, pairs).items():
        exp[(p_[0] + pad, p_[1] + pad)] = sorted((l, r, a + pad) for (l, r, a, _sig) in segs)
    ctx.nt(True)
    ctx.check(res.num_segments == sum(len(v) for v in exp.values()), "bigids.num_segments", f"{res.num_segments}")
    ctx.check(res.num_pairs == len(exp), "bigids.num_pairs", f"{res.num_pairs} expected {len(exp)}")
    if case["store"] in ("pairs", "both"):
        got_pairs = sorted(tuple(int(x) for x in pr) for pr in res.pairs)
        ctx.check(got_pairs == sorted(exp), "bigids.pairs", f"pairs {got_pairs} expected {sorted(exp)}")
        for pr in sorted(exp):
            lst = res[pr]
            ctx.check(len(lst) == len(exp[pr]), "bigids.len", f"pair {pr}: {len(lst)} segments expected {len(exp[pr])}")
            if case["store"] == "both":
                got = sorted((float(sg.left), float(sg.right), int(sg.node)) for sg in lst)
                ctx.check(got == exp[pr], "bigids.segments", f"pair {pr}: {got} expected {exp[pr]}")
        for pr in iter(res):
            ctx.check(tuple(int(x) for x in pr) in exp, "bigids.iter", f"iteration yields {tuple(pr)}")


def enum_large(tier, seed):
    sizes = [65, 80, 130] if tier == "quick" else [64, 65, 80, 129, 130, 200, 260]
    for shape in ("comb", "balanced", "star"):
        for k in sizes:
            for store in ("segments", "pairs", "both"):
                yield dict(shape=shape, k=k, store=store, api="ts" if k % 2 else "tables")
    # more than 64 / 128 sample sets in `between`
    for shape in ("balanced", "comb"):
        for nsets in ([65, 130] if tier == "quick" else [63, 64, 65, 66, 128, 129, 130, 200]):
            yield dict(shape=shape, k=nsets + nsets // 2, store="both", api="ts", nsets=nsets)


def run_large(case, ctx):
    """More than 64 / 128 requested lineages below one node: sizes the random generator never reaches."""
    import tskit

    from ._shapes import shape_spec

    spec = shape_spec(case["shape"], case["k"], internal_samples=(case["k"] % 2 == 0))
    tables = gen.build_tables(spec, tskit)
    obj = tables.tree_sequence() if case["api"] == "ts" else tables
    ctx.nt(True)
    ctx.label("shape:" + case["shape"])
    req = dict(mode="default")
    if case.get("nsets"):
        smp = model.samples(spec)
        ns = case["nsets"]
        sets = [[] for _ in range(ns)]
        for i, u in enumerate(smp):
            sets[i % ns].append(u)
        req = dict(mode="between", between=sets)
        ctx.label("between_many_sets")
    full = dict(spec=spec, req=req, min_span=None, max_time=None, store=case["store"], api=case["api"])
    check_ibd(ctx, tskit, spec, obj, full, label=False)


# ------------------------------------------------------------------ exhaustive small scope
def enum_small(tier, seed):
    """All forests (node u's parent is an older node or none; times = ids) on n nodes for every one of
    k unit intervals, edges merged over adjacent intervals or split at every breakpoint.
    quick: (n<=3, k<=3), (n=4, k<=3); thorough adds (n=5, k<=2)."""
    scopes = [(1, 1), (2, 3), (3, 3), (4, 3)]
    if tier != "quick":
        scopes += [(5, 2)]
    for n, kmax in scopes:
        choices = [[-1] + list(range(u + 1, n)) for u in range(n)]
        forests = list(itertools.product(*choices))
        for k in range(1, kmax + 1):
            for fs in itertools.product(forests, repeat=k):
                for split in ((False, True) if k > 1 else (False,)):
                    edges = []
                    mergeable = False
                    for u in range(n):
                        i = 0
                        while i < k:
                            p = fs[i][u]
                            if p < 0:
                                i += 1
                                continue
                            j = i
                            while j + 1 < k and fs[j + 1][u] == p:
                                mergeable = True
                                if split:
                                    break
                                j += 1
                            edges.append([float(i), float(j + 1), p, u, ""])
                            i = j + 1
                    if split and not mergeable:
                        continue
                    edges.sort(key=lambda e: (e[2], e[3], e[0]))
                    flags = [1 if (u % 3) != 2 else 0 for u in range(n)]
                    yield dict(spec=dict(L=float(k), nodes=[[flags[u], float(u), -1, -1, ""] for u in range(n)],
                                         edges=edges, sites=[], mutations=[], individuals=[], populations=[],
                                         migrations=[]))


def run_small(case, ctx):
    import tskit

    spec = case["spec"]
    n = len(spec["nodes"])
    ctx.nt(n >= 2 and bool(spec["edges"]))
    ctx.label("split_edges", split_labels(spec))
    ts = gen.build_tables(spec, tskit).tree_sequence()
    base = dict(spec=spec, min_span=None, max_time=None, store="segments")
    check_ibd(ctx, tskit, spec, ts, dict(base, req=dict(mode="within", within=list(range(n)))), label=False)
    check_ibd(ctx, tskit, spec, ts, dict(base, req=dict(mode="default"), store="both", min_span=1.0),
              label=False)
    if n >= 2:
        check_ibd(ctx, tskit, spec, ts,
                  dict(base, req=dict(mode="between", between=[list(range(0, n, 2)), list(range(1, n, 2))]),
                       max_time=n - 1.5, store="pairs"), label=False)


NT = ("some requested pair has a segment before filtering, and: the same MRCA on two adjacent segments "
      "(different path or split edge), or one node of a pair is the MRCA (ancestor pair), or a filter "
      "removes at least one segment")
SUBCHECKS = [
    SubCheck("C19.segments", run_ibd, strategy=ibd_case, quick=20000, thorough=600000, rule=NT,
             floors={"some_segments": 0.25, "same_mrca_diff_path": 0.06, "split_on_chain": 0.05,
                     "ancestor_pair": 0.15, "min_span_cuts": 0.08, "max_time_cuts": 0.06,
                     "filter_cuts_some_keeps_some": 0.02,
                     "mode_between": 0.12, "mode_within": 0.15, "nonsample_requested": 0.08}),
    SubCheck("C19.big_ids", run_bigids, enumerate=enum_bigids, quick=1, thorough=1, shards=6,
             rule="a 5-node genealogy placed behind 50000 (thorough: 46340-70000) padding nodes; three store modes x two entry points"),
    SubCheck("C19.large_shapes", run_large, enumerate=enum_large, quick=1, thorough=1,
             rule="comb / balanced / star trees with 65-130 (thorough: up to 260) samples, all sample pairs, three store modes"),
    SubCheck("C19.exhaustive_small", run_small, enumerate=enum_small, quick=1, thorough=1,
             rule="every forest sequence on n<=4 nodes x <=3 unit intervals [thorough: also n=5 x <=2], "
             "edges merged or split at every breakpoint; within=all nodes, default samples with min_span=1, "
             "between=even/odd ids with max_time; n>=2 and >=1 edge"),
]
