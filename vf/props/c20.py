"""C20 — map_mutations returns a most-parsimonious placement that reproduces the data."""
import itertools

from hypothesis import strategies as st

from .. import gen, model
from ..core import SubCheck
from ..gen import F

INF = 10**9

META = dict(
    level="exploration",
    rule="Every marginal tree (default root_threshold) of a generated valid tree sequence (vf/gen.py "
    "ts_spec without sites: polytomies, unary chains, several roots, internal and isolated samples, dead "
    "branches, zero-edge trees, >=1 sample) x genotype vector (dense over k<=5 alleles | sparse over "
    "allele indexes up to 63 | clade-structured: states inherited from random marks on the first tree) x "
    "missing pattern (none/few/many, at least one observation) x ancestral_state in {None, every index "
    "< len(alleles) incl. alleles absent from the data, the same as a string}. Oracle: (i) the returned "
    "ancestral state + mutations, appended as a site to the spec, reproduce every non-missing genotype "
    "under model.allele_at, and the tables with that site load and decode to the same genotypes; (ii) the "
    "number of mutations equals the unit-cost Sankoff DP optimum (observed samples fixed, missing samples "
    "and non-samples free, one unit per root differing from the fixed/free ancestral state); (iii) parent "
    "= index of the nearest returned mutation above (-1 if none), smaller than the own index, at most one "
    "mutation per node, derived state differs from the state replaced; (iv) no mutation on a node whose "
    "parent is unary and is a non-sample or a sample observed as missing; (v) int and str forms of a "
    "fixed ancestral state agree; documented errors raise.",
    assumptions=[
        "reference model vf/model.py (positional parent map, nearest-mutation inheritance)",
        "Sankoff DP written here over the set of observed states plus the fixed ancestral state "
        "(an unobserved state can never lower the cost)",
        "size bounds: <=10 nodes, <=4 trees per tree sequence; exhaustive: all forests on <=4 (quick) / <=5 "
        "(thorough) nodes x all sample-flag assignments x all vectors over {-1,0,1,2}",
        "trees are taken with the default root_threshold=1 (with a larger threshold nodes outside the roots "
        "are not visited by the algorithm; not part of the stated property)",
        "which of several optimal reconstructions is returned is not asserted",
    ],
    technique="property-based testing (Hypothesis) against an independent Sankoff dynamic program and the "
    "positional genotype model; bounded exhaustive enumeration",
    engines=["hypothesis-runner", "exhaustive-small-scope"],
    exhaustive_subchecks=["C20.exhaustive_small"],
)


# ------------------------------------------------------------------ oracle
def sankoff_optimum(spec, par, obs, fixed):
    """Minimum number of state changes.  obs: node -> state for observed samples.  fixed: state or None."""
    n = len(par)
    ch = model.children_of(par)
    states = sorted(set(obs.values()) | ({fixed} if fixed is not None else set()))
    ns = model.num_samples_below(spec, par)
    roots = [u for u in range(n) if par[u] < 0 and ns[u] >= 1]
    cost = {}

    def solve(u):
        for c in ch[u]:
            solve(c)
        row = {}
        for s in states:
            if u in obs and obs[u] != s:
                row[s] = INF
                continue
            tot = 0
            for c in ch[u]:
                tot += min(cost[c][t] + (0 if t == s else 1) for t in states)
            row[s] = tot
        cost[u] = row

    for r in roots:
        solve(r)

    def total(a):
        return sum(min(cost[r][t] + (0 if t == a else 1) for t in states) for r in roots)

    if fixed is not None:
        return total(fixed)
    return min(total(a) for a in states)


def check_one(ctx, tskit, spec, ts, tree, x, geno, alleles, anc, tables=None, W="map_mutations"):
    """All assertions for one (tree, genotypes, ancestral_state) triple; returns (anc_state, muts)."""
    n = len(spec["nodes"])
    smp = model.samples(spec)
    par = model.parent_at(spec, x)
    ch = model.children_of(par)
    obs = {u: g for u, g in zip(smp, geno) if g >= 0}
    if anc is None:
        fixed = None
        a_state, muts = tree.map_mutations(geno, alleles)
    else:
        fixed = anc[1]
        arg = fixed if anc[0] == "idx" else alleles[fixed]
        a_state, muts = tree.map_mutations(geno, alleles, ancestral_state=arg)
        ctx.check(a_state == alleles[fixed], W + ".fixed_ancestral_state",
                  f"returned {a_state!r}, fixed {alleles[fixed]!r}")
    ctx.check(a_state in alleles, W, f"ancestral state {a_state!r} not in alleles")
    detail = lambda: (f"x={x} par={par} samples={smp} geno={geno} anc={anc} -> {a_state!r} "  # noqa: E731
                      f"{[(m.node, m.derived_state, m.parent) for m in muts]}")
    # (iii) table validity
    on = {}
    for j, m in enumerate(muts):
        ctx.check(0 <= m.node < n, W + ".node", detail)
        ctx.check(m.derived_state in alleles, W + ".derived_state", detail)
        ctx.check(m.node not in on, W + ".two_mutations_on_one_node", detail)
        on[m.node] = j
    for j, m in enumerate(muts):
        v = par[m.node]
        exp_parent = -1
        while v >= 0:
            if v in on:
                exp_parent = on[v]
                break
            v = par[v]
        ctx.check(m.parent == exp_parent, W + ".parent_link",
                  lambda: f"mutation {j}: parent {m.parent} expected {exp_parent}; " + detail())
        ctx.check(m.parent < j, W + ".parent_order", detail)
        above = a_state if exp_parent < 0 else muts[exp_parent].derived_state
        ctx.check(m.derived_state != above, W + ".silent_mutation", detail)
        # (iv) oldest node of a unary chain
        p = par[m.node]
        if p >= 0 and len(ch[p]) == 1 and p not in obs:
            ctx.check(False, W + (".unary_chain_oldest" if not model.is_sample(spec, p)
                                  else ".unary_chain_oldest_missing_sample"),
                      lambda: f"mutation on {m.node} whose parent {p} is unary and unobserved; " + detail())
    # (i) reproduces the data (positional model on the spec with the site appended)
    # (one mutation per node was checked above, so the state at u is the derived state of the nearest mutation at
    # or above u, else the ancestral state; memoised walk, linear in the number of nodes)
    state_at = {}
    for u, g in obs.items():
        path, v = [], u
        while v >= 0 and v not in state_at and v not in on:
            path.append(v)
            v = par[v]
        got = a_state if v < 0 else (state_at[v] if v in state_at else muts[on[v]].derived_state)
        for w in path:
            state_at[w] = got
        ctx.check(got == alleles[g], W + ".reproduce",
                  lambda: f"sample {u}: placed state {got!r}, observed {alleles[g]!r}; " + detail())
    # (ii) optimal
    opt = sankoff_optimum(spec, par, obs, fixed)
    ctx.check(len(muts) == opt, W + ".optimal",
              lambda: f"{len(muts)} mutations, Sankoff optimum {opt}; " + detail())
    if tables is not None:
        # the documented recipe: the result goes into a mutation table as is and decodes to the data
        t2 = tables.copy()
        sid = t2.sites.add_row(x, a_state)
        for m in muts:
            t2.mutations.append(m.replace(site=sid, parent=m.parent, time=tskit.UNKNOWN_TIME))
        ts2 = t2.tree_sequence()
        var = next(ts2.variants(isolated_as_missing=False))
        for u, g in obs.items():
            k = smp.index(u)
            ctx.check(var.alleles[var.genotypes[k]] == alleles[g], W + ".reproduce_in_tables", detail)
        t3 = t2.copy()
        t3.compute_mutation_parents()
        ctx.check(list(t3.mutations.parent) == [m.parent for m in muts], W + ".parent_vs_compute", detail)
    return a_state, muts


# ------------------------------------------------------------------ generated cases
ALLELE_NAMES = ["A", "C", "G", "T", "", "AC", "*", "a"] + [f"x{i}" for i in range(8, 64)]


@st.composite
def mm_case(draw):
    spec = draw(gen.ts_spec(max_nodes=10, min_nodes=draw(st.sampled_from([5, 3, 1, 7])), max_intervals=4, max_sites=0,
                            migrations=False, metadata=False, individuals=False, populations=False,
                            time_styles=("small_int", "frac", "neg", "huge", "frac", "two"),
                            min_samples=draw(st.sampled_from([4, 2, 3, 1, 6]))))
    n = len(spec["nodes"])
    smp = model.samples(spec)
    ns = len(smp)
    kind = draw(st.sampled_from(["clade", "dense", "sparse", "dense"]))
    if kind == "dense":
        k = draw(st.sampled_from([3, 4, 2, 5, 1]))
        geno = [draw(st.integers(0, k - 1)) for _ in smp]
    elif kind == "sparse":
        pool = draw(st.lists(st.sampled_from([0, 1, 2, 5, 31, 32, 62, 63]), min_size=2, max_size=4, unique=True))
        geno = [draw(st.sampled_from(pool)) for _ in smp]
    else:
        k = draw(st.sampled_from([3, 4, 2, 5]))
        par = model.parent_at(spec, 0.0)
        mark = {}
        for u in range(n):
            if draw(st.integers(0, 2)) != 0:
                mark[u] = draw(st.integers(0, k - 1))
        base = draw(st.integers(0, k - 1))
        geno = []
        for u in smp:
            v = u
            while v >= 0 and v not in mark:
                v = par[v]
            geno.append(mark[v] if v >= 0 else base)
    mk = draw(st.sampled_from(["few", "none", "many", "few", "none"]))
    if mk != "none":
        for j in range(ns):
            if draw(st.integers(0, 9)) < (2 if mk == "few" else 5):
                geno[j] = -1
    if all(g < 0 for g in geno):
        geno[draw(st.integers(0, ns - 1))] = 0
    nall = max(geno) + 1 + draw(st.sampled_from([0, 1, 0, 2]))
    nall = min(nall, 64)
    ak = draw(st.sampled_from(["none", "idx", "str", "idx"]))
    anc = None if ak == "none" else [ak, draw(st.integers(0, nall - 1))]
    return dict(spec=spec, geno=geno, nall=nall, anc=anc)


def run_mm(case, ctx):
    import tskit

    spec, geno, anc = case["spec"], case["geno"], case["anc"]
    alleles = ALLELE_NAMES[: case["nall"]]
    labs = gen.spec_labels(spec, model)
    for l in labs & {"multi_tree", "multi_root", "unary", "polytomy", "internal_sample", "isolated_sample",
                     "dead_branch", "zero_edges", "gap"}:
        ctx.label(l)
    smp = model.samples(spec)
    observed = {g for g in geno if g >= 0}
    missing = any(g < 0 for g in geno)
    ctx.label("missing", missing)
    ctx.label("alleles>=3", len(observed) >= 3)
    ctx.label("allele_index>=32", max(geno) >= 32)
    ctx.label("anc_fixed", anc is not None)
    ctx.label("anc_absent_from_data", anc is not None and anc[1] not in observed)
    tables = gen.build_tables(spec, tskit)
    ts = tables.tree_sequence()
    bps = model.breakpoints(spec)
    miss_internal = miss_unary = nontriv = False
    total_muts = 0
    for i, tree in enumerate(ts.trees()):
        x = bps[i]
        par = model.parent_at(spec, x)
        ch = model.children_of(par)
        for u, g in zip(smp, geno):
            if g < 0 and ch[u]:
                miss_internal = True
                if len(ch[u]) == 1:
                    miss_unary = True
        if (i + len(geno)) % 2 == 0 and smp:
            # history on one Tree object: rejected calls must leave nothing behind for the next valid call
            for bad in ([-1] * len(smp), list(geno[:-1]) + [-2], list(geno[:-1]) + [64]):
                try:
                    tree.map_mutations(bad, [str(k) for k in range(64)])
                except (tskit.LibraryError, ValueError):
                    pass
                else:
                    ctx.fail("map_mutations.bad_genotypes_accepted", f"{bad}")
        a1, m1 = check_one(ctx, tskit, spec, ts, tree, x, geno, alleles, anc, tables=tables)
        total_muts += len(m1)
        if anc is not None:
            other = ["str" if anc[0] == "idx" else "idx", anc[1]]
            # allele strings are unique, so both spellings denote the same state
            a2, m2 = check_one(ctx, tskit, spec, ts, tree, x, geno, alleles, other)
            ctx.check(a1 == a2 and [(m.node, m.derived_state, m.parent) for m in m1]
                      == [(m.node, m.derived_state, m.parent) for m in m2], "map_mutations.int_vs_str",
                      "index and string spelling of the fixed ancestral state differ")
        else:
            # the free optimum is never worse than any fixed one, and equals the best fixed one
            best = min(sankoff_optimum(spec, par, {u: g for u, g in zip(smp, geno) if g >= 0}, a)
                       for a in sorted(observed))
            ctx.check(len(m1) == best, "map_mutations.free_vs_fixed", f"{len(m1)} vs best fixed {best}")
        ns = model.num_samples_below(spec, par)
        nroots = sum(1 for u in range(len(par)) if par[u] < 0 and ns[u] >= 1)
        internal = any(ch[u] for u in smp)
        if len(smp) >= 2 and (len(observed) >= 3 or missing or internal or nroots >= 2 or
                              (anc is not None and anc[1] not in observed)):
            nontriv = True
    # history on one Tree object moved by seek / seek_index / prev between calls with identical arguments: the answer
    # depends on the tree it is on, not on an earlier call
    T = len(bps) - 1
    if T >= 2 and smp:
        ctx.label("moved_tree_history")
        tree = tskit.Tree(ts)
        order = list(range(T - 1, -1, -1)) + [0, T - 1, T // 2]
        for k, i in enumerate(order):
            if k % 3 == 0:
                tree.seek_index(i)
            elif k % 3 == 1:
                tree.seek(bps[i])
            elif tree.index == i + 1:
                tree.prev()
            else:
                tree.seek_index(i)
            check_one(ctx, tskit, spec, ts, tree, bps[i], geno, alleles, anc, W="map_mutations[moved tree]")
    ctx.label("missing_internal_sample", miss_internal)
    ctx.label("missing_unary_sample", miss_unary)
    ctx.label("mutations>=2", total_muts >= 2)
    ctx.nt(nontriv)


# ------------------------------------------------------------------ documented errors
@st.composite
def err_case(draw):
    spec = draw(gen.ts_spec(max_nodes=7, max_intervals=2, max_sites=0, migrations=False, metadata=False,
                            individuals=False, populations=False, min_samples=1))
    return dict(spec=spec, which=draw(st.integers(0, 6)), v=draw(st.integers(0, 63)),
                j=draw(st.integers(0, 100)))


def run_err(case, ctx):
    import tskit

    spec = case["spec"]
    ts = gen.build_tables(spec, tskit).tree_sequence()
    tree = ts.first()
    ns = ts.num_samples
    j = case["j"] % ns
    which = case["which"]
    ctx.label(f"error_kind_{which}")
    ctx.nt(True)
    alleles = ALLELE_NAMES[:4]
    good = [0] * ns

    def must_raise(excs, what, *args, **kw):
        try:
            tree.map_mutations(*args, **kw)
        except excs:
            return
        ctx.fail("map_mutations.error", what + " did not raise")

    if which == 0:
        must_raise((tskit.LibraryError, ValueError), "all observations missing", [-1] * ns, alleles)
    elif which == 1:
        g = list(good)
        g[j] = 64 + case["v"]  # 64..127 fits in int8
        must_raise(ValueError, "allele index >= 64", g, ALLELE_NAMES + ["y"] * 64)
    elif which == 2:
        must_raise(ValueError, "ancestral_state index >= len(alleles)", good, alleles, ancestral_state=4 + case["v"])
    elif which == 3:
        must_raise(ValueError, "negative ancestral_state", good, alleles, ancestral_state=-1 - case["v"])
    elif which == 4:
        must_raise(ValueError, "ancestral_state string not among the alleles", good, alleles, ancestral_state="Q")
    elif which == 5:
        must_raise(ValueError, "genotypes of the wrong length", good + [0], alleles)
        if ns > 1:
            must_raise(ValueError, "genotypes of the wrong length", good[:-1], alleles)
    else:
        must_raise(ValueError, "fixed ancestral state index >= 64", good, ALLELE_NAMES + ["y"] * 64,
                   ancestral_state=64 + case["v"])
    # and the tree is still usable afterwards
    a, m = tree.map_mutations(good, alleles)
    ctx.check(a == "A" and m == [], "map_mutations.after_error", f"{a!r} {m}")


# ------------------------------------------------------------------ exhaustive small scope
def enum_small(tier, seed):
    N = 4 if tier == "quick" else 5
    for n in range(1, N + 1):
        choices = [[-1] + list(range(u + 1, n)) for u in range(n)]
        for f in itertools.product(*choices):
            for flags in itertools.product([0, 1], repeat=n):
                if not any(flags):
                    continue
                edges = [[0.0, 1.0, f[u], u, ""] for u in range(n) if f[u] >= 0]
                edges.sort(key=lambda e: (e[2], e[3]))
                yield dict(spec=dict(L=1.0, nodes=[[flags[u], float(u), -1, -1, ""] for u in range(n)],
                                     edges=edges, sites=[], mutations=[], individuals=[], populations=[],
                                     migrations=[]), full=(n <= 4))


def run_small(case, ctx):
    import tskit

    spec = case["spec"]
    smp = model.samples(spec)
    ts = gen.build_tables(spec, tskit).tree_sequence()
    tree = ts.first()
    alleles = ["A", "C", "G", "T"]
    ctx.nt(len(smp) >= 2)
    ancs = [None, ["idx", 0], ["idx", 1], ["idx", 2], ["str", 3]] if case["full"] else [None, ["idx", 1]]
    for geno in itertools.product([-1, 0, 1, 2], repeat=len(smp)):
        if all(g < 0 for g in geno):
            continue
        for anc in ancs:
            check_one(ctx, tskit, spec, ts, tree, 0.0, list(geno), alleles, anc)


def enum_large(tier, seed):
    sizes = [255, 256, 257, 300] if tier == "quick" else [64, 255, 256, 257, 300, 513, 1000]
    for shape in ("star", "comb", "balanced", "multiroot"):
        for k in sizes:
            for pattern in ("majority", "random2", "random4", "missing_mix"):
                for anc in (None, ["idx", 1]):
                    yield dict(shape=shape, k=k, pattern=pattern, anc=anc, internal=(k % 2 == 1))
    # answers with more than 2^15 / 2^16 mutations, half of them nested under another mutation
    for k, anc in ([(18000, None)] if tier == "quick" else [(18000, None), (18000, ["idx", 0]), (34000, None), (34000, ["idx", 2])]):
        yield dict(shape="nested_groups", k=k, pattern="groups", anc=anc, internal=False)


def nested_groups(K):
    """Root polytomy with K groups X(1, 1, Y(2, 2)) and K+1 leaves in state 0: the most parsimonious answer has a
    0->1 mutation over every X and a 1->2 mutation over every Y whose parent is the mutation over its X."""
    nodes, edges, geno = [], [], []
    root = 0
    nodes.append([0, 3.0, -1, -1, ""])
    for _ in range(K):
        x = len(nodes)
        nodes.append([0, 2.0, -1, -1, ""])
        y = len(nodes)
        nodes.append([0, 1.0, -1, -1, ""])
        edges.append([0.0, 1.0, root, x, ""])
        edges.append([0.0, 1.0, x, y, ""])
        for par, g in ((x, 1), (x, 1), (y, 2), (y, 2)):
            nodes.append([1, 0.0, -1, -1, ""])
            edges.append([0.0, 1.0, par, len(nodes) - 1, ""])
            geno.append(g)
    for _ in range(K + 1):
        nodes.append([1, 0.0, -1, -1, ""])
        edges.append([0.0, 1.0, root, len(nodes) - 1, ""])
        geno.append(0)
    edges.sort(key=lambda e: (nodes[e[2]][1], e[2], e[3]))
    return dict(L=1.0, nodes=nodes, edges=edges, sites=[], mutations=[], individuals=[], populations=[],
                migrations=[]), geno


def run_large(case, ctx):
    """Counts per allele beyond 255 / 256 children on one node, deep combs: sizes the random generator never
    reaches.  Same oracle (reproduce, Sankoff optimum, parent links, unary rule) as C20.parsimony."""
    import sys

    import tskit

    from ._shapes import lcg, shape_spec

    sys.setrecursionlimit(max(sys.getrecursionlimit(), 5000))
    if case["shape"] == "nested_groups":
        spec, geno = nested_groups(case["k"])
        ctx.nt(True)
        ctx.label("shape:nested_groups")
        ts = gen.build_tables(spec, tskit).tree_sequence()
        _, muts = check_one(ctx, tskit, spec, ts, ts.first(), 0.0, geno, ["A", "C", "G", "T"], case["anc"])
        ctx.check(len(muts) == 2 * case["k"], "map_mutations.optimal", f"{len(muts)} mutations, expected {2 * case['k']}")
        return
    spec = shape_spec(case["shape"], case["k"], internal_samples=case["internal"])
    smp = model.samples(spec)
    g = lcg(case["k"] * 31 + len(case["pattern"]))
    if case["pattern"] == "majority":
        cut = len(smp) * 13 // 15
        geno = [0 if i < cut else 1 for i in range(len(smp))]
    elif case["pattern"] == "random2":
        geno = [next(g) % 2 for _ in smp]
    elif case["pattern"] == "random4":
        geno = [next(g) % 4 for _ in smp]
    else:
        geno = [(next(g) % 5) - 1 for _ in smp]
        geno[0] = 2
    ctx.nt(True)
    ctx.label("shape:" + case["shape"])
    ts = gen.build_tables(spec, tskit).tree_sequence()
    check_one(ctx, tskit, spec, ts, ts.first(), 0.0, geno, ["A", "C", "G", "T"], case["anc"])


NT = (">=2 samples and, in some tree of the case: >=3 distinct observed alleles, or a missing observation, or an "
      "internal sample, or >=2 roots, or a fixed ancestral state absent from the data")
SUBCHECKS = [
    SubCheck("C20.parsimony", run_mm, strategy=mm_case, quick=8000, thorough=240000, rule=NT,
             floors={"missing": 0.2, "missing_internal_sample": 0.04, "missing_unary_sample": 0.01,
                     "internal_sample": 0.2, "multi_root": 0.2, "unary": 0.2, "polytomy": 0.1,
                     "alleles>=3": 0.06, "anc_fixed": 0.3, "anc_absent_from_data": 0.05,
                     "allele_index>=32": 0.03, "mutations>=2": 0.2}),
    SubCheck("C20.errors", run_err, strategy=err_case, quick=300, thorough=5000,
             rule="every case exercises one documented error (all missing, allele>=64, bad ancestral state "
             "index/string, wrong length)"),
    SubCheck("C20.large_shapes", run_large, enumerate=enum_large, quick=1, thorough=1,
             rule="star / comb / balanced / multi-root trees with 255-300 (thorough: up to 1000) samples x 4 genotype patterns "
                  "x fixed or free ancestral state"),
    SubCheck("C20.exhaustive_small", run_small, enumerate=enum_small, quick=1, thorough=1,
             rule="every forest on <=4 (quick) / <=5 (thorough) nodes x every non-empty sample-flag assignment x "
             "every genotype vector over {-1,0,1,2} with an observation x ancestral_state in {None,0,1,2,absent} "
             "(n=5: {None,1}); >=2 samples"),
]
