"""C17 — text table dumps reload to the same tree sequence; the seven parsers accept columns in any
order, ignore unknown columns and fill omitted optional columns with their documented defaults."""
import base64
import decimal
import io
import struct

from hypothesis import strategies as st

from .. import gen, model
from ..core import SubCheck
from ..gen import B, F

META = dict(
    level="exploration",
    rule="roundtrip: valid tree sequences by construction (vf/gen.py ts_spec; schema-less arbitrary byte "
    "metadata on every row incl. empty, individuals with ragged location/parents incl. empty and parents "
    "that point to later rows, migrations, populations, extra node flag bits, allelic states that are "
    "empty / multi-character / non-ASCII / contain spaces but no tab or line break, known and unknown "
    "mutation times mixed across sites, dyadic coordinates and times) are written with dump_text("
    "precision = number of decimals the coordinates need + {0,0,1,3}, Base64 metadata) into StringIO "
    "objects and reloaded with load_text(strict=True, sequence_length=L). ORACLE: a copy of the original "
    "tables reduced to what the text format carries (edge metadata dropped, node flags & NODE_IS_SAMPLE, "
    "no provenance) after the documented post-load sort(); every column of nodes, edges, sites, "
    "mutations, individuals, populations, migrations must be byte-identical (mutation times bit-exact "
    "incl. UNKNOWN_TIME). Variant: populations file withheld -> documented back-fill of max(node "
    "population)+1 empty rows. parsers: for each of the seven parse_* functions a table of arbitrary "
    "row values is rendered by the check (tab separated, header first) with the columns in a random "
    "order, a random subset of the optional columns omitted and unknown columns (incl. `id`) inserted; "
    "ORACLE: the intended rows with the documented defaults (population/individual/parent -1, "
    "UNKNOWN_TIME, empty metadata/location/parents). strict=False is exercised only when no field is "
    "empty or contains whitespace.",
    assumptions=[
        "TableCollection.sort() is a deterministic function of the table content (applied to both sides)",
        "dyadic coordinates: '%.{p}f' with p >= the exact number of decimals is lossless",
        "not asserted: edge metadata, non-sample node flag bits, provenance, schemas, time_units "
        "(not claimed by the property); is_sample values other than 0/1; comma separated child lists",
        "sizes: <=8 nodes, <=4 sites, <=4 individuals/populations; parser tables <=4 rows",
    ],
    technique="property-based testing (Hypothesis) against a reduced-table oracle / intended-row oracle",
    engines=["hypothesis-runner"],
)

UNKNOWN_BITS = bytes.fromhex("2174696b7374f87f")
ALLELES = ("", "A", "AC", "é", "☃x", "a b", " ", "0", "T")


# ------------------------------------------------------------------ roundtrip
def decimals_needed(x):
    d = decimal.Decimal(float(x))
    return max(0, -d.as_tuple().exponent)


@st.composite
def text_case(draw):
    spec = draw(gen.ts_spec(max_nodes=8, max_sites=4, max_intervals=3, alphabet=ALLELES,
                            mut_times=draw(st.sampled_from(["unknown", "known", "known"]))))
    # individuals: parents may point forwards, but never in a cycle
    n_ind = len(spec["individuals"])
    if n_ind:
        rank = list(draw(st.permutations(list(range(n_ind)))))
        for j, ind in enumerate(spec["individuals"]):
            older = [-1] + [q for q in range(n_ind) if rank[q] < rank[j]]
            ind[2] = draw(st.lists(st.sampled_from(older), max_size=3))
            ind[1] = draw(st.lists(st.sampled_from([0.0, 1.5, -2.0, 1e6, 0.1, 1e-7, 123456.789]), max_size=3))
            ind[0] = draw(st.sampled_from([0, 0, 1, 1 << 16, 2**32 - 1]))
    # known and unknown mutation times in one file (never within one site)
    if spec["mutations"] and any(m[4] is not None for m in spec["mutations"]):
        for s in range(len(spec["sites"])):
            if draw(st.integers(0, 2)) == 0:
                for m in spec["mutations"]:
                    if m[0] == s:
                        m[4] = None
    # times scaled by an exact power of two: order and validity are unchanged, decimals grow
    k = draw(st.sampled_from([0, 0, 0, 3, 10, 20]))
    if k:
        sc = 2.0 ** -k
        for n in spec["nodes"]:
            n[1] = F(n[1]) * sc
        for m in spec["mutations"]:
            if m[4] is not None:
                m[4] = F(m[4]) * sc
        for m in spec["migrations"]:
            m[5] = F(m[5]) * sc
    return dict(spec=spec, extra_precision=draw(st.sampled_from([0, 0, 1, 3])),
                withhold_populations=draw(st.integers(0, 4)) == 0,
                md_redraw=draw(st.lists(st.binary(max_size=6).map(lambda b: b.decode("latin-1")), max_size=4)))


def col_image(table):
    return {c: (getattr(table, c).dtype.str, getattr(table, c).tobytes()) for c in table.column_names}


def run_text(case, ctx):
    import numpy as np
    import tskit

    spec = case["spec"]
    # sprinkle arbitrary bytes over some metadata cells (position fixed by the list index)
    rows = [(n, r) for n in ("nodes", "sites", "mutations", "individuals", "populations", "migrations")
            for r in spec[n]]
    for k, md in enumerate(case["md_redraw"]):
        if rows:
            name, r = rows[(k * 7 + len(md)) % len(rows)]
            r[{"nodes": 4, "sites": 2, "mutations": 5, "individuals": 3, "populations": 0,
               "migrations": 6}[name]] = md
    t = gen.build_tables(spec, tskit)
    ts = t.tree_sequence()
    L = F(spec["L"])
    vals = [F(n[1]) for n in spec["nodes"]] + [F(e[0]) for e in spec["edges"]] + \
        [F(e[1]) for e in spec["edges"]] + [F(s[0]) for s in spec["sites"]]
    need = max([decimals_needed(v) for v in vals] + [0])
    precision = need + case["extra_precision"]
    ctx.label("precision_0", precision == 0)
    ctx.label("precision_gt_6", precision > 6)
    ctx.label("precision_exact", case["extra_precision"] == 0)
    ctx.label("node_time_needs_gt_6_decimals", any(decimals_needed(F(n[1])) > 6 for n in spec["nodes"]))
    inds = spec["individuals"]
    L1 = ctx.label("individual_empty_parents_or_location", any(not i[1] or not i[2] for i in inds))
    ctx.label("individual_forward_parent", any(p > j for j, i in enumerate(inds) for p in i[2]))
    ctx.label("individuals_ragged", len({len(i[1]) for i in inds}) > 1 or len({len(i[2]) for i in inds}) > 1)
    L2 = ctx.label("empty_allele", any(s[1] == "" for s in spec["sites"]) or
                   any(m[2] == "" for m in spec["mutations"]))
    ctx.label("non_ascii_allele", any(ord(c) > 127 for s in spec["sites"] for c in s[1]) or
              any(ord(c) > 127 for m in spec["mutations"] for c in m[2]))
    ctx.label("space_allele", any(" " in s[1] for s in spec["sites"]) or any(" " in m[2] for m in spec["mutations"]))
    kn = any(m[4] is not None for m in spec["mutations"])
    un = any(m[4] is None for m in spec["mutations"])
    L3 = ctx.label("known_and_unknown_mutation_times", kn and un)
    ctx.label("known_mutation_times", kn)
    ctx.label("mutation_with_parent", any(m[3] >= 0 for m in spec["mutations"]))
    ctx.label("migrations", bool(spec["migrations"]))
    ctx.label("extra_node_flags", any(n[0] & ~1 for n in spec["nodes"]))
    ctx.label("empty_and_nonempty_metadata", any(n[4] == "" for n in spec["nodes"]) and
              any(n[4] != "" for n in spec["nodes"]))
    ctx.label("binary_metadata", any(any(ord(c) > 127 or ord(c) < 32 for c in r[-1]) for n, r in rows))
    ctx.label("populations", bool(spec["populations"]))
    for l in gen.spec_labels(spec, model) & {"multi_tree", "multi_root", "nonint_coords"}:
        ctx.label(l)
    ctx.nt(L1 or L2 or L3)

    names = ["nodes", "edges", "sites", "mutations", "individuals", "populations", "migrations"]
    files = {k: io.StringIO() for k in names}
    prov = io.StringIO()
    ts.dump_text(**files, provenances=prov, precision=precision)
    texts = {k: f.getvalue() for k, f in files.items()}
    for k, txt in texts.items():
        nrows = getattr(ts, "num_" + k)
        ctx.check(txt.count("\n") == nrows + 1 and txt.endswith("\n"), "dump_text",
                  lambda: f"{k}: {txt.count(chr(10))} lines for {nrows} rows: {txt!r}")
    withhold = case["withhold_populations"]
    pops_used = [n[2] for n in spec["nodes"]] + [m[3] for m in spec["migrations"]] + \
        [m[4] for m in spec["migrations"]]
    node_max = max([n[2] for n in spec["nodes"]] + [-1])
    if withhold and max(pops_used + [-1]) > node_max:
        withhold = False  # the back-fill only looks at the node table
    ctx.label("populations_withheld", withhold)
    src = {k: io.StringIO(v) for k, v in texts.items()}
    if withhold:
        del src["populations"]
    ts2 = tskit.load_text(**src, sequence_length=L, strict=True)
    got = ts2.dump_tables()
    ctx.check(struct.pack("<d", ts2.sequence_length) == struct.pack("<d", L), "sequence_length",
              f"{ts2.sequence_length} expected {L}")

    exp = ts.dump_tables()
    exp.provenances.clear()
    d = exp.edges.asdict()
    exp.edges.set_columns(left=d["left"], right=d["right"], parent=d["parent"], child=d["child"])
    d = exp.nodes.asdict()
    d["flags"] = d["flags"] & np.uint32(1)
    exp.nodes.set_columns(**d)
    if withhold:
        exp.populations.clear()
        for _ in range(node_max + 1):
            exp.populations.add_row()
    exp.sort()
    for name in names:
        a, b = col_image(getattr(got, name)), col_image(getattr(exp, name))
        for c in b:
            ctx.check(a[c] == b[c], f"{name}.{c}",
                      lambda: f"reloaded {getattr(getattr(got, name), c)!r} expected "
                              f"{getattr(getattr(exp, name), c)!r}\ntext: {texts[name]!r}")
    ctx.check(got.provenances.num_rows == 0, "provenances", "load_text produced provenance rows")


# ------------------------------------------------------------------ parsers
INT = st.one_of(st.sampled_from([-1, -1, 0, 1, 2, 7]), st.integers(-1, 2**31 - 2))
U32 = st.one_of(st.sampled_from([0, 0, 1, 2, 1 << 16]), st.integers(0, 2**32 - 1))
FLT = st.one_of(st.sampled_from([0.0, 1.0, 0.5, -2.75, 1e6, 1e-7, 0.1, 1e300, -0.0]),
                st.floats(allow_nan=False, allow_infinity=False, width=64))
MD = st.one_of(st.sampled_from(["", "", "a", "\x00", "ab\xff\x00", "{}"]),
               st.binary(max_size=8).map(lambda b: b.decode("latin-1")))
STATE = st.sampled_from(["", "A", "AC", "é", "☃x", "a b", " ", "0", "unknown", "-1"])

# column name -> (kind, optional?)   kinds: int u32 flt md state lflt lint mtime sample
PARSERS = dict(
    nodes=[("is_sample", "sample", False), ("time", "flt", False), ("population", "int", True),
           ("individual", "int", True), ("metadata", "md", True)],
    edges=[("left", "flt", False), ("right", "flt", False), ("parent", "int", False), ("child", "int", False)],
    sites=[("position", "flt", False), ("ancestral_state", "state", False), ("metadata", "md", True)],
    mutations=[("site", "int", False), ("node", "int", False), ("derived_state", "state", False),
               ("time", "mtime", True), ("parent", "int", True), ("metadata", "md", True)],
    individuals=[("flags", "u32", False), ("location", "lflt", True), ("parents", "lint", True),
                 ("metadata", "md", True)],
    populations=[("metadata", "md", False)],
    migrations=[("left", "flt", False), ("right", "flt", False), ("node", "int", False),
                ("source", "int", False), ("dest", "int", False), ("time", "flt", False),
                ("metadata", "md", True)],
)
KIND = dict(int=INT, u32=U32, flt=FLT, md=MD, state=STATE, sample=st.sampled_from([0, 1]),
            lflt=st.lists(FLT, max_size=3), lint=st.lists(INT, max_size=3),
            mtime=st.one_of(st.none(), FLT))
EXTRA_NAMES = ["id", "id", "name", "comment", "flags2", "x"]


@st.composite
def parser_case(draw):
    table = draw(st.sampled_from(sorted(PARSERS)))
    cols = PARSERS[table]
    present = [c[0] for c in cols if not c[2] or draw(st.booleans())]
    nrows = draw(st.integers(0, 4))
    rows = [[draw(KIND[c[1]]) for c in cols] for _ in range(nrows)]
    extras = draw(st.lists(st.sampled_from(EXTRA_NAMES), max_size=2, unique=True))
    layout = present + ["+" + e for e in extras]
    layout = list(draw(st.permutations(layout)))
    extra_vals = [[draw(st.sampled_from(["0", "7", "zz", "-1", "1.5", "é"])) for _ in extras] for _ in range(nrows)]
    return dict(table=table, rows=rows, layout=layout, extra_vals=extra_vals, extras=extras,
                float_fmt=draw(st.sampled_from(["repr", "repr", "e", "f"])),
                strict=draw(st.sampled_from([True, True, False])),
                spaces=draw(st.sampled_from([" ", "  ", " \t ", "\t"])))


def fmt_float(x, how):
    x = float(x)
    if how == "e":
        return "%.17e" % x
    if how == "f" and abs(x) < 1e15 and decimals_needed(x) <= 12:
        return "%.*f" % (decimals_needed(x), x)
    return repr(x)


def render(kind, v, how):
    if kind in ("int", "u32", "sample"):
        return str(v)
    if kind == "flt":
        return fmt_float(v, how)
    if kind == "mtime":
        return "unknown" if v is None else fmt_float(v, how)
    if kind == "md":
        return base64.b64encode(B(v)).decode("ascii")
    if kind == "state":
        return v
    if kind == "lflt":
        return ",".join(fmt_float(x, how) for x in v)
    if kind == "lint":
        return ",".join(str(x) for x in v)
    raise AssertionError(kind)


def run_parser(case, ctx):
    import numpy as np
    import tskit

    name = case["table"]
    cols = PARSERS[name]
    kinds = {c[0]: c[1] for c in cols}
    idx = {c[0]: i for i, c in enumerate(cols)}
    layout = case["layout"]
    present = [c for c in layout if not c.startswith("+")]
    omitted = [c[0] for c in cols if c[0] not in present]
    header = [c[1:] if c.startswith("+") else c for c in layout]
    lines = ["\t".join(header)]
    all_fields = []
    for r, ev in zip(case["rows"], case["extra_vals"]):
        fields = []
        for c in layout:
            if c.startswith("+"):
                fields.append(ev[case["extras"].index(c[1:])])
            else:
                fields.append(render(kinds[c], r[idx[c]], case["float_fmt"]))
        all_fields += fields
        lines.append("\t".join(fields))
    strict = case["strict"]
    if not strict:
        # relaxed splitting only where it is unambiguous
        if any(f == "" or any(ch.isspace() for ch in f) for f in all_fields):
            strict = True
    sep = "\t" if strict else case["spaces"]
    text = "".join(l.replace("\t", sep) + "\n" for l in lines)
    natural = [c[0] for c in cols if c[0] in present]
    ctx.label("table_" + name)
    permuted = ctx.label("permuted", present != natural)
    om = ctx.label("optional_omitted", bool(omitted))
    ex = ctx.label("unknown_column", bool(case["extras"]))
    ctx.label("id_column", "id" in case["extras"])
    ctx.label("strict_false", not strict)
    ctx.label("zero_rows", not case["rows"])
    ctx.label("empty_field", any(f == "" for f in all_fields))
    ctx.nt((permuted or om or ex) and bool(case["rows"]))
    fn = getattr(tskit, "parse_" + name)
    src = io.StringIO(text)
    if name == "edges":
        got = fn(src, strict=strict)
    else:
        got = fn(src, strict=strict, base64_metadata=True)
    ctx.check(type(got).__name__.lower().startswith(name[:-1][:6]), "return type", type(got).__name__)

    # ---- expected table from the intended rows + documented defaults
    def val(r, c, default):
        return r[idx[c]] if c in present else default

    exp = getattr(tskit, type(got).__name__)()
    unknown = struct.unpack("<d", UNKNOWN_BITS)[0]
    for r in case["rows"]:
        if name == "nodes":
            exp.add_row(flags=1 if r[0] else 0, time=float(r[1]), population=val(r, "population", -1),
                        individual=val(r, "individual", -1), metadata=B(val(r, "metadata", "")))
        elif name == "edges":
            exp.add_row(float(r[0]), float(r[1]), r[2], r[3])
        elif name == "sites":
            exp.add_row(float(r[0]), r[1], metadata=B(val(r, "metadata", "")))
        elif name == "mutations":
            tm = val(r, "time", None)
            exp.add_row(site=r[0], node=r[1], derived_state=r[2], time=unknown if tm is None else float(tm),
                        parent=val(r, "parent", -1), metadata=B(val(r, "metadata", "")))
        elif name == "individuals":
            exp.add_row(flags=r[0], location=[float(x) for x in val(r, "location", [])],
                        parents=val(r, "parents", []), metadata=B(val(r, "metadata", "")))
        elif name == "populations":
            exp.add_row(metadata=B(r[0]))
        elif name == "migrations":
            exp.add_row(float(r[0]), float(r[1]), r[2], r[3], r[4], float(r[5]),
                        metadata=B(val(r, "metadata", "")))
    a, b = col_image(got), col_image(exp)
    for c in b:
        ctx.check(a[c] == b[c], f"parse_{name}.{c}",
                  lambda: f"parsed {getattr(got, c)!r} expected {getattr(exp, c)!r}\ntext: {text!r}")


# ------------------------------------------------------------------ many rows (text written / parsed in blocks)
def enum_rows(tier, seed):
    for k in ([4100, 8200] if tier == "quick" else [4095, 4096, 4097, 4100, 8192, 8200, 20000]):
        yield dict(k=k)


def run_rows(case, ctx):
    """Every table with thousands of rows (more than 4096 / 8192): star tree with k leaves, one site and one
    mutation per leaf, one individual per leaf, a few populations and migrations."""
    k = case["k"]
    npop = 3

    def fat(j, tag):
        # a few long metadata cells (Base64 text of 76+ characters, tens of kilobytes) among the short ones
        sizes = {1: 57, 2: 58, 3: 59, 5: 200, 8: 5000, 13: 70000}
        return (tag * sizes[j])[: sizes[j]] if j in sizes else None

    nodes = [[1, 0.0, u % npop, u, fat(u, "n\x00\xff") or "n%d" % (u % 7)] for u in range(k)] + [[0, 1.0, -1, -1, ""]]
    edges = [[0.0, float(k), k, u, ""] for u in range(k)]
    sites = [[float(u), "ACGT"[u % 4], fat(u, "s\xfe") or ("s" if u % 5 == 0 else "")] for u in range(k)]
    muts = [[u, u, "TGCA"[u % 4], -1, None, fat(u, "m\x01") or ("m" if u % 3 == 0 else "")] for u in range(k)]
    inds = [[u % 2, [float(u % 3)] * (u % 3), ([u - 1] if u % 4 == 1 else []), fat(u, "i\x7f") or "i%d" % (u % 11)]
            for u in range(k)]
    pops = [[fat(j + 1, "p\x80") or "p%d" % j] for j in range(npop)]
    migs = [[0.0, float(k), u, u % npop, (u + 1) % npop, 0.25 + (u % 2) * 0.25, ""] for u in range(0, k, max(1, k // 4200))]
    migs.sort(key=lambda r: r[5])
    spec = dict(L=float(k), nodes=nodes, edges=edges, sites=sites, mutations=muts, individuals=inds, populations=pops,
                migrations=migs)
    run_text(dict(spec=spec, extra_precision=0, withhold_populations=False, md_redraw=[]), ctx)
    ctx.nt(True)


SUBCHECKS = [
    SubCheck("C17.roundtrip", run_text, strategy=text_case, quick=8000, thorough=240000,
             rule="an individual with empty parents or location, or an empty allele, or known and unknown "
                  "mutation times in the same file",
             floors={"individual_empty_parents_or_location": 0.3, "empty_allele": 0.15,
                     "known_and_unknown_mutation_times": 0.04, "known_mutation_times": 0.15, "migrations": 0.05,
                     "non_ascii_allele": 0.15, "precision_0": 0.1, "precision_gt_6": 0.05, "node_time_needs_gt_6_decimals": 0.05,
                     "mutation_with_parent": 0.1, "populations_withheld": 0.05,
                     "individual_forward_parent": 0.1, "multi_tree": 0.2}),
    SubCheck("C17.parsers", run_parser, strategy=parser_case, quick=6000, thorough=180000,
             rule=">= 1 row and (columns not in the documented order, or an optional column omitted, or an "
                  "unknown column present)",
             floors={"permuted": 0.3, "optional_omitted": 0.3, "unknown_column": 0.3, "id_column": 0.1,
                     "table_nodes": 0.05, "table_edges": 0.05, "table_sites": 0.05, "table_mutations": 0.05,
                     "table_individuals": 0.05, "table_populations": 0.05, "table_migrations": 0.05,
                     "strict_false": 0.03, "empty_field": 0.2}),
    SubCheck("C17.large_rows", run_rows, enumerate=enum_rows, quick=1, thorough=1, shards=2,
             rule="tree sequences with 4100 and 8200 (thorough: up to 20000) rows in every table"),
]
