"""C06 — a Tree's state depends only on where it is, not on how it got there."""
import itertools
import math

from hypothesis import strategies as st

from .. import gen, model
from ..core import SubCheck
from .c01 import check_linked_children, check_tree, make_tree, positions_for, tree_options

META = dict(
    level="exploration",
    rule="Valid tree sequences (vf/gen.py ts_spec: <=8 nodes, <=6 trees, sites/mutations, internal and "
    "isolated samples, gaps, multiple roots) x tree options (sample_lists, root_threshold, tracked "
    "samples) x operation histories given as data: first/last/next/prev/clear/copy(continue on the copy "
    "or on the original)/seek(x)/seek_index(i) with x, i drawn among every tree's left end, midpoint, "
    "last float before its right end, negative indexes, the current tree and its neighbours, plus "
    "out-of-range seeks. The history is interpreted against the real Tree and an index model "
    "(next from null -> 0, next from last -> null, prev from null -> last, prev from first -> null, "
    "clear -> null, seek -> tree containing x, seek_index(-k) -> T-k). After EVERY step the complete "
    "observable state snapshot(tree) (interval, index, all arrays, children as sets, roots, sample and "
    "tracked-sample counts incl. the virtual root, sites+mutations, samples(u), the sample-list chains as "
    "sets, num_edges, edge_array, total branch length) must equal the snapshot of a fresh Tree moved "
    "there by seek_index and of a fresh Tree iterated there by first()/next(), and the table model "
    "(c01.check_tree / empty forest for the null state). C06.exhaustive_ops enumerates, for each "
    "generated tree sequence with <=4 trees, ALL operation sequences up to length 3 (quick) / 4 "
    "(thorough) over {first,last,next,prev,clear,copy,seek_index(i) for all i,seek(mid of tree i) for all i}.",
    assumptions=[
        "reference model vf/model.py and the C01 tree oracle (c01.check_tree)",
        "size bounds: <=8 nodes, <=6 trees, <=4 sites (histories); <=6 nodes, <=4 trees (exhaustive)",
        "histories <=40 operations; exhaustive sequences <=3 (quick) / <=4 (thorough) operations",
        "child/root/sample order is not compared (documented as arbitrary); NaN positions are outside the domain",
    ],
    technique="property-based testing of operation histories (Hypothesis) + bounded exhaustive enumeration "
    "of operation sequences, against a positional table model and fresh-object comparison",
    engines=["hypothesis-runner", "stateful-histories", "exhaustive-small-scope"],
    exhaustive_subchecks=["C06.exhaustive_ops"],
)

# ------------------------------------------------------------------ snapshot
def snapshot(tree, sample_lists=False):
    """Everything observable about the state of `tree`, normalised so that the (arbitrary) order of
    children, roots and samples does not matter.  Plain Python values only."""
    n = tree.virtual_root
    N = n + 1
    iv = tree.interval
    lc, rc = tree.left_child_array, tree.right_child_array
    ls, rs = tree.left_sib_array, tree.right_sib_array
    children = []
    links_ok = True
    for u in range(N):
        c = []
        v = int(lc[u])
        while v != -1 and len(c) <= N:
            c.append(v)
            v = int(rs[v])
        # the reverse chain must be the mirror image
        r = []
        v = int(rc[u])
        while v != -1 and len(r) <= N:
            r.append(v)
            v = int(ls[v])
        if r[::-1] != c or len(set(c)) != len(c) or tuple(c) != tuple(tree.children(u)):
            links_ok = False
        children.append(sorted(c))
    sites = []
    nmut = 0
    for s in tree.sites():
        sites.append([s.id, s.position, [m.id for m in s.mutations]])
        nmut += len(s.mutations)
    snap = dict(
        index=tree.index,
        interval=(iv.left, iv.right),
        num_edges=tree.num_edges,
        virtual_root=n,
        root_threshold=tree.root_threshold,
        parent=tree.parent_array.tolist(),
        edge=tree.edge_array.tolist(),
        num_children=tree.num_children_array.tolist(),
        children=children,
        links_ok=links_ok,
        roots=sorted(tree.roots),
        num_roots=tree.num_roots,
        num_samples=[tree.num_samples(u) for u in range(N)] + [tree.num_samples()],
        num_tracked=[tree.num_tracked_samples(u) for u in range(N)] + [tree.num_tracked_samples()],
        sites=sites,
        num_sites=tree.num_sites,
        num_mutations=tree.num_mutations,
        samples=[sorted(tree.samples(u)) for u in range(n)],
        samples_all=sorted(tree.samples()),
        total_branch_length=tree.total_branch_length,
    )
    if sample_lists:
        ts_samples = tree.tree_sequence.samples().tolist()
        chains = []
        for u in range(N):
            li, ri = tree.left_sample(u), tree.right_sample(u)
            if li == -1 or ri == -1:
                chains.append([] if (li == -1 and ri == -1) else ["BROKEN", li, ri])
                continue
            seq = []
            i = li
            ok = False
            for _ in range(len(ts_samples) + 1):
                if not 0 <= i < len(ts_samples):
                    break
                seq.append(ts_samples[i])
                if i == ri:
                    ok = True
                    break
                i = tree.next_sample(i)
            chains.append(sorted(seq) if ok and len(set(seq)) == len(seq) else ["BROKEN"] + seq)
        snap["sample_lists"] = chains
    return snap


def _same(k, x, y):
    if k == "total_branch_length" and x is not None and y is not None:
        # a float sum whose order follows the (arbitrary) child order
        return math.isclose(x, y, rel_tol=1e-9, abs_tol=1e-12)
    return x == y


def snap_diff(a, b):
    return sorted(k for k in set(a) | set(b) if not _same(k, a.get(k), b.get(k)))


def _short(a, b, keys):
    return "; ".join(f"{k}: got {a.get(k)!r} expected {b.get(k)!r}" for k in keys)[:1500]


# ------------------------------------------------------------------ references
class Ref:
    """Fresh trees (one per index, plus the null one), their snapshots, validated against the
    table model once per case."""

    def __init__(self, ctx, tskit, spec, ts, opts, deep=True):
        self.spec, self.ts, self.opts = spec, ts, opts
        self.bps = model.breakpoints(spec)
        self.T = len(self.bps) - 1
        self.L = self.bps[-1]
        sl = opts["sample_lists"]
        ctx.check(ts.num_trees == self.T, "partition", f"num_trees {ts.num_trees} expected {self.T}")
        self.trees = {}
        self.snaps = {}
        t0 = make_tree(tskit, ts, opts)
        self.trees[-1] = t0
        self.snaps[-1] = snapshot(t0, sl)
        check_null(ctx, spec, t0, opts, ".fresh")
        ctx.check(self.snaps[-1]["sites"] == [] and self.snaps[-1]["num_sites"] == 0, "fresh_null",
                  "a new Tree has sites")
        for i in range(self.T):
            t = make_tree(tskit, ts, opts)
            t.seek_index(i)
            self.trees[i] = t
            self.snaps[i] = snapshot(t, sl)
            check_tree(ctx, tskit, spec, ts, t, self.bps[i], opts, deep=deep, tag=".fresh_seek_index")
        # a second way of getting there directly: plain forward iteration of a new Tree
        it = make_tree(tskit, ts, opts)
        for i in range(self.T):
            ok = it.next()
            ctx.check(ok is True, "next_return", f"next() into tree {i} returned {ok!r}")
            s = snapshot(it, sl)
            d = snap_diff(s, self.snaps[i])
            ctx.check(not d, "fresh_forward_vs_fresh_seek_index",
                      lambda: f"tree {i}: " + _short(s, self.snaps[i], d))
        ok = it.next()
        ctx.check(ok is False, "next_return", f"next() off the last tree returned {ok!r}")
        # trees in which a sample node has tracked samples strictly below it (label only): leaving
        # such a tree through tsk_tree_clear must reduce that node to its own tracked count
        self.taint_at = {}
        tracked = opts["tracked"] or []
        for i in range(self.T):
            par = model.parent_at(spec, self.bps[i])
            ch = model.children_of(par)
            nt = model.num_samples_below(spec, par, tracked)
            self.taint_at[i] = any(
                model.is_sample(spec, u) and any(nt[c] > 0 for c in ch[u]) for u in range(len(par))
            )

    def index_of(self, x):
        for i in range(self.T):
            if self.bps[i] <= x < self.bps[i + 1]:
                return i
        raise AssertionError("position outside [0, L)")


def check_null(ctx, spec, tree, opts, tag=""):
    """The null state against the model of an empty forest."""
    W = "null_state" + tag
    n = len(spec["nodes"])
    ctx.check(tree.index == -1, W, f"index {tree.index}")
    ctx.check(tuple(tree.interval) == (0, 0), W, f"interval {tree.interval}")
    ctx.check(tree.num_edges == 0, W, f"num_edges {tree.num_edges}")
    ctx.check(tree.virtual_root == n, W, "virtual_root")
    ctx.check(tree.parent_array.tolist() == [-1] * (n + 1), W, f"parent_array {tree.parent_array}")
    ctx.check(tree.edge_array.tolist() == [-1] * (n + 1), W, f"edge_array {tree.edge_array}")
    thr = opts["root_threshold"]
    tracked = set(opts["tracked"] or [])
    smp = model.samples(spec)
    mroots = [u for u in smp if 1 >= thr]
    for u in range(n):
        check_linked_children(ctx, tree, u, [], W + ".children")
        s = model.is_sample(spec, u)
        ctx.check(tree.num_samples(u) == int(s), W, f"num_samples({u}) = {tree.num_samples(u)}")
        ctx.check(list(tree.samples(u)) == ([u] if s else []), W, f"samples({u})")
        ctx.check(tree.num_tracked_samples(u) == int(u in tracked), W,
                  f"num_tracked_samples({u}) = {tree.num_tracked_samples(u)}")
        ctx.check(tree.parent(u) == -1 and tree.edge(u) == -1, W, f"parent/edge({u})")
    check_linked_children(ctx, tree, n, mroots, W + ".roots")
    ctx.check(sorted(tree.roots) == mroots, W, f"roots {tree.roots} expected {mroots}")
    ctx.check(tree.num_samples() == len(smp), W, "num_samples()")
    ctx.check(tree.num_tracked_samples() == len(tracked), W, "num_tracked_samples()")


# ------------------------------------------------------------------ interpreter
FWD, REV = 1, -1
BAD_INDEX = lambda T: [T, T + 1, -T - 1, -T - 2, 2**31 - 1, -(2**31), 2**40]  # noqa: E731


def bad_positions(L):
    return [-1.0, -5e-324, L, math.nextafter(L, math.inf), L + 1.0, math.inf, -math.inf, 1e300, -1]


def tree_positions(ref, j):
    a, b = ref.bps[j], ref.bps[j + 1]
    c = math.nextafter(b, -math.inf)
    m = a + (b - a) / 2
    return [a, m if a <= m < b else a, c if c >= a else a]


class Machine:
    """The real Tree plus the index model; apply(op) performs one operation on both and checks the
    immediate contract (return value, raised exception, index).  Labels are collected in .labels."""

    def __init__(self, ctx, tskit, ref):
        self.ctx, self.tskit, self.ref = ctx, tskit, ref
        self.tree = make_tree(tskit, ref.ts, ref.opts)
        self.i = -1
        self.dir = None
        self.labels = set()
        self.cands = positions_for(ref.spec)
        self.shadow = None  # (tree, index, snapshot)
        self.x = None  # the position last sought, when the current state came from seek(x)

    # ---- model helpers
    def _cleared_from(self, i):
        """tsk_tree_clear is run while the tree is on index i."""
        if i >= 0:
            self.labels.add("cleared_from_tree")
            if self.ref.taint_at[i]:
                self.labels.add("cleared_with_tracked_below_internal_sample")

    def _move(self, d, wrapped=False):
        if self.dir is not None and self.dir != d and not wrapped:
            self.labels.add("reversal")
        self.dir = d

    def _model_seek(self, x):
        ref = self.ref
        j = ref.index_of(x)
        if self.i == -1:
            if x <= ref.L / 2:
                self.labels.add("seek_null_left")
                self.dir = FWD
            else:
                self.labels.add("seek_null_right")
                self.dir = REV
            if 0 < j < ref.T - 1:
                self.labels.add("seek_null_interior")
        elif j == self.i:
            self.labels.add("seek_current")
        else:
            tl, tr = ref.bps[self.i], ref.bps[self.i + 1]
            if x < tl:
                dl, dr = tl - x, ref.L - tr + x
            else:
                dr, dl = x - tr, tl + ref.L - x
            if dr <= dl:
                if j < self.i:
                    self.labels.add("seek_wrap")
                    self._cleared_from(ref.T - 1)
                    self.dir = FWD
                else:
                    self._move(FWD)
                self.labels.add("seek_forward")
            else:
                if j > self.i:
                    self.labels.add("seek_wrap")
                    self._cleared_from(0)
                    self.dir = REV
                else:
                    self._move(REV)
                self.labels.add("seek_backward")
            if abs(j - self.i) > 1:
                self.labels.add("seek_far")
        self.i = j

    # ---- one operation
    def apply(self, op):
        ctx, ref, tree = self.ctx, self.ref, self.tree
        T = ref.T
        name = op[0]
        self.x = None
        prev_i = self.i
        if name == "first":
            self._cleared_from(self.i)
            tree.first()
            self.i, self.dir = 0, FWD
        elif name == "last":
            self._cleared_from(self.i)
            tree.last()
            self.i, self.dir = T - 1, REV
        elif name == "clear":
            self._cleared_from(self.i)
            if self.i == -1:
                self.labels.add("clear_on_null")
            tree.clear()
            self.i, self.dir = -1, None
            self.labels.add("after_clear")
        elif name == "next":
            ret = tree.next()
            if self.i == -1:
                self.i, self.dir = 0, FWD
                self.labels.add("next_from_null")
            elif self.i == T - 1:
                self._cleared_from(self.i)
                self.i, self.dir = -1, None
                self.labels.add("next_to_null")
            else:
                self._move(FWD)
                self.i += 1
            ctx.check(ret is (self.i != -1), "next_return",
                      f"next() returned {ret!r} moving {prev_i} -> {self.i}")
        elif name == "prev":
            ret = tree.prev()
            if self.i == -1:
                if "after_clear" in self.labels and self.prev_op == "clear":
                    self.labels.add("clear_prev")
                self.i, self.dir = T - 1, REV
                self.labels.add("prev_from_null")
            elif self.i == 0:
                self._cleared_from(self.i)
                self.i, self.dir = -1, None
                self.labels.add("prev_to_null")
            else:
                self._move(REV)
                self.i -= 1
            ctx.check(ret is (self.i != -1), "prev_return",
                      f"prev() returned {ret!r} moving {prev_i} -> {self.i}")
        elif name in ("seek", "seek_rel"):
            if name == "seek":
                x = self.cands[op[1] % len(self.cands)]
            else:
                j = ((self.i if self.i >= 0 else 0) + op[1]) % T
                x = tree_positions(ref, j)[op[2] % 3]
            tree.seek(x)
            self._model_seek(x)
            self.x = x
            iv = tree.interval
            ctx.check(iv.left <= x < iv.right, "seek_lands",
                      f"seek({x}) from index {prev_i} landed on {iv}")
        elif name in ("seek_index", "seek_index_rel"):
            if name == "seek_index":
                j = list(range(-T, T))[op[1] % (2 * T)]
            else:
                j = ((self.i if self.i >= 0 else 0) + op[1]) % T
            if j < 0:
                self.labels.add("negative_index")
            tree.seek_index(j)
            self._model_seek(ref.bps[j % T])
        elif name == "seek_bad":
            bad = bad_positions(ref.L)
            x = bad[op[1] % len(bad)]
            try:
                tree.seek(x)
                ctx.fail("seek_out_of_bounds", f"seek({x}) did not raise (L={ref.L})")
            except ValueError:
                pass
            self.labels.add("bad_seek")
        elif name == "seek_index_bad":
            bad = BAD_INDEX(T)
            j = bad[op[1] % len(bad)]
            try:
                tree.seek_index(j)
                ctx.fail("seek_index_out_of_bounds", f"seek_index({j}) did not raise (T={T})")
            except IndexError:
                pass
            self.labels.add("bad_seek")
        elif name == "copy":
            c = tree.copy()
            ctx.check(c is not tree and (c == tree) and not (c != tree), "copy", "copy() != source")
            ctx.check(c.root_threshold == tree.root_threshold, "copy", "root_threshold not copied")
            if op[1] == 0:
                self.shadow, self.tree = tree, c
                self.labels.add("continue_on_copy")
            else:
                self.shadow = c
                self.labels.add("copy_left_behind")
            self.shadow_i = self.i
            self.shadow_snap = None  # filled by the caller (full-state comparison)
        else:
            raise AssertionError(f"unknown op {op}")
        self.prev_op = name
        if self.i >= 0 and "cleared_with_tracked_below_internal_sample" in self.labels:
            self.labels.add("tracked_internal_reentered")
        got = self.tree.index
        ctx.check(got == self.i, "index_model",
                  f"after {op} from index {prev_i}: index {got}, model {self.i}")
        if self.i == -1 and prev_i >= 0:
            self.labels.add("null_reentry")

    prev_op = None
    shadow_i = None
    shadow_snap = None


def compare_state(ctx, m, tree, i, what):
    """snapshot(tree) must equal the snapshot of the fresh tree at index i.  Returns the snapshot."""
    s = snapshot(tree, m.ref.opts["sample_lists"])
    exp = m.ref.snaps[i]
    d = snap_diff(s, exp)
    ctx.check(not d, "state_vs_fresh_tree", lambda: f"{what}: " + _short(s, exp, d))
    return s


def run_history_ops(ctx, tskit, spec, ts, opts, ops, deep_every=1):
    ref = Ref(ctx, tskit, spec, ts, opts)
    m = Machine(ctx, tskit, ref)
    for k, op in enumerate(ops):
        before = None
        if op[0] in ("seek_bad", "seek_index_bad"):
            before = snapshot(m.tree, opts["sample_lists"])
        m.apply(op)
        what = f"step {k} {op} -> index {m.i}"
        s = compare_state(ctx, m, m.tree, m.i, what)
        if before is not None:
            d = snap_diff(s, before)
            ctx.check(not d, "failed_seek_changed_state", lambda: f"{what}: " + _short(s, before, d))
        if m.i >= 0:
            x = m.x if m.x is not None else ref.bps[m.i]
            check_tree(ctx, tskit, spec, ts, m.tree, x, opts, deep=(k % deep_every == 0), tag=f".step{k}")
        else:
            check_null(ctx, spec, m.tree, opts, f".step{k}")
        # equality is by (tree sequence, index)
        for j, ft in ref.trees.items():
            ctx.check((m.tree == ft) == (j == m.i) and (m.tree != ft) == (j != m.i), "tree_eq",
                      f"{what}: tree == fresh tree at {j} is {m.tree == ft}")
        if m.shadow is not None:
            if op[0] == "copy":
                m.shadow_snap = snapshot(m.shadow, opts["sample_lists"])
                d = snap_diff(m.shadow_snap, s)
                ctx.check(not d, "copy_state", lambda: f"{what}: " + _short(m.shadow_snap, s, d))
            else:
                ss = snapshot(m.shadow, opts["sample_lists"])
                d = snap_diff(ss, m.shadow_snap)
                ctx.check(not d, "copy_not_independent",
                          lambda: f"{what}: the other tree of the copy pair changed: " + _short(ss, m.shadow_snap, d))
                ctx.check((m.tree == m.shadow) == (m.i == m.shadow_i), "tree_eq", f"{what}: vs copy")
    return m


# ------------------------------------------------------------------ sub-check: histories
def op_strategy():
    k = st.integers(0, 95)
    return st.one_of(
        st.sampled_from([["next"], ["prev"]]),
        st.sampled_from([["next"], ["prev"], ["first"], ["last"], ["clear"]]),
        st.builds(lambda a: ["seek", a], k),
        st.builds(lambda a: ["seek_index", a], k),
        st.builds(lambda d, w: ["seek_rel", d, w], st.integers(-1, 1), st.integers(0, 2)),
        st.builds(lambda d: ["seek_index_rel", d], st.integers(-2, 2)),
        st.builds(lambda w: ["copy", w], st.integers(0, 1)),
        st.sampled_from(["seek_bad", "seek_index_bad"]).flatmap(lambda nm: st.builds(lambda a: [nm, a], k)),
    )


def phrase_strategy():
    """One operation, or a short pattern that is rare under independent draws."""
    one = op_strategy().map(lambda o: [o])
    k = st.integers(0, 95)
    fixed = st.sampled_from([
            [["clear"], ["prev"]], [["clear"], ["prev"], ["next"]],
            [["clear"], ["prev"]], [["clear"], ["next"]], [["clear"], ["clear"]],
            [["last"], ["next"], ["next"]], [["first"], ["prev"], ["prev"]],
            [["prev"], ["next"]], [["next"], ["prev"]], [["prev"], ["prev"], ["next"], ["next"]],
            [["next"], ["next"], ["prev"], ["prev"]], [["first"], ["first"]], [["last"], ["last"]],
            [["copy", 0], ["next"]], [["copy", 0], ["prev"]], [["copy", 1], ["next"]],
    ])
    pats = st.one_of(
        st.builds(lambda a, mv: [["clear"], ["seek", a], [mv]], k, st.sampled_from(["next", "prev"])),
        st.builds(lambda a, mv: [["clear"], ["seek_index", a], [mv]], k, st.sampled_from(["next", "prev"])),
        st.builds(lambda a, b: [["seek", a], ["seek", b]], k, k),
        st.builds(lambda a, w, mv: [["seek", a], ["copy", w], [mv]], k, st.integers(0, 1),
                  st.sampled_from(["next", "prev"])),
    )
    return st.one_of(one, one, one, fixed, pats)


def spec_strategy(max_nodes, max_intervals, max_sites, max_muts):
    """gen.ts_spec, mostly restricted to >=2 trees (and often >=3)."""
    def base(discrete):
        return gen.ts_spec(max_nodes=max_nodes, max_intervals=max_intervals, max_sites=max_sites,
                           max_muts_per_site=max_muts, migrations=False, metadata=False, individuals=False,
                           populations=False, discrete=discrete, min_nodes=2)

    def ntrees(s):
        return len(model.breakpoints(s)) - 1

    return st.one_of(
        base(None),
        base(False).filter(lambda s: ntrees(s) >= 2),
        base(False).filter(lambda s: ntrees(s) >= 3),
        base(True).filter(lambda s: ntrees(s) >= 2),
        base(True).filter(lambda s: ntrees(s) >= 3),
        base(False).filter(lambda s: ntrees(s) >= 4),
    )


def options_for(draw, spec):
    """c01.tree_options, with sample lists and tracked samples (in particular ALL samples, so that
    internal sample nodes have tracked samples below them) made more frequent."""
    opts = tree_options(draw, spec)
    smp = model.samples(spec)
    mode = draw(st.integers(0, 4))
    if smp and mode == 0:
        opts["tracked"] = list(smp)
    elif smp and mode == 1:
        opts["tracked"] = sorted(draw(st.sets(st.sampled_from(smp), min_size=1)))
    if draw(st.integers(0, 3)) == 0:
        opts["sample_lists"] = True
    return opts


@st.composite
def history_case(draw):
    spec = draw(spec_strategy(8, 6, 4, 2))
    opts = options_for(draw, spec)
    n = draw(st.sampled_from([2, 4, 8, 12, 20, 30, 40]))
    phrases = draw(st.lists(phrase_strategy(), min_size=max(1, n // 2), max_size=n))
    ops = [o for ph in phrases for o in ph][:40]
    return dict(spec=spec, opts=opts, ops=ops)


NT_LABELS = {"reversal", "seek_null_right", "seek_current", "clear_prev", "seek_wrap", "continue_on_copy"}


def run_history(case, ctx):
    import tskit

    spec, opts, ops = case["spec"], case["opts"], case["ops"]
    labs = gen.spec_labels(spec, model)
    for l in labs & {"multi_tree", "multi_root", "internal_sample", "isolated_sample", "gap", "mutations",
                     "dead_branch"}:
        ctx.label(l)
    ctx.label("sample_lists", opts["sample_lists"])
    ctx.label("root_threshold>1", opts["root_threshold"] > 1)
    ctx.label("tracked", bool(opts["tracked"]))
    ts = gen.build_tables(spec, tskit).tree_sequence()
    ctx.label("trees>=3", ts.num_trees >= 3)
    m = run_history_ops(ctx, tskit, spec, ts, opts, ops, deep_every=3)
    for l in m.labels:
        ctx.label(l)
    ctx.label("len>=10", len(ops) >= 10)
    ctx.nt(ts.num_trees >= 2 and bool(m.labels & NT_LABELS))


# ------------------------------------------------------------------ sub-check: larger trees
def enum_large(tier, seed):
    sizes = [65, 130] if tier == "quick" else [65, 130, 257, 300]
    hist = [["last"], ["prev"], ["prev"], ["first"], ["next"], ["clear"], ["prev"], ["copy", 0], ["next"], ["next"],
            ["first"], ["seek_index", 1], ["seek_index", 0], ["clear"], ["last"], ["next"], ["next"]]
    for sa, sb in (("comb", "balanced"), ("star", "comb"), ("multiroot", "star")):
        for k in sizes:
            for sl in (True, False):
                yield dict(sa=sa, sb=sb, k=k, sample_lists=sl, ops=hist)


def enum_regimes(tier, seed):
    for T in ([70, 140] if tier == "quick" else [66, 70, 130, 140, 300]):
        for sl in (True, False):
            yield dict(kind="hops", T=T, sample_lists=sl)
    for scale in ("ulp", "huge", "tiny", "ulp_odd"):
        for sl in (True, False):
            yield dict(kind="coords", scale=scale, sample_lists=sl)
    # more than 2^16 nodes; more than 4096 edges with a last tree that starts before the middle of the genome
    for k in ([66000] if tier == "quick" else [65534, 65535, 66000, 140000]):
        yield dict(kind="big_nodes", k=k, sample_lists=False)
    for T in ([1500] if tier == "quick" else [1365, 1400, 1500, 3000]):
        for sl in (True, False):
            yield dict(kind="long_last", T=T, sample_lists=sl)


def lean_history(ctx, tskit, spec, ts, opts, ops):
    """For sequences of thousands of trees: after every operation the Tree is compared with a fresh Tree at the same
    index (parent, children as sets, sample counts, roots, interval, sample lists) and with the positional parent map;
    positions and indexes in `ops` are literal."""
    import bisect

    bps = model.breakpoints(spec)
    T = len(bps) - 1
    n = len(spec["nodes"])
    tree = tskit.Tree(ts, sample_lists=opts["sample_lists"])
    i = -1
    for k, op in enumerate(ops):
        name = op[0]
        if name == "seek":
            tree.seek(op[1])
            i = bisect.bisect_right(bps, op[1]) - 1
        elif name == "seek_index":
            tree.seek_index(op[1])
            i = op[1] % T
        elif name == "first":
            tree.first()
            i = 0
        elif name == "last":
            tree.last()
            i = T - 1
        elif name == "clear":
            tree.clear()
            i = -1
        elif name == "next":
            ret = tree.next()
            i = 0 if i == -1 else (i + 1 if i < T - 1 else -1)
            ctx.check(ret is (i != -1), "next_return", f"step {k}: next() returned {ret!r} entering index {i}")
        elif name == "prev":
            ret = tree.prev()
            i = T - 1 if i == -1 else (i - 1 if i > 0 else -1)
            ctx.check(ret is (i != -1), "prev_return", f"step {k}: prev() returned {ret!r} entering index {i}")
        what = f"step {k} {op} -> index {i}"
        ctx.check(tree.index == i, "index", f"{what}: index {tree.index}")
        if i == -1:
            ctx.check(tree.num_edges == 0 and all(p == -1 for p in tree.parent_array[:n]), "null_state",
                      f"{what}: the null tree has edges")
            continue
        fresh = ts.at_index(i, sample_lists=opts["sample_lists"])
        ctx.check(tuple(tree.interval) == (bps[i], bps[i + 1]) == tuple(fresh.interval), "state_vs_fresh_tree",
                  f"{what}: interval {tree.interval}")
        par = model.parent_at(spec, bps[i])
        ctx.eq(list(map(int, tree.parent_array[:n])), par, f"state_vs_table_model {what}: parent_array")
        for arr in ("parent_array", "num_children_array", "edge_array"):
            ctx.eq(getattr(tree, arr), getattr(fresh, arr), f"state_vs_fresh_tree {what}: {arr}")
        ctx.eq(sorted(tree.roots), sorted(fresh.roots), f"state_vs_fresh_tree {what}: roots")
        ctx.check(tree.num_edges == fresh.num_edges, "state_vs_fresh_tree", f"{what}: num_edges")
        for u in list(fresh.roots) + [u for u in range(0, n, max(1, n // 50))]:
            ctx.check(tree.num_samples(u) == fresh.num_samples(u), "state_vs_fresh_tree", f"{what}: num_samples({u})")
            ctx.check(sorted(tree.children(u)) == sorted(fresh.children(u)), "state_vs_fresh_tree", f"{what}: children({u})")
            if opts["sample_lists"]:
                ctx.check(sorted(tree.samples(u)) == sorted(fresh.samples(u)), "state_vs_fresh_tree", f"{what}: samples({u})")


def run_regimes(case, ctx):
    """(a) hops of more than 64 trees in both directions from a positioned tree, on sequences of 70-140 trees;
    (b) trees one ulp wide, coordinates near the largest double and near the smallest."""
    import math

    import tskit

    from . import c01

    ctx.nt(True)
    if case["kind"] == "big_nodes":
        from ._shapes import two_tree_spec

        spec = two_tree_spec("star", "multiroot", case["k"], internal_samples=False)
        ops = [["last"], ["prev"], ["prev"], ["first"], ["next"], ["clear"], ["first"], ["next"], ["next"], ["last"],
               ["next"], ["seek_index", 0], ["clear"], ["seek_index", 1], ["prev"], ["prev"], ["last"], ["seek", 0.0],
               ["next"], ["next"], ["prev"], ["first"]]
        ts = gen.build_tables(spec, tskit).tree_sequence()
        lean_history(ctx, tskit, spec, ts, dict(sample_lists=case["sample_lists"]), ops)
        return
    elif case["kind"] == "long_last":
        T = case["T"]
        spec = c01.many_trees_spec(T, 0)
        for e in spec["edges"]:
            if e[1] == float(T):
                e[1] = float(3 * T)
        spec["L"] = float(3 * T)
        x = float(T - 1)
        ops = [["seek", x], ["clear"], ["seek_index", T - 1], ["clear"], ["seek", x - 0.5], ["prev"], ["clear"],
               ["seek", 2.5 * T], ["clear"], ["seek", x - 1.5], ["next"], ["next"], ["clear"], ["last"], ["clear"],
               ["seek", x + 1], ["seek", 3.5], ["clear"], ["seek_index", T - 2], ["next"], ["clear"], ["seek_index", -1],
               ["first"], ["seek", x], ["clear"], ["seek", 1.4 * T], ["prev"], ["prev"], ["clear"], ["seek", 1.6 * T]]
        ts = gen.build_tables(spec, tskit).tree_sequence()
        lean_history(ctx, tskit, spec, ts, dict(sample_lists=case["sample_lists"]), ops)
        return
    elif case["kind"] == "hops":
        T = case["T"]
        spec = c01.many_trees_spec(T, 1)
        ops = [["seek_index", T - 1], ["seek_index", 2], ["seek_index", T - 3], ["seek_index", T // 2], ["seek_index", 1],
               ["seek_index", T // 2 + 70 if T // 2 + 70 < T else T - 1], ["seek_index", T // 2 - 2], ["next"], ["prev"],
               ["seek_index", 0], ["seek_index", 70 if T > 70 else T - 1], ["seek_index", 3], ["copy", 0],
               ["seek_index", T - 2], ["seek_index", T // 3]]
    else:
        from ._shapes import coord_regime_spec

        spec = coord_regime_spec(case["scale"])
        ops = [["seek_index", 1], ["seek_index", 2], ["seek_index", 3], ["seek_index", 0], ["last"], ["seek_index", 1],
               ["prev"], ["next"], ["next"], ["clear"], ["seek_index", 2], ["seek_index", 1]]
    smp = model.samples(spec)
    opts = dict(sample_lists=case["sample_lists"], root_threshold=1, tracked=smp[:2])
    ts = gen.build_tables(spec, tskit).tree_sequence()
    run_history_ops(ctx, tskit, spec, ts, opts, ops, deep_every=10**9)


def run_large(case, ctx):
    """Navigation histories on trees with hundreds of nodes (wide polytomies, deep combs, many roots) and
    internal samples among the tracked ones."""
    import tskit

    from ._shapes import two_tree_spec

    k = case["k"]
    spec = two_tree_spec(case["sa"], case["sb"], k, internal_samples=True)
    smp = model.samples(spec)
    opts = dict(sample_lists=case["sample_lists"], root_threshold=1, tracked=smp[::3])
    ts = gen.build_tables(spec, tskit).tree_sequence()
    ctx.nt(True)
    run_history_ops(ctx, tskit, spec, ts, opts, case["ops"], deep_every=10**9)


# ------------------------------------------------------------------ sub-check: exhaustive sequences
@st.composite
def exhaustive_case(draw):
    spec = draw(spec_strategy(6, 4, 3, 1))
    return dict(spec=spec, opts=options_for(draw, spec))


def alphabet(T, cands_mid):
    ops = [["first"], ["last"], ["next"], ["prev"], ["clear"], ["copy", 0]]
    ops += [["seek_index", T + j] for j in range(T)]  # index into range(-T, T): T+j is +j
    ops += [["seek", k] for k in cands_mid]
    return ops


def run_exhaustive(case, ctx):
    import tskit

    spec, opts = case["spec"], case["opts"]
    ts = gen.build_tables(spec, tskit).tree_sequence()
    ref = Ref(ctx, tskit, spec, ts, opts)
    T = ref.T
    depth = 3 if ctx.tier == "quick" else 4
    labs = gen.spec_labels(spec, model)
    for l in labs & {"multi_tree", "multi_root", "internal_sample", "isolated_sample", "gap", "mutations"}:
        ctx.label(l)
    ctx.label(f"T={T}")
    ctx.label("sample_lists", opts["sample_lists"])
    ctx.label("tracked", bool(opts["tracked"]))
    ctx.nt(T >= 2)
    cands = positions_for(spec)
    mids = []
    for j in range(T):
        x = (ref.bps[j] + ref.bps[j + 1]) / 2
        mids.append(cands.index(x))
    alpha = alphabet(T, mids)
    nseq = 0
    for n in range(1, depth + 1):
        for seq in itertools.product(alpha, repeat=n):
            # a trailing copy only re-checks the copy of a state checked by the shorter sequence;
            # keep it (cheap) so that every sequence is really covered
            m = Machine(ctx, tskit, ref)
            for op in seq:
                m.apply(op)
                if op[0] == "copy":
                    ctx.check(m.tree.index == m.shadow.index, "copy", "index of the copy")
            nseq += 1
            compare_state(ctx, m, m.tree, m.i, f"sequence {list(seq)} -> index {m.i}")
    ctx.notes["sequences"] = nseq


NT_H = ("tree sequence has >=2 trees and the history contains a direction reversal (next/seek forward "
        "after prev/last/seek backward or vice versa without passing the null state), or a seek from "
        "the null state into the right half of the genome, or a seek to the current tree, or clear "
        "followed by prev, or a seek that wraps around through the null state, or navigation "
        "continued on a copy")
SUBCHECKS = [
    SubCheck("C06.histories", run_history, strategy=history_case, quick=5000, thorough=80000, rule=NT_H,
             floors={"multi_tree": 0.3, "reversal": 0.2, "seek_null_right": 0.05, "seek_null_left": 0.05,
                     "seek_current": 0.1, "clear_prev": 0.02, "seek_wrap": 0.03, "continue_on_copy": 0.1,
                     "next_to_null": 0.1, "prev_to_null": 0.1, "bad_seek": 0.1, "sample_lists": 0.2,
                     "tracked": 0.2, "internal_sample": 0.2, "mutations": 0.2, "null_reentry": 0.2,
                     "cleared_with_tracked_below_internal_sample": 0.05, "tracked_internal_reentered": 0.05}),
    SubCheck("C06.regimes", run_regimes, enumerate=enum_regimes, quick=1, thorough=1, shards=10,
             rule="hops of >64 trees in both directions on 70-140-tree (thorough: 300) sequences; trees one ulp wide and "
                  "coordinates near the largest / smallest doubles"),
    SubCheck("C06.large_shapes", run_large, enumerate=enum_large, quick=1, thorough=1,
             rule="17-step navigation history on two-tree sequences over 65-130 (thorough: 300) leaf samples with internal samples tracked"),
    SubCheck("C06.exhaustive_ops", run_exhaustive, strategy=exhaustive_case, quick=600, thorough=1500,
             rule="tree sequence with >=2 trees; every operation sequence of length <=3 (quick) / <=4 "
                  "(thorough) over the alphabet is executed on a new Tree and its final state compared",
             floors={"multi_tree": 0.4, "T=4": 0.05, "T=3": 0.1, "tracked": 0.2, "internal_sample": 0.15,
                     "sample_lists": 0.25, "mutations": 0.15}),
]
