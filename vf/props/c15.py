"""C15 — tree ranks are a bijection; topology counts match brute-force enumeration."""
import itertools

from hypothesis import strategies as st

from .. import gen, model
from ..core import SubCheck

META = dict(
    level="exploration",
    rule="(a) C15.exhaustive_small: for every n<=6 (quick) / n<=7 (thorough) ALL of tskit.all_trees(n), "
    "all_tree_shapes(n), all_tree_labellings(shape): the trees are valid (n sample leaves labelled 0..n-1, "
    "one root, no unary node), their canonical forms (nested frozensets of leaf labels, computed from "
    "Tree.children only) are pairwise distinct and their number equals OEIS A000311(n) (so every topology "
    "occurs exactly once), shapes equal A000669(n), ranks are strictly increasing and dense, "
    "Tree.unrank(n, r).rank() == r and canon(unrank(n, t.rank())) == canon(t) for every tree. "
    "(b) C15.roundtrip_big: n in [8,14]: random topologies built independently of RankTree (random "
    "recursive set partitions, random node ids/times) and random (shape, label) ranks drawn as big "
    "integers and reduced modulo num_shapes/num_labellings: same round trips, injectivity of unrank on "
    "pairs of ranks. (c) C15.rank_invariance: rank() of a random single-rooted tree with polytomies is "
    "unchanged by renumbering internal nodes (and by any order-preserving renumbering of the leaves with "
    "unused ids in between), by the order of children and by node times; trees with several roots or a "
    "unary node raise ValueError. C15.bad_ranks: out-of-range and negative ranks raise ValueError. "
    "(d) C15.count_topologies: valid tree sequences with leaf samples x 1-4 disjoint sample sets: for "
    "every non-empty combination of sets and every choice of one sample per set (brute-force product) the "
    "topology induced on the chosen samples (computed from the raw edge rows, unary nodes contracted, "
    "leaf i = position of its set in the combination) gives a multiset of canonical forms that must equal "
    "{canon(Tree.unrank(k, rank)): count} of tree.count_topologies(sets)[combination]; "
    "ts.count_topologies yields the same counter for every tree; internal samples and non-sample nodes raise.",
    assumptions=[
        "OEIS A000311 (1,1,4,26,236,2752,39208) and A000669 (1,1,2,5,12,33,90) as literal constants",
        "canonical forms are computed from Tree.children()/roots (C01) or from the raw edge rows (vf/model.py), never from RankTree",
        "n <= 14 for unranking: Combination.with_replacement_unrank is linear in the child's shape rank, "
        "n = 20 already takes seconds and n = 24 does not terminate in 20 minutes (DESIGN.md planned n <= 60)",
        "count_topologies: <= 9 nodes, <= 4 trees, <= 4 sample sets, default root_threshold; sample sets pairwise disjoint",
    ],
    technique="bounded exhaustive enumeration (all trees of n<=6/7 leaves) + property-based testing "
    "(Hypothesis) against canonical forms, OEIS counts and brute-force enumeration of sample choices",
    engines=["hypothesis-runner", "exhaustive-small-scope"],
    exhaustive_subchecks=["C15.exhaustive_small"],
)

A000311 = {1: 1, 2: 1, 3: 4, 4: 26, 5: 236, 6: 2752, 7: 39208, 8: 660032}
A000669 = {1: 1, 2: 1, 3: 2, 4: 5, 5: 12, 6: 33, 7: 90, 8: 261, 9: 766, 10: 2312}


# ------------------------------------------------------------------ canonical forms (no RankTree)
def canon_tree(tree, u=None, label=None):
    """Nested frozensets of leaf labels below u (default: the single root)."""
    if u is None:
        u = tree.root
    ch = tree.children(u)
    if len(ch) == 0:
        return ("L", u if label is None else label[u])
    return ("N", frozenset(canon_tree(tree, c, label) for c in ch))


def shape_of(c):
    """Unlabelled shape of a canonical form: sorted tuple of child shapes."""
    if c[0] == "L":
        return ()
    return tuple(sorted(shape_of(x) for x in c[1]))


def canon_nested(t, label=None):
    """Canonical form of a nested-list topology (leaf = int)."""
    if isinstance(t, int):
        return ("L", t if label is None else label[t])
    return ("N", frozenset(canon_nested(x, label) for x in t))


def leaves_of(c):
    if c[0] == "L":
        return [c[1]]
    return [x for ch in c[1] for x in leaves_of(ch)]


def has_unary(c):
    if c[0] == "L":
        return False
    return len(c[1]) < 2 or any(has_unary(x) for x in c[1])


def check_valid_topology_tree(ctx, tree, n, what):
    """`tree` is the only tree of its sequence, has one root, exactly the sample leaves 0..n-1 and no
    unary node."""
    ts = tree.tree_sequence
    ctx.check(ts.num_trees == 1 and tree.index == 0, what, "not the single tree of its sequence")
    ctx.check(tree.num_roots == 1, what, f"{tree.num_roots} roots")
    ctx.check(list(ts.samples()) == list(range(n)), what, f"samples {list(ts.samples())}")
    c = canon_tree(tree)
    ctx.check(sorted(leaves_of(c)) == list(range(n)), what, f"leaves {sorted(leaves_of(c))} for n={n}")
    ctx.check(not has_unary(c), what, "unary node")
    return c


# ------------------------------------------------------------------ (a) exhaustive small n
NPARTS = {1: 1, 2: 1, 3: 1, 4: 1, 5: 1, 6: 3, 7: 16}


def enum_small(tier, seed):
    """One 'global' case per n (part 0) plus NPARTS[n] cases that each take the shapes with
    shape rank = part-1 (mod NPARTS[n]); a case stays well below the hang watchdog."""
    for n in range(1, (6 if tier == "quick" else 7) + 1):
        for part in range(NPARTS[n] + 1):
            yield dict(n=n, part=part)


def run_small(case, ctx):
    import tskit
    from tskit import combinatorics as cb

    n, part = case["n"], case["part"]
    ctx.nt(n >= 4)
    ctx.label(f"n={n}")
    shape_trees = list(tskit.all_tree_shapes(n))
    S = len(shape_trees)
    ctx.check(S == A000669[n], "shape_count", f"n={n}: {S} shapes, A000669 = {A000669[n]}")
    ctx.check(cb.num_shapes(n) == S, "num_shapes", f"num_shapes({n}) = {cb.num_shapes(n)}")
    shape_canons = [check_valid_topology_tree(ctx, t, n, "all_tree_shapes_valid") for t in shape_trees]
    shapes = [shape_of(c) for c in shape_canons]
    ctx.check(len(set(shapes)) == S, "all_tree_shapes_distinct", f"n={n}: a shape is listed twice")
    if part == 0:
        ctx.label("global")
        # all_trees lists every topology exactly once: valid, pairwise distinct, A000311(n) of them
        trees = list(tskit.all_trees(n))
        ctx.check(len(trees) == A000311[n], "all_trees_count",
                  f"n={n}: {len(trees)} trees, A000311 = {A000311[n]}")
        canons = [check_valid_topology_tree(ctx, t, n, "all_trees_valid") for t in trees]
        ctx.check(len(set(canons)) == len(canons), "all_trees_distinct",
                  f"n={n}: {len(canons) - len(set(canons))} repeated topologies")
        # ... in rank order: shape by shape, the labellings in the order of all_tree_labellings (whose
        # ranks the other parts check to be (s, 0), (s, 1), ...)
        concat = []
        for t in shape_trees:
            concat += [canon_tree(x) for x in tskit.all_tree_labellings(t)]
        ctx.check(concat == canons, "all_trees_order",
                  f"n={n}: all_trees is not the concatenation of all_tree_labellings over all_tree_shapes")
        total = sum(cb.num_labellings(n, s) for s in range(S))
        ctx.check(total == A000311[n], "num_labellings_sum", f"n={n}: sum of num_labellings = {total}")
        t = next(iter(tskit.all_trees(n, span=2.5)))
        ctx.check(tuple(t.interval) == (0, 2.5) and t.tree_sequence.sequence_length == 2.5, "span", "all_trees")
        t = tskit.Tree.unrank(n, (S - 1, 0), span=3.0, branch_length=0.5)
        ctx.check(tuple(t.interval) == (0, 3.0), "span", "unrank span")
        check_unrank_times(ctx, t, 0.5)
        return
    P = NPARTS[n]
    for s in range(part - 1, S, P):
        st_ = shape_trees[s]
        r = st_.rank()
        ctx.check(r.shape == r[0] and r.label == r[1], "rank_tuple", "Rank fields")
        ctx.check(tuple(r) == (s, 0), "all_tree_shapes_order", f"n={n}: shape #{s} has rank {tuple(r)}")
        labs = list(tskit.all_tree_labellings(st_))
        canons = [check_valid_topology_tree(ctx, x, n, "all_tree_labellings_valid") for x in labs]
        ctx.check(len(set(canons)) == len(canons), "all_tree_labellings_distinct",
                  f"n={n} shape {s}: {len(canons) - len(set(canons))} repeated labellings")
        ctx.check(all(shape_of(c) == shapes[s] for c in canons), "all_tree_labellings_shape",
                  f"n={n} shape {s}: a labelling has another shape")
        ctx.check(cb.num_labellings(n, s) == len(labs), "num_labellings",
                  f"num_labellings({n},{s}) = {cb.num_labellings(n, s)} but {len(labs)} labellings listed")
        for l, (x, c) in enumerate(zip(labs, canons)):
            rx = x.rank()
            ctx.check(tuple(rx) == (s, l), "rank_order_dense",
                      f"n={n}: labelling #{l} of shape {s} has rank {tuple(rx)}")
            u = tskit.Tree.unrank(n, (s, l))
            cu = check_valid_topology_tree(ctx, u, n, "unrank_valid")
            ctx.check(cu == c, "unrank_rank_roundtrip", f"n={n}: unrank({(s, l)}) is not the tree listed at that rank")
            ru = u.rank()
            ctx.check(tuple(ru) == (s, l), "rank_unrank_roundtrip", f"n={n}: unrank({(s, l)}).rank() = {tuple(ru)}")
        for bad in ((s, len(labs)), (s, -1)):
            try:
                tskit.Tree.unrank(n, bad)
                ctx.fail("bad_rank_accepted", f"Tree.unrank({n}, {bad}) did not raise")
            except ValueError:
                pass


def check_unrank_times(ctx, t, bl):
    """Documented: leaf time 0; internal node time = max child time + branch_length."""
    for u in t.nodes():
        ch = t.children(u)
        if ch:
            ctx.check(t.time(u) == max(t.time(c) for c in ch) + bl, "unrank_times", f"node {u}")
        else:
            ctx.check(t.time(u) == 0, "unrank_times", f"leaf {u} time {t.time(u)}")


# ------------------------------------------------------------------ random topologies
@st.composite
def topology(draw, labels, max_blocks=4):
    """Random recursive set partition with >= 2 blocks: nested lists of ints."""
    if len(labels) == 1:
        return labels[0]
    k = draw(st.integers(2, min(max_blocks, len(labels))))
    if draw(st.integers(0, 3)) == 0:
        k = 2
    perm = draw(st.permutations(labels))
    cuts = sorted(draw(st.lists(st.integers(1, len(labels) - 1), min_size=k - 1, max_size=k - 1, unique=True)))
    blocks = [perm[a:b] for a, b in zip([0] + cuts, cuts + [len(labels)])]
    return [draw(topology(sorted(b), max_blocks)) for b in blocks]


def count_internal(t):
    return 0 if isinstance(t, int) else 1 + sum(count_internal(x) for x in t)


def build_tree(tskit, topo, n, leaf_ids=None, internal_ids=None, num_nodes=None, deltas=None,
               leaf_times=None, extra_roots=(), unary_at=None):
    """A one-tree tree sequence for the nested-list topology.  Leaves l -> node leaf_ids[l] (sample);
    the k-th internal node in preorder -> node internal_ids[k]; its time is the maximum child time
    plus deltas[k].  extra_roots: further topologies given separate roots (labels continue the
    numbering).  unary_at=k inserts a unary node above the k-th internal node (mod count)."""
    m = count_internal(topo) + sum(count_internal(x) for x in extra_roots)
    nleaf = n + sum(len(leaves_nested(x)) for x in extra_roots)
    extra_unary = 1 if unary_at is not None else 0
    if leaf_ids is None:
        leaf_ids = list(range(nleaf))
    if internal_ids is None:
        internal_ids = list(range(nleaf, nleaf + m + extra_unary))
    if num_nodes is None:
        num_nodes = nleaf + m + extra_unary
    if deltas is None:
        deltas = [1.0]
    if leaf_times is None:
        leaf_times = [0.0]
    times = [0.0] * num_nodes
    flags = [0] * num_nodes
    for l in range(nleaf):
        flags[leaf_ids[l]] = 1
        times[leaf_ids[l]] = float(leaf_times[l % len(leaf_times)])
    edges = []
    counter = [0]
    target = None if unary_at is None else unary_at % max(1, m)

    def add(t):
        if isinstance(t, int):
            return leaf_ids[t]
        k = counter[0]
        counter[0] += 1
        u = internal_ids[k]
        kids = [add(x) for x in t]
        times[u] = max(times[c] for c in kids) + float(deltas[k % len(deltas)])
        for c in kids:
            edges.append((u, c))
        if target is not None and k == target:
            w = internal_ids[m]  # the spare id
            times[w] = times[u] + 1.0
            edges.append((w, u))
            return w
        return u

    add(topo)
    for x in extra_roots:
        add(x)
    tables = tskit.TableCollection(1.0)
    for u in range(num_nodes):
        tables.nodes.add_row(flags=flags[u], time=times[u])
    for p, c in edges:
        tables.edges.add_row(0, 1.0, p, c)
    tables.sort()
    return tables.tree_sequence().first()


def leaves_nested(t):
    return [t] if isinstance(t, int) else [l for x in t for l in leaves_nested(x)]


# ------------------------------------------------------------------ (b) round trips for larger n
BIG = st.integers(0, 2**200)


@st.composite
def big_case(draw):
    n = draw(st.sampled_from([8, 9, 10, 11, 12, 13, 14]))
    topo = draw(topology(list(range(n)), max_blocks=draw(st.sampled_from([2, 3, 4, 6]))))
    m = count_internal(topo)
    return dict(n=n, topo=topo, iperm=draw(st.permutations(list(range(m)))),
                deltas=draw(st.lists(st.sampled_from([1.0, 0.5, 2.0, 7.25]), min_size=1, max_size=4)),
                ranks=[[draw(BIG), draw(BIG)], [draw(BIG), draw(BIG)], [draw(BIG), draw(BIG)]],
                same_shape=draw(st.booleans()))


@st.composite
def bushy_case(draw):
    """Larger n with LOW shape ranks: a root whose children are leaves, cherries, 3-stars and 4-stars (rank and
    unrank stay fast there, while label counts exceed 64 bits)."""
    a, b, c, d = draw(st.integers(0, 4)), draw(st.integers(0, 9)), draw(st.integers(0, 7)), draw(st.integers(0, 4))
    if a + b + c + d < 2:
        b += 2
    n = a + 2 * b + 3 * c + 4 * d
    perm = list(draw(st.permutations(list(range(n)))))
    topo, i = [], 0
    for size, cnt in ((1, a), (2, b), (3, c), (4, d)):
        for _ in range(cnt):
            blk = sorted(perm[i:i + size])
            topo.append(blk[0] if size == 1 else blk)
            i += size
    return dict(n=n, topo=topo, lr=draw(BIG))


def run_bushy(case, ctx):
    import tskit
    from tskit import combinatorics as cb

    n, topo = case["n"], case["topo"]
    ctx.nt(n >= 20)
    ctx.label("n>=30", n >= 30)
    tree = build_tree(tskit, topo, n)
    c = canon_nested(topo)
    ctx.check(canon_tree(tree) == c, "harness", "built tree does not have the generated topology")
    r = tree.rank()
    s, l = int(r[0]), int(r[1])
    nl = cb.num_labellings(n, s)
    ctx.label("labellings>=2^63", nl >= 2**63)
    ctx.check(0 <= s < cb.num_shapes(n) and 0 <= l < nl, "rank_range", f"rank {(s, l)} outside ({cb.num_shapes(n)}, {nl})")
    u = tskit.Tree.unrank(n, (s, l))
    ctx.check(check_valid_topology_tree(ctx, u, n, "unrank_valid") == c, "unrank_rank_roundtrip",
              f"unrank({n}, {(s, l)}) is a different topology")
    ru = u.rank()
    ctx.check((int(ru[0]), int(ru[1])) == (s, l), "rank_unrank_roundtrip", f"unrank({(s, l)}).rank() = {tuple(ru)}")
    for lj in (case["lr"] % nl, nl - 1, 0):
        t = tskit.Tree.unrank(n, (s, lj))
        rj = t.rank()
        ctx.check((int(rj[0]), int(rj[1])) == (s, lj), "rank_unrank_roundtrip", f"unrank({n}, {(s, lj)}).rank() = {tuple(rj)}")
    for bad in (nl, nl + 1, -1):
        try:
            tskit.Tree.unrank(n, (s, bad))
        except ValueError:
            continue
        ctx.fail("bad_rank_accepted", f"unrank({n}, ({s}, {bad})) accepted; num_labellings = {nl}")


def run_big(case, ctx):
    import tskit
    from tskit import combinatorics as cb

    n, topo = case["n"], case["topo"]
    ctx.nt(True)
    ctx.label(f"n={n}")
    ctx.label("polytomy", any_polytomy(topo))
    S = cb.num_shapes(n)
    if n in A000669:
        ctx.check(S == A000669[n], "num_shapes", f"num_shapes({n}) = {S}")
    # a topology built without RankTree
    m = count_internal(topo)
    tree = build_tree(tskit, topo, n, internal_ids=[n + i for i in case["iperm"]], deltas=case["deltas"])
    c = canon_nested(topo)
    ctx.check(canon_tree(tree) == c, "harness", "built tree does not have the generated topology")
    r = tree.rank()
    s, l = int(r[0]), int(r[1])
    ctx.check(0 <= s < S, "rank_range", f"shape rank {s} not below num_shapes({n}) = {S}")
    nl = cb.num_labellings(n, s)
    ctx.check(0 <= l < nl, "rank_range", f"label rank {l} not below num_labellings = {nl}")
    u = tskit.Tree.unrank(n, (s, l))
    cu = check_valid_topology_tree(ctx, u, n, "unrank_valid")
    ctx.check(cu == c, "unrank_rank_roundtrip", f"unrank({n}, {(s, l)}) is a different topology")
    ru = u.rank()
    ctx.check((ru[0], ru[1]) == (s, l), "rank_unrank_roundtrip", f"unrank({(s, l)}).rank() = {tuple(ru)}")
    ctx.check(m == count_internal_canon(cu), "harness", "internal node count")
    # random ranks as big integers
    got = []
    for j, (a, b) in enumerate(case["ranks"]):
        sj = a % S
        if case["same_shape"] and j > 0:
            sj = got[0][0][0]
        nlj = cb.num_labellings(n, sj)
        lj = b % nlj
        ctx.label("label_rank>=10^6", lj >= 10**6)
        t = tskit.Tree.unrank(n, (sj, lj))
        cj = check_valid_topology_tree(ctx, t, n, "unrank_valid")
        rj = t.rank()
        ctx.check((rj[0], rj[1]) == (sj, lj), "rank_unrank_roundtrip",
                  f"unrank({n}, {(sj, lj)}).rank() = {tuple(rj)}")
        check_unrank_times(ctx, t, 1)
        got.append(((sj, lj), cj))
    for (r1, c1), (r2, c2) in itertools.combinations(got + [((s, l), c)], 2):
        ctx.check((r1 == r2) == (c1 == c2), "rank_injective",
                  f"n={n}: ranks {r1} and {r2}: topologies equal is {c1 == c2}")
        ctx.check((r1[0] == r2[0]) == (shape_of(c1) == shape_of(c2)), "shape_rank_injective",
                  f"n={n}: ranks {r1} and {r2}: same shape is {shape_of(c1) == shape_of(c2)}")


def count_internal_canon(c):
    return 0 if c[0] == "L" else 1 + sum(count_internal_canon(x) for x in c[1])


def any_polytomy(t):
    return (not isinstance(t, int)) and (len(t) > 2 or any(any_polytomy(x) for x in t))


# ------------------------------------------------------------------ (c) invariances
@st.composite
def inv_case(draw):
    n = draw(st.integers(2, 12))
    topo = draw(topology(list(range(n)), max_blocks=draw(st.sampled_from([2, 3, 5]))))
    m = count_internal(topo)
    extra = draw(st.integers(0, 3))
    total = n + m + extra
    perm = draw(st.permutations(list(range(total))))
    variant = dict(
        leaf_ids=sorted(perm[:n]),  # order-preserving renumbering of the leaves
        internal_ids=list(perm[n:n + m]),
        num_nodes=total,
        deltas=draw(st.lists(st.sampled_from([1.0, 0.25, 3.0, 1e6, 2.0**-20]), min_size=1, max_size=5)),
        leaf_times=draw(st.lists(st.sampled_from([0.0, 0.0, 1.0, 2.5]), min_size=1, max_size=4)),
    )
    iperm = draw(st.permutations(list(range(m))))
    bad = draw(st.sampled_from(["none", "multiroot", "unary", "unary"]))
    other = None
    if bad == "multiroot":
        k = draw(st.integers(1, 3))
        other = draw(topology(list(range(n, n + k))))
    return dict(n=n, topo=topo, variant=variant, iperm=iperm, bad=bad, other=other,
                unary_at=draw(st.integers(0, 20)))


def run_inv(case, ctx):
    import tskit

    n, topo = case["n"], case["topo"]
    ctx.nt(n >= 4)
    ctx.label("polytomy", any_polytomy(topo))
    ctx.label("n>=4", n >= 4)
    base = build_tree(tskit, topo, n)
    c = canon_nested(topo)
    ctx.check(canon_tree(base) == c, "harness", "base tree topology")
    r0 = base.rank()
    # the rank identifies the topology
    u = tskit.Tree.unrank(n, r0)
    ctx.check(canon_tree(u) == c, "unrank_rank_roundtrip", f"unrank({n}, {tuple(r0)}) is a different topology")
    # internal nodes renumbered (changes child order too)
    t1 = build_tree(tskit, topo, n, internal_ids=[n + i for i in case["iperm"]])
    ctx.check(canon_tree(t1) == c, "harness", "variant 1 topology")
    ctx.check(t1.rank() == r0, "rank_invariant_internal_ids", f"{tuple(t1.rank())} vs {tuple(r0)}")
    ctx.label("child_order_changed", [list(base.children(x)) for x in base.nodes()] !=
              [list(t1.children(x)) for x in t1.nodes()])
    # everything renumbered order-preservingly on the leaves, times changed, unused ids added
    v = case["variant"]
    t2 = build_tree(tskit, topo, n, leaf_ids=v["leaf_ids"], internal_ids=v["internal_ids"],
                    num_nodes=v["num_nodes"], deltas=v["deltas"], leaf_times=v["leaf_times"])
    back = {nid: l for l, nid in enumerate(v["leaf_ids"])}
    ctx.check(t2.num_roots == 1 and canon_tree(t2, label=back) == c, "harness", "variant 2 topology")
    ctx.label("leaves_renumbered", v["leaf_ids"] != list(range(n)))
    r2 = t2.rank()
    ctx.check(r2 == r0, "rank_invariant_renumbering_times",
              f"rank {tuple(r2)} after renumbering/retiming, {tuple(r0)} before")
    # trees that cannot be ranked
    if case["bad"] == "multiroot":
        ctx.label("multiroot")
        t3 = build_tree(tskit, topo, n, extra_roots=[case["other"]])
        ctx.check(t3.num_roots == 2, "harness", "multiroot variant")
        try:
            r = t3.rank()
            ctx.fail("rank_multiroot", f"rank() of a tree with 2 roots returned {tuple(r)}")
        except ValueError:
            pass
    elif case["bad"] == "unary":
        ctx.label("unary")
        t3 = build_tree(tskit, topo, n, unary_at=case["unary_at"])
        ctx.check(any(t3.num_children(x) == 1 for x in t3.nodes()), "harness", "unary variant")
        try:
            r = t3.rank()
            ctx.fail("rank_unary", f"rank() of a tree with a unary node returned {tuple(r)}")
        except ValueError:
            pass


# ------------------------------------------------------------------ out-of-range ranks
@st.composite
def bad_case(draw):
    return dict(n=draw(st.sampled_from([1, 2, 3, 4, 5, 6, 7, 8, 9, 10, 11, 12])), a=draw(BIG), b=draw(BIG),
                kind=draw(st.sampled_from(["shape_eq", "shape_big", "label_eq", "label_big", "neg_shape",
                                           "neg_label", "neg_both", "zero_leaves"])))


def run_bad(case, ctx):
    import tskit
    from tskit import combinatorics as cb

    n, kind = case["n"], case["kind"]
    ctx.nt(True)
    ctx.label(kind)
    ctx.label("n=1", n == 1)
    S = cb.num_shapes(n)
    s = case["a"] % S
    nl = cb.num_labellings(n, s)
    l = case["b"] % nl
    # the in-range neighbour is accepted
    ok = tskit.Tree.unrank(n, (s, l))
    ctx.check(tuple(ok.rank()) == (s, l), "rank_unrank_roundtrip", f"n={n} {(s, l)}")
    if kind == "shape_eq":
        rank = (S, 0)
    elif kind == "shape_big":
        rank = (S + 1 + case["b"], 0)
    elif kind == "label_eq":
        rank = (s, nl)
    elif kind == "label_big":
        rank = (s, nl + 1 + case["a"])
    elif kind == "neg_shape":
        rank = (-1 - (case["a"] % 3), l)
    elif kind == "neg_label":
        rank = (s, -1 - (case["a"] % 3))
    elif kind == "neg_both":
        rank = (-1, -1)
    else:
        n, rank = 0, (0, 0)
    try:
        t = tskit.Tree.unrank(n, rank)
        ctx.fail("bad_rank_accepted", f"Tree.unrank({n}, {rank}) returned a tree of rank {tuple(t.rank())} "
                 f"(num_shapes={S}, num_labellings={nl})")
    except ValueError:
        pass


# ------------------------------------------------------------------ (d) count_topologies
@st.composite
def genealogy_spec(draw):
    """A tree sequence in which the samples are leaves and most of them hang in one genealogy:
    ns samples at time 0, ni internal nodes at times 1..ni, every node picks an older internal node
    as parent (rarely none) independently per interval, with some stickiness between intervals."""
    ns = draw(st.sampled_from([2, 3, 4, 5, 6, 6, 7, 8]))
    ni = draw(st.integers(1, 5))
    n = ns + ni
    nint = draw(st.sampled_from([1, 1, 2, 3, 4]))
    L = float(nint)
    npop = draw(st.sampled_from([0, 0, 2, 3]))
    internal_sample = draw(st.integers(0, 11)) == 0
    times = [0.0] * ns + [float(k + 1) for k in range(ni)]
    loose = draw(st.sampled_from([0, 0, 1, 3]))  # how often a node has no parent (out of 10)
    parent = [[-1] * n for _ in range(nint)]
    for i in range(nint):
        for u in range(n):
            older = [v for v in range(ns, n) if times[v] > times[u]]
            if not older:
                continue
            if i > 0 and draw(st.integers(0, 2)) == 0:
                parent[i][u] = parent[i - 1][u]
            elif draw(st.integers(0, 9)) < loose:
                parent[i][u] = -1
            else:
                # prefer a close ancestor: polytomies and deep trees both occur
                parent[i][u] = older[min(draw(st.integers(0, len(older) - 1)), draw(st.integers(0, len(older) - 1)))]
    nodes = []
    for u in range(n):
        fl = 1 if u < ns else 0
        if internal_sample and u == ns:
            fl = 1
        nodes.append([fl, times[u], draw(st.integers(0, npop - 1)) if npop else -1, -1, ""])
    edges = []
    for u in range(n):
        i = 0
        while i < nint:
            p = parent[i][u]
            if p < 0:
                i += 1
                continue
            k = i
            while k + 1 < nint and parent[k + 1][u] == p:
                k += 1
            edges.append([float(i), float(k + 1), p, u, ""])
            i = k + 1
    edges.sort(key=lambda e: (times[e[2]], e[2], e[3], e[0]))
    return dict(L=L, nodes=nodes, edges=edges, sites=[], mutations=[], individuals=[],
                populations=[[""] for _ in range(npop)], migrations=[])


@st.composite
def count_case(draw):
    how = draw(st.integers(0, 9))
    if how <= 6:
        spec = draw(genealogy_spec())
    else:
        spec = draw(gen.ts_spec(max_nodes=9, max_intervals=4, max_sites=0, migrations=False, metadata=False,
                                individuals=False, populations=draw(st.booleans()), leaf_samples=how != 9,
                                extra_flags=False, min_samples=draw(st.sampled_from([0, 2, 3, 4]))))
    smp = model.samples(spec)
    k = draw(st.sampled_from([3, 2, 3, 4, 1, 3]))
    assign = [draw(st.integers(0, k - 1)) if draw(st.integers(0, 7)) else -1 for _ in smp]
    sets = [[u for u, a in zip(smp, assign) if a == j] for j in range(k)]
    sets = [list(draw(st.permutations(s))) for s in sets]
    non = [u for u in range(len(spec["nodes"])) if u not in smp]
    bad_node = draw(st.sampled_from(non)) if non and draw(st.integers(0, 9)) == 0 else None
    return dict(spec=spec, sets=sets, bad_node=bad_node, by_population=draw(st.integers(0, 3)) == 0)


def induced(ch, u, chosen):
    """Canonical form of the topology induced below u on the chosen leaves (dict node -> label),
    unary nodes contracted; None when no chosen leaf is below u."""
    if u in chosen:
        return ("L", chosen[u])
    parts = [x for x in (induced(ch, c, chosen) for c in ch[u]) if x is not None]
    if not parts:
        return None
    if len(parts) == 1:
        return parts[0]
    return ("N", frozenset(parts))


def expected_counts(spec, x, sets):
    """{combo: {canon: count}} by brute force over all choices of one sample per set."""
    par = model.parent_at(spec, x)
    ch = model.children_of(par)

    def root_of(u):
        while par[u] >= 0:
            u = par[u]
        return u

    out = {}
    k = len(sets)
    for size in range(1, k + 1):
        for combo in itertools.combinations(range(k), size):
            cnt = {}
            for choice in itertools.product(*(sets[j] for j in combo)):
                roots = {root_of(u) for u in choice}
                if len(roots) != 1:
                    continue  # the samples are not in one tree: no topology
                c = induced(ch, next(iter(roots)), {u: p for p, u in enumerate(choice)})
                cnt[c] = cnt.get(c, 0) + 1
            out[combo] = cnt
    return out


def normalise_counter(tc):
    return {tuple(k): {(int(r[0]), int(r[1])): int(c) for r, c in v.items() if c != 0}
            for k, v in tc.topologies.items() if any(c != 0 for c in v.values())}


def run_count(case, ctx):
    import tskit

    spec, sets = case["spec"], [list(s) for s in case["sets"]]
    ts = gen.build_tables(spec, tskit).tree_sequence()
    bps = model.breakpoints(spec)
    n = len(spec["nodes"])
    labs = gen.spec_labels(spec, model)
    for l in labs & {"multi_tree", "multi_root", "polytomy", "unary", "internal_sample", "dead_branch",
                     "isolated_sample"}:
        ctx.label(l)
    ctx.label(f"sets={len(sets)}")
    ctx.label("sets>=3", len(sets) >= 3)
    ctx.label("big_set", any(len(s) >= 3 for s in sets))
    internal_at = []
    for a in bps[:-1]:
        ch = model.children_of(model.parent_at(spec, a))
        internal_at.append(any(model.is_sample(spec, u) and ch[u] for u in range(n)))
    if case["bad_node"] is not None:
        ctx.label("non_sample_in_sets")
        bad_sets = sets[:-1] + [sets[-1] + [case["bad_node"]]]
        for i, tree in enumerate(ts.trees()):
            try:
                tree.count_topologies(bad_sets)
                ctx.fail("non_sample_accepted", f"tree {i}: count_topologies accepted non-sample {case['bad_node']}")
            except ValueError:
                pass
        try:
            list(ts.count_topologies(bad_sets))
            ctx.fail("non_sample_accepted", f"ts.count_topologies accepted non-sample {case['bad_node']}")
        except ValueError:
            pass
    ctx.nt(len(sets) >= 3 and bool(labs & {"polytomy", "multi_root"}) and not any(internal_at))
    per_tree = []
    for i, tree in enumerate(ts.trees()):
        if internal_at[i]:
            ctx.label("internal_sample_raises")
            try:
                tree.count_topologies(sets)
                ctx.fail("internal_sample_accepted", f"tree {i} has an internal sample but count_topologies returned")
            except ValueError:
                pass
            per_tree.append(None)
            continue
        tc = tree.count_topologies(sets)
        got = normalise_counter(tc)
        per_tree.append(got)
        exp = expected_counts(spec, bps[i], sets)
        for combo, cnt in exp.items():
            # the public accessor, any order of the indexes
            c1 = tc[combo[::-1]] if len(combo) > 1 else tc[combo[0]]
            ctx.check({(int(r[0]), int(r[1])): int(v) for r, v in c1.items() if v} == got.get(combo, {}),
                      "counter_getitem", f"tree {i} combination {combo}")
            act = {}
            for r, v in got.get(combo, {}).items():
                c = canon_tree(tskit.Tree.unrank(len(combo), r))
                ctx.check(c not in act, "count_rank_distinct", f"tree {i} {combo}: two ranks for one topology")
                act[c] = v
            ctx.check(act == cnt, "count_topologies",
                      lambda: f"tree {i} [{bps[i]},{bps[i + 1]}) sets {sets} combination {combo}: "
                              f"got {got.get(combo, {})} i.e. {act}, brute force {cnt}")
            if cnt:
                ctx.label(f"k={len(combo)}_nonempty")
                ctx.label("several_topologies", len(cnt) >= 2)
        ctx.check(set(got) <= set(exp), "count_keys", f"tree {i}: unexpected keys {set(got) - set(exp)}")
        # history on ONE Tree object: a later call with smaller sets (and a rejected call in between) must not see
        # anything of the earlier call
        smaller = [list(x[1:]) for x in sets]
        if any(len(a) != len(b_) for a, b_ in zip(sets, smaller)) and any(smaller):
            ctx.label("second_call_smaller_sets")
            try:
                tree.count_topologies([[len(spec["nodes"]) + 5]] + smaller[1:])
            except (ValueError, tskit.LibraryError, IndexError):
                pass
            got2 = normalise_counter(tree.count_topologies(smaller))
            exp2 = expected_counts(spec, bps[i], smaller)
            for combo, cnt in exp2.items():
                act = {}
                for r, v in got2.get(combo, {}).items():
                    act[canon_tree(tskit.Tree.unrank(len(combo), r))] = v
                ctx.check(act == cnt, "count_topologies_second_call",
                          lambda: f"tree {i} sets {smaller} (after a call with {sets}) combination {combo}: got {act}, brute force {cnt}")
    # the incremental tree-sequence version
    it = ts.count_topologies(sets)
    first_bad = internal_at.index(True) if any(internal_at) else None
    for i in range(ts.num_trees):
        if first_bad is not None and i == first_bad:
            try:
                next(it)
                ctx.fail("internal_sample_accepted", f"ts.count_topologies yielded tree {i} with an internal sample")
            except ValueError:
                pass
            break
        try:
            tc = next(it)
        except StopIteration:
            ctx.fail("ts_count_length", f"ts.count_topologies stopped before tree {i}")
        got = normalise_counter(tc)
        ctx.check(got == per_tree[i], "ts_count_vs_tree_count",
                  lambda: f"tree {i}: incremental {got} per-tree {per_tree[i]} (sets {sets})")
    else:
        try:
            next(it)
            ctx.fail("ts_count_length", "ts.count_topologies yields more counters than trees")
        except StopIteration:
            pass
    # default sample sets: samples grouped by population
    if case["by_population"] and spec["populations"] and not any(internal_at):
        ctx.label("by_population")
        psets = [[u for u in model.samples(spec) if spec["nodes"][u][2] == p]
                 for p in range(len(spec["populations"]))]
        for tree in ts.trees():
            ctx.check(normalise_counter(tree.count_topologies()) == normalise_counter(tree.count_topologies(psets)),
                      "default_sample_sets", f"tree {tree.index}")


# ------------------------------------------------------------------ big shape ranks, deep trees
def enum_deep(tier, seed):
    pairs = [(30, 300, 310), (30, 1000, 1003), (25, 90002, 90012)]
    if tier != "quick":
        pairs += [(25, 123463, 123473), (28, 2000, 2001), (30, 200, 200), (30, 5000, 5001)]
    for k, a, b in pairs:
        yield dict(kind="pair", k=k, a=a, b=b)
    for n in ([1200] if tier == "quick" else [900, 1010, 1200, 2500]):
        yield dict(kind="caterpillars", n=n)


def _nested(tree, u, offset):
    ch = tree.children(u)
    if not ch:
        return u + offset
    return [_nested(tree, c, offset) for c in ch]


def run_deep(case, ctx):
    """(a) a root over two subtrees of equal size whose shape ranks are so large that products of ranks and shape counts
    pass 2^53: rank() then unrank() must give back the same labelled topology; (b) two caterpillar trees of more than
    a thousand samples differing at the bottom: the incremental tree-sequence count equals the per-tree count."""
    import tskit

    ctx.nt(True)
    if case["kind"] == "pair":
        k = case["k"]
        ctx.label("pair")
        A = tskit.Tree.unrank(k, (case["a"], 0))
        B = tskit.Tree.unrank(k, (case["b"], 0))
        topo = [_nested(A, A.root, 0), _nested(B, B.root, k)]
        tree = build_tree(tskit, topo, 2 * k)
        r = tree.rank()
        back = tskit.Tree.unrank(2 * k, r)
        ctx.check(canon_tree(back) == canon_tree(tree), "unrank_rank",
                  f"root over two {k}-leaf subtrees of shape ranks {case['a']}, {case['b']}: rank {tuple(r)} unranks to a "
                  "different topology")
        ctx.check(tuple(back.rank()) == tuple(r), "rank_unrank", f"unrank({2 * k}, {tuple(r)}).rank() = {tuple(back.rank())}")
        return
    n = case["n"]
    ctx.label("caterpillars")
    t = tskit.TableCollection(2.0)
    for _ in range(n):
        t.nodes.add_row(flags=1, time=0.0)
    # caterpillar: internal node i (time i+1) joins leaf i+1 with the previous internal node; the bottom cherry is
    # (0, 1) on [0, 1) and (0, 2) with leaf 1 attached one level up on [1, 2)
    internal = [t.nodes.add_row(time=float(i + 1)) for i in range(n - 1)]
    extra = t.nodes.add_row(time=1.0)
    rows = []
    rows.append((0.0, 1.0, internal[0], 0))
    rows.append((0.0, 1.0, internal[0], 1))
    rows.append((1.0, 2.0, extra, 0))
    rows.append((1.0, 2.0, extra, 2))
    rows.append((0.0, 1.0, internal[1], internal[0]))
    rows.append((0.0, 1.0, internal[1], 2))
    rows.append((1.0, 2.0, internal[1], extra))
    rows.append((1.0, 2.0, internal[1], 1))
    for i in range(2, n - 1):
        rows.append((0.0, 2.0, internal[i], internal[i - 1]))
        rows.append((0.0, 2.0, internal[i], i + 1))
    for l, r_, p_, c in rows:
        t.edges.add_row(l, r_, p_, c)
    t.sort()
    ts = t.tree_sequence()
    ctx.check(ts.num_trees == 2, "harness", "two trees expected")
    sets = [[0], [1, 2], [n - 1, n // 2]]
    inc = list(ts.count_topologies(sets))
    ctx.check(len(inc) == 2, "ts_count_len", f"{len(inc)} counters for 2 trees")
    for i, tree in enumerate(ts.trees()):
        ctx.check(normalise_counter(inc[i]) == normalise_counter(tree.count_topologies(sets)), "ts_vs_tree",
                  f"tree {i}: incremental count differs from Tree.count_topologies")


SUBCHECKS = [
    SubCheck("C15.exhaustive_small", run_small, enumerate=enum_small, quick=1, thorough=1,
             rule="every n from 1 to 6 (quick) / 7 (thorough), all trees; non-trivial = n >= 4"),
    SubCheck("C15.roundtrip_big", run_big, strategy=big_case, quick=2000, thorough=60000,
             rule="n in [8,14] (all cases)", floors={"polytomy": 0.3}),
    SubCheck("C15.bushy_big", run_bushy, strategy=bushy_case, quick=100, thorough=3000,
             rule="n >= 20 leaves (up to 66): root with leaf / cherry / 3-star / 4-star children, label counts beyond 64 bits",
             floors={"n>=30": 0.2, "labellings>=2^63": 0.2}),
    SubCheck("C15.rank_invariance", run_inv, strategy=inv_case, quick=5000, thorough=150000,
             rule="n >= 4", floors={"polytomy": 0.2, "leaves_renumbered": 0.3, "multiroot": 0.1, "unary": 0.2}),
    SubCheck("C15.bad_ranks", run_bad, strategy=bad_case, quick=1500, thorough=45000,
             rule="every case (one out-of-range rank next to an accepted in-range rank)",
             floors={"n=1": 0.03, "shape_eq": 0.05, "label_eq": 0.05}),
    SubCheck("C15.count_topologies", run_count, strategy=count_case, quick=10000, thorough=300000,
             rule="a tree with a polytomy or >= 2 roots, >= 3 sample sets, no internal sample",
             floors={"sets>=3": 0.2, "polytomy": 0.2, "multi_root": 0.15, "multi_tree": 0.15, "unary": 0.2,
                     "internal_sample_raises": 0.03, "k=2_nonempty": 0.15, "k=3_nonempty": 0.05,
                     "big_set": 0.1, "several_topologies": 0.01, "non_sample_in_sets": 0.03}),
    SubCheck("C15.deep", run_deep, enumerate=enum_deep, quick=1, thorough=1, shards=4, hang_s=1200,
             rule="two 25-30 leaf subtrees with shape ranks beyond 2^53 / count(k) under one root; two caterpillars of >1000 "
             "samples"),
]
