"""Reference metadata codecs for C12, written from /repo/docs/metadata.md only.

Nothing in here imports tskit.  The struct reference encodes integers with int.to_bytes, booleans
as one byte, floats with struct.pack of a *single* value, strings/padding/arrays/objects by hand;
decoding walks a byte cursor.  The JSON reference is a hand-written canonical serialiser
(keys sorted, no whitespace) and `json.loads` + top-level default filling.
"""
import json
import math
import struct

INT_FMT = {  # format -> (size, signed)
    "b": (1, True), "B": (1, False), "h": (2, True), "H": (2, False), "i": (4, True),
    "I": (4, False), "l": (4, True), "L": (4, False), "q": (8, True), "Q": (8, False),
}
FLOAT_FMT = {"f": 4, "d": 8}
NUMERIC_TYPES = ("number", "integer", "boolean")


class Undecodable(Exception):
    """A fixed-width string field whose bytes are not valid in its encoding (truncation inside a
    character, odd-length utf-16 padding): the docs say nothing about decoding it."""


# ------------------------------------------------------------------ tagging (cases are JSON)
def tag(o):
    if isinstance(o, float) and not math.isfinite(o):
        return {"$nf": "nan" if math.isnan(o) else ("inf" if o > 0 else "-inf")}
    if isinstance(o, bytes):
        return {"$nf": "bytes:" + o.decode("latin-1")}
    if isinstance(o, dict):
        return {k: tag(v) for k, v in o.items()}
    if isinstance(o, (list, tuple)):
        return [tag(v) for v in o]
    return o


def untag(o):
    if isinstance(o, dict):
        if len(o) == 1 and "$nf" in o:
            s = o["$nf"]
            if s.startswith("bytes:"):
                return s[6:].encode("latin-1")
            return float(s)
        return {k: untag(v) for k, v in o.items()}
    if isinstance(o, list):
        return [untag(v) for v in o]
    return o


def fbits(x):
    return struct.pack("<d", x)


def deq(a, b):
    """Deep equality, type-strict (bool/int/float distinguished), floats by bit pattern except
    that every NaN equals every NaN."""
    if isinstance(a, dict) and isinstance(b, dict):  # OrderedDict == dict
        return a.keys() == b.keys() and all(deq(a[k], b[k]) for k in a)
    if type(a) is not type(b):
        return False
    if isinstance(a, float):
        if math.isnan(a) or math.isnan(b):
            return math.isnan(a) and math.isnan(b)
        return fbits(a) == fbits(b)
    if isinstance(a, dict):
        return a.keys() == b.keys() and all(deq(a[k], b[k]) for k in a)
    if isinstance(a, list):
        return len(a) == len(b) and all(deq(x, y) for x, y in zip(a, b))
    return a == b


# ------------------------------------------------------------------ schema helpers
def fmt_parts(bf):
    """'10s' -> (10, 's'); 's' -> (1, 's'); 'i' -> (1, 'i')."""
    ch = bf[-1]
    cnt = bf[:-1]
    return (int(cnt) if cnt else 1), ch


def int_range(f):
    size, signed = INT_FMT[f]
    bits = 8 * size
    return (-(1 << (bits - 1)), (1 << (bits - 1)) - 1) if signed else (0, (1 << bits) - 1)


def is_nullable_top(s):
    return isinstance(s.get("type"), list)


def node_type(s):
    t = s.get("type")
    return "object" if isinstance(t, list) else t


def ordered(s):
    """Docs: 'The order that properties are encoded is by default alphabetically by name. The
    order can be overridden by setting an optional numerical index on each property.'"""
    props = s.get("properties", {})
    return sorted(props.items(), key=lambda kv: (kv[1].get("index", 0), kv[0]))


def effective_required(s):
    """Docs: 'Any property that does not have a default specified in the schema must be present.'"""
    props = s.get("properties", {})
    if "required" in s:
        return list(s["required"])
    return [k for k, v in props.items() if "default" not in v]


def array_mode(s):
    if "length" in s:
        return "fixed"
    if s.get("noLengthEncodingExhaustBuffer", False):
        return "exhaust"
    return "prefix"


def min_size(s):
    """Smallest number of bytes an encoded value of this sub-schema can take."""
    t = node_type(s)
    if t == "object":
        return sum(min_size(v) for v in s.get("properties", {}).values())
    if t == "array":
        m = array_mode(s)
        if m == "fixed":
            return s["length"] * min_size(s["items"])
        if m == "exhaust":
            return 0
        return INT_FMT[s.get("arrayLengthFormat", "L")][0]
    if t == "null":
        return fmt_parts(s["binaryFormat"])[0] if "binaryFormat" in s else 0
    n, ch = fmt_parts(s["binaryFormat"])
    if ch in "spx":
        return n
    if ch == "c" or ch == "?":
        return 1
    return INT_FMT[ch][0] if ch in INT_FMT else FLOAT_FMT[ch]


def walk_schema(s, depth=0):
    yield s, depth
    t = node_type(s)
    if t == "object":
        for v in s.get("properties", {}).values():
            yield from walk_schema(v, depth + 1)
    elif t == "array":
        yield from walk_schema(s["items"], depth + 1)


def exhaust_zero_size(s):
    """The class of the known finding: an exhaust-buffer array whose items can encode to 0 bytes."""
    return any(
        node_type(n) == "array" and array_mode(n) == "exhaust" and min_size(n["items"]) == 0
        for n, _ in walk_schema(s)
    )


def has_bare_null(s):
    return any(node_type(n) == "null" and "binaryFormat" not in n for n, _ in walk_schema(s))


def in_numpy_subset(s):
    """docs 'Structured array metadata': fixed size (every array has `length`), top level is an
    object (no union with null), strings use 's' (I also admit 'c', a one byte char)."""
    if is_nullable_top(s):
        return False
    for n, _ in walk_schema(s):
        t = node_type(n)
        if t == "array" and array_mode(n) != "fixed":
            return False
        if t == "string" and fmt_parts(n["binaryFormat"])[1] == "p":
            return False
    return True


# ------------------------------------------------------------------ struct reference: encode
def _unit(encoding):
    return 2 if encoding.lower().replace("_", "-") in ("utf-16-le", "utf-16le") else 1


def string_field_bytes(s, v):
    """The bytes stored for string v under sub-schema s (s/p/c rules of the docs)."""
    n, ch = fmt_parts(s["binaryFormat"])
    b = v.encode(s.get("stringEncoding", "utf-8"))
    if ch == "s":
        return b[:n] + b"\x00" * max(0, n - len(b))
    if ch == "p":
        if n == 0:
            return b""
        body = b[: n - 1]
        return bytes([min(len(body), 255)]) + body + b"\x00" * (n - 1 - len(body))
    if ch == "c":
        if len(b) != 1:
            raise ValueError("c needs exactly one byte")
        return b
    raise AssertionError(ch)


def enc(s, v):
    t = s["type"]
    if isinstance(t, list):
        if v is None:
            return b""
        t = "object"
    if t == "object":
        out = []
        for name, sub in ordered(s):
            out.append(enc(sub, v[name] if name in v else sub["default"]))
        return b"".join(out)
    if t == "array":
        body = b"".join(enc(s["items"], e) for e in v)
        m = array_mode(s)
        if m == "fixed":
            if len(v) != s["length"]:
                raise ValueError("fixed length mismatch")
            return body
        if m == "exhaust":
            return body
        size, _ = INT_FMT[s.get("arrayLengthFormat", "L")]
        return len(v).to_bytes(size, "little", signed=False) + body
    if t == "null":
        return b"\x00" * (fmt_parts(s["binaryFormat"])[0] if "binaryFormat" in s else 0)
    if t == "string":
        return string_field_bytes(s, v)
    f = s["binaryFormat"]
    if f == "?":
        return b"\x01" if v else b"\x00"
    if f in INT_FMT:
        size, signed = INT_FMT[f]
        return int(v).to_bytes(size, "little", signed=signed)
    return struct.pack("<" + f, v)


# ------------------------------------------------------------------ struct reference: decode
class _Cur:
    def __init__(self, data):
        self.data = bytes(data)
        self.pos = 0

    def take(self, n):
        if self.pos + n > len(self.data):
            raise ValueError("reference decoder ran out of bytes")
        b = self.data[self.pos:self.pos + n]
        self.pos += n
        return b

    def left(self):
        return len(self.data) - self.pos


def _cut_null(raw, unit):
    if unit == 1:
        i = raw.find(b"\x00")
        return raw if i < 0 else raw[:i]
    for i in range(0, len(raw) - unit + 1, unit):
        if raw[i:i + unit] == b"\x00" * unit:
            return raw[:i]
    return raw


def _dec_string(s, field):
    n, ch = fmt_parts(s["binaryFormat"])
    encoding = s.get("stringEncoding", "utf-8")
    if ch == "p":
        if n == 0:
            raw = b""
        else:
            raw = field[1:1 + min(field[0], n - 1)]
    else:
        raw = field
    try:
        raw.decode(encoding)
    except UnicodeDecodeError:
        raise Undecodable()
    if s.get("nullTerminated", False):
        raw = _cut_null(raw, _unit(encoding))
    return raw.decode(encoding)


def _dec(s, cur):
    t = node_type(s)
    if t == "object":
        return {name: _dec(sub, cur) for name, sub in ordered(s)}
    if t == "array":
        m = array_mode(s)
        if m == "fixed":
            return [_dec(s["items"], cur) for _ in range(s["length"])]
        if m == "exhaust":
            out = []
            while cur.left() > 0:
                out.append(_dec(s["items"], cur))
            return out
        size, _ = INT_FMT[s.get("arrayLengthFormat", "L")]
        k = int.from_bytes(cur.take(size), "little", signed=False)
        return [_dec(s["items"], cur) for _ in range(k)]
    if t == "null":
        cur.take(fmt_parts(s["binaryFormat"])[0] if "binaryFormat" in s else 0)
        return None
    if t == "string":
        n, ch = fmt_parts(s["binaryFormat"])
        return _dec_string(s, cur.take(1 if ch == "c" else n))
    f = s["binaryFormat"]
    if f == "?":
        return cur.take(1) != b"\x00"
    if f in INT_FMT:
        size, signed = INT_FMT[f]
        return int.from_bytes(cur.take(size), "little", signed=signed)
    return struct.unpack("<" + f, cur.take(FLOAT_FMT[f]))[0]


def dec(s, data):
    if is_nullable_top(s) and len(data) == 0:
        return None
    cur = _Cur(data)
    out = _dec(s, cur)
    if cur.left():
        raise ValueError("reference decoder: trailing bytes")
    return out


# ------------------------------------------------------------------ struct: what the docs promise
def expected(s, v):
    """obj with defaults filled in and the documented conversions applied (binary32 rounding,
    truth value for '?', fixed width strings padded/truncated, null termination)."""
    t = s["type"]
    if isinstance(t, list):
        if v is None:
            return None
        t = "object"
    if t == "object":
        return {name: expected(sub, v[name] if name in v else sub["default"])
                for name, sub in ordered(s)}
    if t == "array":
        return [expected(s["items"], e) for e in v]
    if t == "null":
        return None
    if t == "string":
        return _dec_string(s, string_field_bytes(s, v))
    f = s["binaryFormat"]
    if f == "?":
        return bool(v)
    if f in INT_FMT:
        return int(v)
    if f == "f":
        import numpy as np

        return float(np.float32(v))
    return float(v)


def filled(s, v):
    """obj with schema defaults filled in, values untouched (used to walk numpy views)."""
    t = s["type"]
    if isinstance(t, list):
        if v is None:
            return None
        t = "object"
    if t == "object":
        return {name: filled(sub, v[name] if name in v else sub["default"])
                for name, sub in ordered(s)}
    if t == "array":
        return [filled(s["items"], e) for e in v]
    return v


# ------------------------------------------------------------------ JSON reference
def canonical(o):
    """Keys sorted, no whitespace (docs of tskit.canonical_json: 'keys sorted and whitespace
    removed to enable byte-level comparison')."""
    if isinstance(o, dict):
        return "{" + ",".join(json.dumps(k) + ":" + canonical(o[k]) for k in sorted(o)) + "}"
    if isinstance(o, (list, tuple)):
        return "[" + ",".join(canonical(v) for v in o) + "]"
    return json.dumps(o)


def json_expected(schema, obj):
    """docs: top-level defaults are 'returned if the field is absent'; empty metadata is an
    empty object."""
    if not isinstance(obj, dict):
        return obj
    out = {k: p["default"] for k, p in schema.get("properties", {}).items() if "default" in p}
    out.update(obj)
    return out


def reorder_keys(o):
    """Same JSON value with every dict's insertion order reversed."""
    if isinstance(o, dict):
        return {k: reorder_keys(o[k]) for k in reversed(list(o))}
    if isinstance(o, list):
        return [reorder_keys(v) for v in o]
    return o
