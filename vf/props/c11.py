"""C11 — editing operations change only what they document and preserve everything else."""
import math

from hypothesis import strategies as st

from .. import gen, model
from ..core import SubCheck
from ..gen import F
from . import _c07_util as U

META = dict(
    level="exploration",
    rule="Valid tree sequences (vf/gen.py ts_spec, metadata on every row of every table incl. edges and "
    "migrations, mutation parents, known or unknown mutation times) x arguments drawn at the boundaries "
    "(interval ends on breakpoints / site positions / strictly inside edges; site-id lists with "
    "duplicates; cutoff times below, at and above node and mutation times; new-node flags / population / "
    "metadata). Each operation is compared with a row-level model of its documentation: the expected "
    "tables are computed from the input rows (clipped / shifted / filtered / remapped), untouched tables "
    "are compared byte for byte, and trees/genotypes are compared with the positional model "
    "vf/model.py (parent_at, allele_at).",
    assumptions=[
        "reference model vf/model.py and the row-level models in vf/props/c11.py (from the docstrings of "
        "TreeSequence/TableCollection keep_intervals, delete_intervals, ltrim, rtrim, trim, delete_sites, "
        "split_edges, decapitate, delete_older, extend_haplotypes)",
        "size bounds: <=8 nodes, <=4 elementary intervals, <=5 sites, <=4 mutations per site",
        "row ORDER of edges/migrations after keep_intervals/split_edges/decapitate/extend_haplotypes is "
        "not asserted (only that the result loads); everything else is compared exactly",
        "trim: migrations are generated inside the span of the edges (documented precondition)",
        "simplify=True is compared with TableCollection.simplify() of the simplify=False result "
        "(simplify itself is property C04) on inputs without migrations",
        "extend_haplotypes: inputs without migrations and with known mutation times (documented "
        "requirements); TableCollection.simplify() trusted for the 'simplified tree sequence identical' part",
    ],
    technique="property-based testing (Hypothesis) against row-level models of the documented edits and "
    "the positional tree/genotype model",
    engines=["hypothesis-runner"],
)

REST = ["nodes", "individuals", "populations"]


# ------------------------------------------------------------------ helpers
def load(spec, tskit):
    t = gen.build_tables(spec, tskit)
    t.provenances.add_row(record='{"a": 0}', timestamp="2020-01-01T00:00:00")
    return t.tree_sequence()


def multiset_eq(ctx, got, exp, names, what):
    g, e = U.norm_rows(got), U.norm_rows(exp)
    for name in names:
        a, b = sorted(g[name], key=repr), sorted(e[name], key=repr)
        if a != b:
            extra = [r for r in a if r not in b]
            missing = [r for r in b if r not in a]
            ctx.fail(what, f"{name}: {len(a)} rows expected {len(b)}; unexpected {extra[:3]} missing {missing[:3]}")


def check_prov(ctx, ts_in, ts_out, record, what):
    exp = ts_in.num_provenances + (1 if record else 0)
    ctx.check(ts_out.num_provenances == exp, what, f"{ts_out.num_provenances} provenance rows, expected {exp}")
    a, b = ts_in.tables.provenances, ts_out.tables.provenances
    for j in range(ts_in.num_provenances):
        ctx.check(a[j] == b[j], what, f"provenance row {j} changed")


def md_labels(ctx, spec):
    ctx.label("edge_metadata", any(e[4] for e in spec["edges"]))
    ctx.label("migrations", bool(spec["migrations"]))
    ctx.label("migration_metadata", any(r[6] for r in spec["migrations"]))
    ctx.label("known_mut_times", any(m[4] is not None for m in spec["mutations"]))
    ctx.label("mutation_parents", any(m[3] >= 0 for m in spec["mutations"]))


def model_delete_sites(spec, dele):
    out = dict(spec)
    smap, sites = {}, []
    for j, s in enumerate(spec["sites"]):
        if j not in dele:
            smap[j] = len(sites)
            sites.append(list(s))
    mmap, muts = {}, []
    for j, m in enumerate(spec["mutations"]):
        if m[0] in smap:
            mmap[j] = len(muts)
            muts.append(list(m))
    for m in muts:
        m[0] = smap[m[0]]
        m[3] = mmap.get(m[3], -1) if m[3] >= 0 else -1
    out["sites"], out["mutations"] = sites, muts
    return out


def in_any(x, ivs):
    return any(a <= x < b for a, b in ivs)


def model_keep(spec, ivs):
    edges, migs = [], []
    for a, b in ivs:
        for e in spec["edges"]:
            l, r = F(e[0]), F(e[1])
            if not (r <= a or l >= b):
                edges.append([max(l, a), min(r, b)] + list(e[2:]))
        for g in spec["migrations"]:
            l, r = F(g[0]), F(g[1])
            if not (r <= a or l >= b):
                migs.append([max(l, a), min(r, b)] + list(g[2:]))
    dele = {j for j, s in enumerate(spec["sites"]) if not in_any(F(s[0]), ivs)}
    out = model_delete_sites(spec, dele)
    out["edges"], out["migrations"] = edges, migs
    return out


def complement(ivs, L):
    out, last = [], 0.0
    for a, b in ivs:
        if a != last:
            out.append([last, a])
        last = b
    if last != L:
        out.append([last, L])
    return out


def coords(spec):
    """Interesting genome coordinates: breakpoints, site positions, and points strictly between."""
    L = F(spec["L"])
    pts = set(model.breakpoints(spec)) | {F(s[0]) for s in spec["sites"]}
    pts |= {math.nextafter(F(s[0]), math.inf) for s in spec["sites"] if math.nextafter(F(s[0]), math.inf) < L}
    base = sorted(pts)
    for a, b in zip(base[:-1], base[1:]):
        m = a + (b - a) / 2
        if a < m < b:
            pts.add(m)
    return sorted(pts)


# ================================================================== C11.intervals
@st.composite
def intervals_case(draw):
    simplify = draw(st.integers(0, 4)) == 4
    spec = draw(gen.ts_spec(min_nodes=2, max_nodes=8, max_intervals=4, max_sites=5, max_muts_per_site=4,
                            migrations=not simplify))
    if simplify:  # simplify() documents that it cannot process edges with metadata
        spec["edges"] = [e[:4] + [""] for e in spec["edges"]]
    else:
        U.add_migrations(draw, spec, p=2)
    pts = coords(spec)
    k = draw(st.integers(min(2, len(pts)), min(len(pts), 7))) if draw(st.integers(0, 9)) < 9 else 0
    idx = sorted(draw(st.lists(st.integers(0, len(pts) - 1), min_size=k, max_size=k, unique=True)))
    ps = [pts[i] for i in idx]
    use = [draw(st.integers(0, 3)) > 0 for _ in range(max(0, len(ps) - 1))]
    ivs = [[a, b] for (a, b), u in zip(zip(ps[:-1], ps[1:]), use) if u]
    if draw(st.integers(0, 2)) == 2:  # merge touching intervals
        merged = []
        for a, b in ivs:
            if merged and merged[-1][1] == a:
                merged[-1][1] = b
            else:
                merged.append([a, b])
        ivs = merged
    if draw(st.integers(0, 11)) == 11:
        ivs = [[0.0, F(spec["L"])]]
    bad = None
    if draw(st.integers(0, 11)) == 11:
        bad = draw(st.sampled_from(["overlap", "reversed", "left<0", "right>L", "unordered", "shape"]))
    return dict(spec=spec, ivs=ivs, op=draw(st.sampled_from(["keep", "delete"])), simplify=simplify,
                prov=draw(st.booleans()), bad=bad, via_tables=draw(st.booleans()))


def make_bad(ivs, bad, L):
    if bad == "overlap":
        return [[0.0, L * 0.75], [L * 0.5, L]]
    if bad == "reversed":
        return [[L * 0.5, L * 0.25]]
    if bad == "left<0":
        return [[-1.0, L]]
    if bad == "right>L":
        return [[0.0, L + 1]]
    if bad == "unordered":
        return [[L * 0.5, L], [0.0, L * 0.25]]
    return [[0.0, L * 0.5, L]]


def run_intervals(case, ctx):
    import tskit

    spec, op, simp, prov = case["spec"], case["op"], case["simplify"], case["prov"]
    L = F(spec["L"])
    ts = load(spec, tskit)
    ivs = [[F(a), F(b)] for a, b in case["ivs"]]
    md_labels(ctx, spec)
    ctx.label("op_" + op)
    ctx.label("simplify", simp)
    ctx.label("bad_intervals", case["bad"] is not None)

    def call(tsx, which, iv, **kw):
        if case["via_tables"]:
            t = tsx.dump_tables()
            getattr(t, which)(iv, **kw)
            return t.tree_sequence()
        return getattr(tsx, which)(iv, **kw)

    which = "keep_intervals" if op == "keep" else "delete_intervals"
    if case["bad"] is not None:
        try:
            call(ts, which, make_bad(ivs, case["bad"], L), simplify=False)
        except ValueError:
            return
        ctx.fail(which + ".bad_intervals", f"{case['bad']} accepted")
    kept = ivs if op == "keep" else complement(ivs, L)
    exp = model_keep(spec, kept)
    ends = {x for iv in kept for x in iv}
    cut = any(F(e[0]) < x < F(e[1]) for e in spec["edges"] for x in ends)
    site_on_end = any(F(s[0]) in ends for s in spec["sites"])
    md_cut = any(e[4] and F(e[0]) < x < F(e[1]) for e in spec["edges"] for x in ends) or any(
        g[6] and F(g[0]) < x < F(g[1]) for g in spec["migrations"] for x in ends)
    ctx.label("interval_end_inside_edge", cut)
    ctx.label("site_on_interval_end", site_on_end)
    ctx.label("metadata_row_clipped", md_cut)
    ctx.label("empty_list", not ivs)
    ctx.label("touching_intervals", any(a[1] == b[0] for a, b in zip(kept[:-1], kept[1:])))
    ctx.label("edge_in_two_intervals", any(
        sum(1 for a, b in kept if not (F(e[1]) <= a or F(e[0]) >= b)) > 1 for e in spec["edges"]))
    ctx.nt(cut or site_on_end or md_cut)

    out = call(ts, which, ivs, simplify=False, record_provenance=prov)
    W = which
    t_in, t_out = ts.dump_tables(), out.dump_tables()
    s0, s1 = U.snap(t_in), U.snap(t_out)
    U.same(ctx, s0, s1, REST + ["top"], W + ".untouched")
    check_prov(ctx, ts, out, prov, W + ".provenance")
    got = gen.spec_from_tables(t_out, tskit)
    multiset_eq(ctx, got, exp, ["edges", "migrations"], W + ".clipped_rows")
    U.eq_rows(ctx, got, exp, ["sites", "mutations"], W + ".sites_mutations")
    # trees: unchanged inside, empty outside
    xs = sorted(set(U.probe_positions(spec)[1]) | {x for x in ends if x < L} | {
        math.nextafter(x, -math.inf) for x in ends if x > 0})
    n = len(spec["nodes"])
    for x in xs:
        e = model.parent_at(spec, x) if in_any(x, kept) else [-1] * n
        g = model.parent_at(got, x)
        ctx.check(g == e, W + ".trees", lambda: f"x={x} (kept={in_any(x, kept)}): parents {g} expected {e}")
        tg = list(map(int, out.at(x).parent_array[:n]))
        ctx.check(tg == e, W + ".trees(ts)", lambda: f"x={x}: parents {tg} expected {e}")
    U.ts_matches(ctx, model, out, exp, W + ".ts")
    # delete == keep of the complement
    other = call(ts, "delete_intervals" if op == "keep" else "keep_intervals", complement(ivs, L),
                 simplify=False, record_provenance=False)
    s2 = U.snap(other.dump_tables())
    touching = any(a[1] == b[0] for a, b in zip(ivs[:-1], ivs[1:]))  # rows are cut where intervals touch
    U.same(ctx, s2, s1, ["nodes", "sites", "mutations", "individuals", "populations", "top"]
           + ([] if touching else ["edges", "migrations"]), W + ".complement")
    if simp:
        a = call(ts, which, ivs, simplify=True, record_provenance=False).dump_tables()
        b = call(ts, which, ivs, simplify=False, record_provenance=False).dump_tables()
        b.simplify(record_provenance=False)
        U.same(ctx, U.snap(b), U.snap(a), U.TABLES + ("top",), W + ".simplify=True")
        d = call(ts, which, ivs).dump_tables()  # default is simplify=True
        U.same(ctx, U.snap(a), U.snap(d), [x for x in U.TABLES if x != "provenances"] + ["top"],
               W + ".default_simplify")


# ================================================================== C11.trim
def clip_spec(spec, a, b):
    """Remove all ancestry outside [a, b): empty flanks.  Sites stay (trim must drop them);
    migrations are kept inside the span of the remaining edges; mutation parents recomputed."""
    out = dict(spec)
    out["edges"] = [[max(F(e[0]), a), min(F(e[1]), b)] + list(e[2:]) for e in spec["edges"]
                    if not (F(e[1]) <= a or F(e[0]) >= b)]
    if out["edges"]:
        lo = min(e[0] for e in out["edges"])
        hi = max(e[1] for e in out["edges"])
        out["migrations"] = [[max(F(g[0]), lo), min(F(g[1]), hi)] + list(g[2:]) for g in spec["migrations"]
                             if not (F(g[1]) <= lo or F(g[0]) >= hi)]
    else:
        out["migrations"] = []
    out["mutations"] = [list(m) for m in spec["mutations"]]
    for m, p in zip(out["mutations"], model.mutation_parents(out)):
        m[3] = p
    # known mutation times must stay below the (possibly vanished) parent node: unchanged, still valid
    return out


@st.composite
def trim_case(draw):
    spec = draw(gen.ts_spec(min_nodes=2, max_nodes=8, max_intervals=4, max_sites=5, max_muts_per_site=3))
    U.add_migrations(draw, spec, p=2)
    pts = coords(spec)
    i = draw(st.integers(0, len(pts) - 2))
    j = draw(st.integers(i + 1, len(pts) - 1))
    if draw(st.integers(0, 3)) == 3:
        i = 0
    if draw(st.integers(0, 3)) == 3:
        j = len(pts) - 1
    return dict(spec=spec, a=pts[i], b=pts[j], op=draw(st.sampled_from(["ltrim", "rtrim", "trim"])),
                prov=draw(st.booleans()), via_tables=draw(st.booleans()))


def run_trim(case, ctx):
    import tskit

    spec = clip_spec(case["spec"], F(case["a"]), F(case["b"]))
    op, prov = case["op"], case["prov"]
    L = F(spec["L"])
    ts = load(spec, tskit)
    md_labels(ctx, spec)
    ctx.label("op_" + op)

    def call():
        if case["via_tables"]:
            t = ts.dump_tables()
            getattr(t, op)(record_provenance=prov)
            return t.tree_sequence()
        return getattr(ts, op)(record_provenance=prov)

    if not spec["edges"]:
        ctx.label("no_edges")
        try:
            call()
        except ValueError:
            return
        ctx.fail(op + ".no_edges", "trimming a tree sequence without edges was accepted")
    lo = min(F(e[0]) for e in spec["edges"])
    hi = max(F(e[1]) for e in spec["edges"])
    shift = lo if op in ("ltrim", "trim") else 0.0
    end = hi if op in ("rtrim", "trim") else L
    dele = {j for j, s in enumerate(spec["sites"]) if not (shift <= F(s[0]) < end)}
    ctx.label("left_flank", lo > 0)
    ctx.label("right_flank", hi < L)
    ctx.label("site_dropped", bool(dele))
    ctx.label("site_at_leftmost", any(F(s[0]) == lo for s in spec["sites"]))
    ctx.label("site_at_rightmost", any(F(s[0]) == hi for s in spec["sites"]))
    ctx.label("shift_with_edge_metadata", shift > 0 and any(e[4] for e in spec["edges"]))
    ctx.label("shift_with_migration_metadata", shift > 0 and any(g[6] for g in spec["migrations"]))
    ctx.nt((shift > 0 or end < L) and (bool(dele) or any(e[4] for e in spec["edges"])
                                      or any(g[6] for g in spec["migrations"])))
    exp = model_delete_sites(spec, dele)
    exp["edges"] = [[F(e[0]) - shift, F(e[1]) - shift] + list(e[2:]) for e in spec["edges"]]
    exp["migrations"] = [[F(g[0]) - shift, F(g[1]) - shift] + list(g[2:]) for g in spec["migrations"]]
    exp["sites"] = [[F(s[0]) - shift] + list(s[1:]) for s in exp["sites"]]
    exp["L"] = end - shift
    # Subtracting the shift is a floating-point operation: two distinct coordinates may land on the same double
    # (an ulp-wide edge collapses, two sites coincide).  The shifted rows are then not a valid table collection
    # and the only sound outcome is a LibraryError; the property does not promise that such a trim succeeds.
    pos = [r[0] for r in exp["sites"]]
    collision = (shift > 0 and (any(not (r[0] < r[1]) for r in exp["edges"] + exp["migrations"])
                                or len(set(pos)) < len(pos) or any(not (0 <= x < exp["L"]) for x in pos)
                                or any(r[1] > exp["L"] for r in exp["edges"] + exp["migrations"])))
    ctx.label("shift_collision", collision)
    if collision:
        try:
            call()
        except tskit.LibraryError:
            return
        ctx.fail(op + ".shift_collision", "shifted coordinates collide, yet the trim returned a tree sequence")
    out = call()
    t_out = out.dump_tables()
    got = gen.spec_from_tables(t_out, tskit)
    ctx.check(out.sequence_length == end - shift, op + ".sequence_length",
              f"{out.sequence_length} expected {end - shift}")
    U.eq_rows(ctx, got, exp, ["edges", "migrations", "sites", "mutations"], op + ".rows")
    s0, s1 = U.snap(ts.dump_tables()), U.snap(t_out)
    U.same(ctx, s0, s1, REST, op + ".untouched")
    ctx.check(s0["top"][1:] == s1["top"][1:], op + ".untouched", "time_units / metadata / schema changed")
    check_prov(ctx, ts, out, prov, op + ".provenance")
    # the forest at x - shift equals the original forest at x
    for x in U.probe_positions(spec)[1]:
        if shift <= x < end:
            g, e = model.parent_at(got, x - shift), model.parent_at(spec, x)
            ctx.check(g == e, op + ".trees", lambda: f"x={x}: {g} expected {e}")
    U.ts_matches(ctx, model, out, exp, op + ".ts")
    if op == "trim":
        other = ts.rtrim(record_provenance=False).ltrim(record_provenance=False)
        U.same(ctx, U.snap(other.dump_tables()), s1, [x for x in U.TABLES if x != "provenances"] + ["top"],
               "trim == rtrim then ltrim")


# ================================================================== C11.delete_sites
@st.composite
def delsites_case(draw):
    spec = draw(gen.ts_spec(min_nodes=2, max_nodes=7, max_intervals=3, max_sites=5, max_muts_per_site=5)
                .filter(lambda sp: len(sp["sites"]) >= 2))
    ns = len(spec["sites"])
    mode = draw(st.sampled_from(["some", "some", "some", "some", "some", "all", "none", "oob"]))
    if mode == "all":
        ids = list(range(ns))
    elif mode == "none":
        ids = []
    else:
        ids = [j for j in range(ns) if draw(st.booleans())]
        ids += [j for j in ids if draw(st.integers(0, 3)) == 3]  # duplicates
        if len(ids) > 1 and draw(st.booleans()):
            ids = list(draw(st.permutations(ids)))
    if mode == "oob":
        ids = ids + [draw(st.sampled_from([-1, ns, ns + 3]))]
    return dict(spec=spec, ids=ids, prov=draw(st.booleans()),
                as_array=draw(st.sampled_from(["list", "np32", "np64", "tuple"])))


def run_delsites(case, ctx):
    import numpy as np
    import tskit

    spec, ids = case["spec"], case["ids"]
    ns = len(spec["sites"])
    ts = load(spec, tskit)
    arg = dict(list=list(ids), tuple=tuple(ids), np32=np.array(ids, dtype=np.int32),
               np64=np.array(ids, dtype=np.int64))[case["as_array"]]
    md_labels(ctx, spec)
    oob = any(i < 0 or i >= ns for i in ids)
    ctx.label("out_of_bounds", oob)
    if oob:
        try:
            ts.delete_sites(arg)
        except ValueError:
            return
        ctx.fail("delete_sites.out_of_bounds", f"ids {ids} accepted with {ns} sites")
    dele = set(ids)
    muts_gone = {j for j, m in enumerate(spec["mutations"]) if m[0] in dele}
    ctx.label("duplicate_ids", len(dele) < len(ids))
    ctx.label("unsorted_ids", list(ids) != sorted(ids))
    ctx.label("empty", not ids)
    ctx.label("all", len(dele) == ns and ns > 0)
    remap = any(m[3] >= 0 and m[0] not in dele and any(k in muts_gone for k in range(m[3]))
                for m in spec["mutations"])
    ctx.label("parent_ids_shift", remap)
    ctx.nt(bool(dele) and len(dele) < ns)
    out = ts.delete_sites(arg, record_provenance=case["prov"])
    t_out = out.dump_tables()
    got = gen.spec_from_tables(t_out, tskit)
    exp = model_delete_sites(spec, dele)
    U.eq_rows(ctx, got, exp, ["sites", "mutations", "edges", "migrations"], "delete_sites.rows")
    s0, s1 = U.snap(ts.dump_tables()), U.snap(t_out)
    U.same(ctx, s0, s1, REST + ["edges", "migrations", "top"], "delete_sites.untouched")
    check_prov(ctx, ts, out, case["prov"], "delete_sites.provenance")
    exp_t = gen.build_tables(exp, tskit)
    U.same(ctx, U.snap(exp_t), s1, ["sites", "mutations"], "delete_sites.bytes")
    U.ts_matches(ctx, model, out, exp, "delete_sites.ts")
    if dele:
        again = ts.delete_sites(sorted(dele), record_provenance=False)
        U.same(ctx, U.snap(again.dump_tables()), s1, [x for x in U.TABLES if x != "provenances"],
               "delete_sites.duplicates_and_order_irrelevant")


# ================================================================== C11.time_edits
def cut_times(spec):
    ts_ = sorted({model.time(spec, u) for u in range(len(spec["nodes"]))} | {
        F(m[4]) for m in spec["mutations"] if m[4] is not None} | {F(g[5]) for g in spec["migrations"]})
    out = set(ts_)
    for a, b in zip(ts_[:-1], ts_[1:]):
        m = a + (b - a) / 2
        if a < m < b:
            out.add(m)
    if ts_:
        out |= {ts_[0] - 1, ts_[-1] + 1, math.nextafter(ts_[0], math.inf)}
    return sorted(out)


@st.composite
def time_case(draw):
    op = draw(st.sampled_from(["split_edges", "decapitate", "delete_older"]))
    with_migs = (op == "delete_older") or draw(st.integers(0, 14)) == 14
    spec = draw(gen.ts_spec(min_nodes=2, max_nodes=8, max_intervals=4, max_sites=4, max_muts_per_site=4,
                            migrations=with_migs, mut_times=draw(st.sampled_from(["known", "known", None]))))
    if op == "delete_older":
        U.add_migrations(draw, spec, p=2)
    mt = sorted({F(m[4]) for m in spec["mutations"] if m[4] is not None})
    if mt and draw(st.booleans()):
        t = draw(st.sampled_from(mt))
    else:
        t = draw(st.sampled_from(cut_times(spec)))
    npop = len(spec["populations"])
    kw = {}
    if draw(st.booleans()):
        kw["flags"] = draw(st.sampled_from([0, 1, 2, 1 << 20, (1 << 32) - 1]))
    if draw(st.booleans()):
        kw["population"] = draw(st.sampled_from([-1] + list(range(npop))))
        if draw(st.integers(0, 9)) == 9:
            kw["population"] = draw(st.sampled_from([npop, -2, npop + 5]))
    if draw(st.booleans()):
        kw["metadata"] = draw(st.sampled_from(["", "new", "\x00\xff", "x" * 17]))
    if draw(st.integers(0, 24)) == 24:
        t = draw(st.sampled_from(["nan", "inf", "-inf"]))
    return dict(spec=spec, op=op, t=t, kw=kw)


def model_split(spec, t, flags, pop, md):
    out = dict(spec)
    nodes = [list(nd) for nd in spec["nodes"]]
    edges, split = [], {}
    for j, e in enumerate(spec["edges"]):
        if model.time(spec, e[3]) < t < model.time(spec, e[2]):
            u = len(nodes)
            nodes.append([flags, t, pop, -1, md])
            edges.append([e[0], e[1], u, e[3], e[4]])
            edges.append([e[0], e[1], e[2], u, e[4]])
            split[j] = u
        else:
            edges.append(list(e))
    muts = []
    for m in spec["mutations"]:
        m = list(m)
        ed = model.edge_at(spec, F(spec["sites"][m[0]][0]))[m[1]]
        eff = model.time(spec, m[1]) if m[4] is None else F(m[4])
        if ed in split and eff >= t:
            m[1] = split[ed]
        muts.append(m)
    out["nodes"], out["edges"], out["mutations"] = nodes, edges, muts
    return out, split


def model_delete_older(spec, t):
    out = dict(spec)
    out["edges"] = [list(e) for e in spec["edges"] if model.time(spec, e[2]) <= t]
    mmap, muts = {}, []
    for j, m in enumerate(spec["mutations"]):
        eff = model.time(spec, m[1]) if m[4] is None else F(m[4])
        if eff < t:
            mmap[j] = len(muts)
            muts.append(list(m))
    for m in muts:
        m[3] = mmap.get(m[3], -1) if m[3] >= 0 else -1
    out["mutations"] = muts
    out["migrations"] = [list(g) for g in spec["migrations"] if F(g[5]) < t]
    return out


def node_rows(spec):
    return [[nd[0], F(nd[1]), nd[2], nd[3], nd[4]] for nd in spec["nodes"]]


def run_time(case, ctx):
    import _tskit
    import tskit

    spec, op, kw = case["spec"], case["op"], dict(case["kw"])
    t = F(case["t"])
    n = len(spec["nodes"])
    npop = len(spec["populations"])
    ts = load(spec, tskit)
    md_labels(ctx, spec)
    ctx.label("op_" + op)
    flags, pop, md = kw.get("flags", 0), kw.get("population", -1), kw.get("metadata", "")
    if "metadata" in kw:
        kw["metadata"] = gen.B(kw["metadata"])
    node_t = {model.time(spec, u) for u in range(n)}
    mut_t = {F(m[4]) for m in spec["mutations"] if m[4] is not None}
    ctx.label("cutoff_at_node_time", t in node_t)
    ctx.label("cutoff_at_mutation_time", t in mut_t)
    ctx.label("cutoff_below_all", bool(node_t) and t < min(node_t))
    ctx.label("cutoff_above_all", bool(node_t) and t > max(node_t | mut_t))
    s_in = U.snap(ts.dump_tables())

    if op == "delete_older":
        if math.isnan(t):
            return  # comparisons with NaN: behaviour not documented
        tb = ts.dump_tables()
        tb.delete_older(t)
        exp = model_delete_older(spec, t)
        got = gen.spec_from_tables(tb, tskit)
        U.eq_rows(ctx, got, exp, ["edges", "mutations", "migrations", "sites"], "delete_older.rows")
        U.same(ctx, s_in, U.snap(tb), REST + ["sites", "provenances", "top"], "delete_older.untouched")
        gone = len(exp["edges"]) < len(spec["edges"]) or len(exp["mutations"]) < len(spec["mutations"])
        ctx.label("something_deleted", gone)
        kept_orig = [m for m in spec["mutations"] if (model.time(spec, m[1]) if m[4] is None else F(m[4])) < t]
        ctx.label("parent_lost", any(o[3] >= 0 and e[3] < 0 for e, o in zip(exp["mutations"], kept_orig)))
        ctx.nt(gone and (t in node_t or t in mut_t or any(e[4] for e in exp["edges"])))
        tb.build_index()
        out = tb.tree_sequence()
        U.ts_matches(ctx, model, out, exp, "delete_older.ts")
        return

    bad = (not math.isfinite(t)) or pop < -1 or pop >= npop or bool(spec["migrations"])
    ctx.label("bad_argument", bad)
    if bad:
        try:
            getattr(ts, op)(t, **kw)
        except (_tskit.LibraryError, ValueError):
            return
        ctx.fail(op + ".bad_argument", f"time={t} population={pop} (of {npop}) migrations="
                 f"{len(spec['migrations'])} accepted")
    sp, split = model_split(spec, t, flags, pop, md)
    moved = sum(1 for a, b in zip(sp["mutations"], spec["mutations"]) if a[1] != b[1])
    ctx.label("edges_split", bool(split))
    ctx.label("split_edge_with_metadata", any(spec["edges"][j][4] for j in split))
    ctx.label("mutation_moved", moved > 0)
    ctx.label("mutation_on_split_edge_not_moved", any(
        model.edge_at(spec, F(spec["sites"][m[0]][0]))[m[1]] in split and a[1] == m[1]
        for a, m in zip(sp["mutations"], spec["mutations"])))
    ctx.label("new_node_args", bool(case["kw"]))
    out = getattr(ts, op)(t, **kw)
    t_out = out.dump_tables()
    got = gen.spec_from_tables(t_out, tskit)
    s1 = U.snap(t_out)
    if op == "split_edges":
        exp = sp
        ctx.nt(bool(split) and (t in node_t or t in mut_t or any(spec["edges"][j][4] for j in split)))
    else:
        exp = model_delete_older(sp, t)
        gone = len(exp["edges"]) < len(sp["edges"]) or len(exp["mutations"]) < len(sp["mutations"])
        ctx.label("something_deleted", gone)
        ctx.nt((bool(split) or gone) and (t in node_t or t in mut_t or any(e[4] for e in exp["edges"])))
    ctx.eq(node_rows(got), node_rows(exp), op + ".nodes")
    ctx.check(s_in["nodes"].get("metadata_schema") == s1["nodes"].get("metadata_schema"), op + ".nodes", "schema")
    multiset_eq(ctx, got, exp, ["edges"], op + ".edges")
    U.eq_rows(ctx, got, exp, ["sites", "mutations", "migrations"], op + ".sites_mutations")
    U.same(ctx, s_in, s1, ["individuals", "populations", "sites", "provenances", "top"], op + ".untouched")
    U.ts_matches(ctx, model, out, exp, op + ".ts")
    # contraction of the new nodes gives back the original ancestry (below the cutoff for decapitate)
    for x in U.probe_positions(spec)[1]:
        po, pg = model.parent_at(spec, x), model.parent_at(got, x)
        for u in range(n):
            p = pg[u]
            via = None
            if p >= n:
                via = p
                p = pg[p]
            if op == "split_edges":
                ctx.check(p == po[u], op + ".ancestry", lambda: f"x={x} node {u}: parent {p} (via {via}) expected {po[u]}")
                if via is not None:
                    ctx.check(model.time(spec, u) < t < model.time(spec, po[u]), op + ".ancestry",
                              f"x={x} node {u}: edge split although cutoff not strictly inside")
                elif po[u] >= 0:
                    ctx.check(not (model.time(spec, u) < t < model.time(spec, po[u])), op + ".ancestry",
                              f"x={x} node {u}: edge not split")
            else:
                if po[u] >= 0 and model.time(spec, po[u]) <= t:
                    ctx.check(pg[u] == po[u], op + ".ancestry", f"x={x} node {u}: parent {pg[u]} expected {po[u]}")
                elif po[u] >= 0 and model.time(spec, u) < t:
                    ctx.check(via is not None and p == -1 and model.time(got, via) == t, op + ".ancestry",
                              f"x={x} node {u}: expected a new root at time {t} above, got parent {pg[u]}")
                else:
                    ctx.check(pg[u] == -1, op + ".ancestry", f"x={x} node {u}: parent {pg[u]} expected none")
    if op == "decapitate":
        tb = ts.split_edges(t, **kw).dump_tables()
        tb.delete_older(t)
        tb.build_index()
        U.same(ctx, U.snap(tb), s1, [x for x in U.TABLES] + ["top"], "decapitate == split_edges + delete_older")


# ================================================================== C11.extend_haplotypes
def insert_unary(spec, j, frac, tfrac=0.5):
    """Edge j = (l, r, p, c): on the left part [l, m) route it through a new non-sample node n with
    time strictly between c and p (p -> n -> c); [m, r) keeps p -> c.  This is the pattern
    extend_haplotypes documents ('n is inserted into the path from p to c' on the adjacent segment)."""
    l, r, p, c, md = spec["edges"][j]
    l, r = F(l), F(r)
    tc, tp = model.time(spec, c), model.time(spec, p)
    tn = tc + (tp - tc) * tfrac
    m = l + (r - l) * frac
    if not (tc < tn < tp) or not (l < m <= r):
        return
    n = len(spec["nodes"])
    spec["nodes"].append([0, tn, -1, -1, "ins"])
    rest = [e for k, e in enumerate(spec["edges"]) if k != j]
    rest += [[l, m, p, n, md], [l, m, n, c, ""]]
    if m < r:
        rest.append([m, r, p, c, md])
    rest.sort(key=lambda e: U.edge_key(spec, e))
    spec["edges"] = rest
    for mu in spec["mutations"]:
        x = F(spec["sites"][mu[0]][0])
        if mu[1] == c and l <= x < m and mu[4] is not None and F(mu[4]) >= tn:
            mu[1] = n


@st.composite
def extend_case(draw):
    spec = draw(gen.ts_spec(min_nodes=3, max_nodes=8, max_intervals=4, max_sites=5, max_muts_per_site=4,
                            migrations=draw(st.integers(0, 19)) == 19,
                            mut_times=draw(st.sampled_from(["known"] * 7 + ["unknown"])),
                            time_styles=("small_int", "frac", "neg", "two")))
    for _ in range(draw(st.sampled_from([0, 1, 1, 2]))):
        if not spec["edges"]:
            break
        cand = [j for j, e in enumerate(spec["edges"]) if any(
            m[1] == e[3] and F(e[0]) <= F(spec["sites"][m[0]][0]) < F(e[1]) for m in spec["mutations"])]
        if not cand or draw(st.booleans()):
            cand = list(range(len(spec["edges"])))
        insert_unary(spec, draw(st.sampled_from(cand)), draw(st.sampled_from([0.25, 0.5, 0.5, 1.0])),
                     draw(st.sampled_from([0.5, 0.25, 0.125])))
    # open known finding extend_haplotypes.mutation_on_node_outside_tree: the class is excluded by
    # construction (mutations only on nodes that are in the tree at their site, or on samples);
    # PROBES re-executes its minimal reproducer.
    return dict(spec=spec, max_iter=draw(st.sampled_from([1, 1, 2, 3, 10, 10, 10, 10, 0, -1])),
                default=draw(st.booleans()), excluded_stray=drop_stray(spec))


def stray_mutation(spec):
    """A mutation sits on a non-sample node that is not part of the tree at the mutation's site
    (no parent, no children there)."""
    for m in spec["mutations"]:
        if model.is_sample(spec, m[1]):
            continue
        par = model.parent_at(spec, F(spec["sites"][m[0]][0]))
        if par[m[1]] < 0 and m[1] not in par:
            return True
    return False


def drop_stray(spec):
    """Remove the mutations of the class stray_mutation(); returns how many were removed."""
    gone = set()
    for j, m in enumerate(spec["mutations"]):
        if model.is_sample(spec, m[1]):
            continue
        par = model.parent_at(spec, F(spec["sites"][m[0]][0]))
        if par[m[1]] < 0 and m[1] not in par:
            gone.add(j)
    if gone:
        mmap, rows = {}, []
        for j, m in enumerate(spec["mutations"]):
            if j not in gone:
                mmap[j] = len(rows)
                rows.append(list(m))
        for m in rows:
            m[3] = mmap.get(m[3], -1) if m[3] >= 0 else -1
        spec["mutations"] = rows
    return len(gone)


def classify_extend(case, exc):
    what = getattr(exc, "what", "")
    if stray_mutation(case["spec"]) and (what.startswith("extend_haplotypes.genotypes")
                                         or what.startswith("extend_haplotypes.simplify.")
                                         or what.startswith("extend_haplotypes.ts")):
        return "extend_haplotypes.mutation_on_node_outside_tree"
    return None


def is_subsequence(a, b):
    it = iter(b)
    return all(x in it for x in a)


def run_extend(case, ctx):
    import _tskit
    import tskit

    spec, mi = case["spec"], case["max_iter"]
    n = len(spec["nodes"])
    ts = load(spec, tskit)
    md_labels(ctx, spec)
    unknown = any(m[4] is None for m in spec["mutations"])
    bad = mi <= 0 or bool(spec["migrations"]) or unknown
    ctx.label("bad_argument", bad)
    ctx.label("mutation_on_node_outside_tree", not bad and stray_mutation(spec))  # only via PROBES
    ctx.label("excluded_stray_mutations", case.get("excluded_stray", 0) > 0)
    if bad:
        try:
            ts.extend_haplotypes(max_iter=mi)
        except _tskit.LibraryError:
            return
        ctx.fail("extend_haplotypes.bad_argument", f"max_iter={mi} migrations={len(spec['migrations'])} "
                 f"unknown_times={unknown} accepted")
    out = ts.extend_haplotypes() if (case["default"] and mi == 10) else ts.extend_haplotypes(max_iter=mi)
    W = "extend_haplotypes"
    t_in, t_out = ts.dump_tables(), out.dump_tables()
    s0, s1 = U.snap(t_in), U.snap(t_out)
    U.same(ctx, s0, s1, ["nodes", "sites", "individuals", "populations", "migrations", "provenances", "top"],
           W + ".untouched")
    for col in s0["mutations"]:
        if col != "node":
            ctx.check(s0["mutations"][col] == s1["mutations"][col], W + ".mutations", f"column {col} changed")
    got = gen.spec_from_tables(t_out, tskit)
    changed = U.norm_rows(got)["edges"] != U.norm_rows(spec)["edges"]
    moved = [m[1] for m in got["mutations"]] != [m[1] for m in spec["mutations"]]
    ctx.label("edges_changed", changed)
    ctx.label("mutation_node_changed", moved)
    ctx.label("fewer_edges", len(got["edges"]) < len(spec["edges"]))
    ctx.nt(changed)
    smp = model.samples(spec)
    go, ge = U.model_genotypes(model, got), U.model_genotypes(model, spec)
    for sid in range(len(spec["sites"])):
        for u in smp:
            ctx.check(go[sid][u] == ge[sid][u], W + ".genotypes",
                      lambda: f"sample {u} site {sid}: {go[sid][u]!r} expected {ge[sid][u]!r}")
    # nodes are only ever inserted into existing ancestral paths
    bps = sorted(set(model.breakpoints(spec)) | set(model.breakpoints(got)))
    for a, b in zip(bps[:-1], bps[1:]):
        x = a + (b - a) / 2
        po, pg = model.parent_at(spec, x), model.parent_at(got, x)
        for u in range(n):
            pa, pb = model.path_to_root(po, u), model.path_to_root(pg, u)
            ctx.check(is_subsequence(pa, pb), W + ".paths",
                      lambda: f"x={x} node {u}: ancestors {pa} are not a subsequence of {pb}")
            # NOT asserted: "edges whose child node is a sample are not modified" (docstring); the
            # implementation only never *inserts* sample nodes, see the report / replay note.
            ctx.label("edge_above_sample_modified", model.is_sample(spec, u) and po[u] >= 0 and pg[u] != po[u])
    # mutations: still on the branch leading to the same original node, node time <= mutation time
    for mo, mg in zip(spec["mutations"], got["mutations"]):
        if mo[1] != mg[1]:
            x = F(spec["sites"][mo[0]][0])
            pg = model.parent_at(got, x)
            ctx.check(mg[1] in model.path_to_root(pg, mo[1]), W + ".mutations",
                      f"mutation moved from {mo[1]} to {mg[1]} which is not above it at {x}")
    # simplify(extended) == simplify(original), modulo edge order and modulo the numbering that
    # simplify gives to interchangeable ancestors (it follows the edge order): compare in input ids
    a, b = t_in.copy(), t_out.copy()
    a.edges.drop_metadata()  # simplify() cannot process edges with metadata
    b.edges.drop_metadata()
    back = []
    for tb in (a, b):
        nm = list(map(int, tb.simplify(record_provenance=False)))
        inv_ = {o: i for i, o in enumerate(nm) if o >= 0}
        sp = gen.spec_from_tables(tb, tskit)
        ctx.check(len(inv_) == len(sp["nodes"]), W + ".simplify", "node map is not a bijection onto the output")
        sp["edges"] = [[e[0], e[1], inv_[e[2]], inv_[e[3]], e[4]] for e in sp["edges"]]
        sp["mutations"] = [[m[0], inv_[m[1]]] + m[2:] for m in sp["mutations"]]
        back.append((sp, {inv_[o]: nd for o, nd in enumerate(sp["nodes"])}))
    (sa, na), (sb, nb) = back
    multiset_eq(ctx, sb, sa, ["edges"], W + ".simplify.edges")
    U.eq_rows(ctx, sb, sa, ["sites", "mutations"], W + ".simplify.sites_mutations")
    ctx.check(na == nb, W + ".simplify.nodes", lambda: f"retained nodes {sorted(nb)} expected {sorted(na)}")
    U.same(ctx, U.snap(a), U.snap(b), ["sites", "individuals", "populations", "provenances", "top"],
           W + ".simplify")
    # idempotent at convergence is not documented; only that the result is a valid tree sequence
    U.ts_genotypes(ctx, model, out, spec, W + ".ts")


# ------------------------------------------------------------------ extend_haplotypes on ladder shapes
def ladder_spec(K, blocked, mirror):
    """Samples 0,1,2; n (t=1) unary on p->n->0 in the first tree only and extendable across the K following trees
    (sample 1 alternates between p and q so that consecutive trees differ); optionally blocked in the last tree.
    One site per tree with two known-time mutations above sample 0."""
    W = 5.0
    T = K + 2
    L = T * W
    n, p_, q = 3, 4, 5
    nodes = [[1, 0.0, -1, -1, ""] for _ in range(3)] + [[0, 1.0, -1, -1, ""], [0, 2.0, -1, -1, ""], [0, 3.0, -1, -1, ""]]
    edges = []

    def E(left, right, parent, child):
        if mirror:
            left, right = L - right, L - left
        edges.append([left, right, parent, child, "e%d" % len(edges)])

    E(0, W, n, 0)
    E(0, W, p_, n)
    E(W, L, p_, 0)
    start, cur = 0.0, p_
    for j in range(1, T):
        nxt = p_ if (j % 2 == 1) else q
        if nxt != cur:
            E(start, j * W, cur, 1)
            start, cur = j * W, nxt
    E(start, L, cur, 1)
    if blocked:
        E(0, L - W, q, 2)
        E(L - W, L, n, 2)
        E(L - W, L, q, n)
    else:
        E(0, L, q, 2)
    E(0, L, q, p_)
    times = [nd[1] for nd in nodes]
    edges.sort(key=lambda e: (times[e[2]], e[2], e[3], e[0]))
    xs = sorted((L - (j * W + 2)) if mirror else (j * W + 2) for j in range(T))
    sites = [[x, "A", "s%d" % j] for j, x in enumerate(xs)]
    spec = dict(L=L, nodes=nodes, edges=edges, sites=sites, mutations=[], individuals=[], populations=[], migrations=[])
    muts = []
    for j in range(T):
        par = model.parent_at(spec, sites[j][0])
        # the older mutation sits on the branch below p: on n where n is in the tree, else on sample 0
        top = n if par[0] == n else 0
        muts.append([j, top, "T", -1, 1.5, "m%d" % j])
        muts.append([j, 0, "G", len(muts) - 1, 0.5, ""])
    spec["mutations"] = muts
    return spec


def enum_ladder(tier, seed):
    for K in ([1, 2, 3, 4] if tier == "quick" else [1, 2, 3, 4, 5, 8, 13]):
        for blocked in (False, True):
            for mirror in (False, True):
                for mi in (10, 1, 2):
                    yield dict(K=K, blocked=blocked, mirror=mirror, max_iter=mi)


def run_ladder(case, ctx):
    spec = ladder_spec(case["K"], case["blocked"], case["mirror"])
    run_extend(dict(spec=spec, max_iter=case["max_iter"], default=False), ctx)
    ctx.nt(True)


# ------------------------------------------------------------------ hundreds of intervals
def enum_many_intervals(tier, seed):
    for N in ([257, 600] if tier == "quick" else [255, 256, 257, 300, 513, 600, 1100]):
        for op in ("keep", "delete"):
            for simplify in (False, True):
                yield dict(N=N, op=op, simplify=simplify)


def run_many_intervals(case, ctx):
    """keep_intervals / delete_intervals with N disjoint intervals on a sequence of N trees, two sites per tree (one
    inside and one outside the interval of that tree)."""
    from .c01 import many_trees_spec

    N = case["N"]
    spec = many_trees_spec(N, 0)
    sites, muts = [], []
    for i in range(N):
        for x, node in ((i + 0.25, 0), (i + 0.75, 1)):
            sites.append([x, "A", "s%d" % (i % 5)])
            muts.append([len(sites) - 1, node, "T", -1, None, "m%d" % (i % 3)])
    spec["sites"], spec["mutations"] = sites, muts
    ivs = [[i + 0.125, i + 0.5] for i in range(N)]
    run_intervals(dict(spec=spec, ivs=ivs, op=case["op"], simplify=case["simplify"], prov=False, bad=None,
                       via_tables=(N % 2 == 0)), ctx)
    ctx.nt(True)


SUBCHECKS = [
    SubCheck("C11.intervals", run_intervals, strategy=intervals_case, quick=1500, thorough=45000,
             rule="an interval end strictly inside an edge, or a site exactly on an interval end, or a row with "
             "non-empty edge/migration metadata clipped",
             floors={"interval_end_inside_edge": 0.15, "site_on_interval_end": 0.1, "metadata_row_clipped": 0.1,
                     "touching_intervals": 0.03, "migrations": 0.15, "simplify": 0.08, "op_delete": 0.15,
                     "edge_in_two_intervals": 0.05}),
    SubCheck("C11.trim", run_trim, strategy=trim_case, quick=1200, thorough=36000,
             rule="an empty flank is trimmed and (a site is dropped or a shifted row has metadata)",
             floors={"left_flank": 0.2, "right_flank": 0.2, "site_dropped": 0.12, "shift_with_edge_metadata": 0.12,
                     "shift_with_migration_metadata": 0.04, "site_at_leftmost": 0.06, "site_at_rightmost": 0.02}),
    SubCheck("C11.delete_sites", run_delsites, strategy=delsites_case, quick=800, thorough=24000,
             rule="a proper non-empty subset of the sites is deleted",
             floors={"duplicate_ids": 0.04, "unsorted_ids": 0.03, "parent_ids_shift": 0.04, "all": 0.03}),
    SubCheck("C11.time_edits", run_time, strategy=time_case, quick=2000, thorough=60000,
             rule="something is split/deleted and (cutoff equals a node or mutation time, or an affected "
             "edge has metadata)",
             floors={"cutoff_at_node_time": 0.12, "cutoff_at_mutation_time": 0.06, "edges_split": 0.1,
                     "split_edge_with_metadata": 0.08, "mutation_moved": 0.015, "parent_lost": 0.02,
                     "something_deleted": 0.2, "op_split_edges": 0.15, "op_decapitate": 0.15,
                     "op_delete_older": 0.15}),
    SubCheck("C11.extend_haplotypes", run_extend, strategy=extend_case, quick=1500, thorough=45000,
             rule="the edge table changed", classify=classify_extend,
             floors={"edges_changed": 0.2, "mutation_node_changed": 0.012, "known_mut_times": 0.2}),
    SubCheck("C11.extend_ladders", run_ladder, enumerate=enum_ladder, quick=1, thorough=1,
             rule="ladder tree sequences in which a unary node can be extended across 1-4 (thorough: 13) following trees, "
                  "blocked or not, mirrored or not: passes that only move edge endpoints occur"),
    SubCheck("C11.many_intervals", run_many_intervals, enumerate=enum_many_intervals, quick=1, thorough=1, shards=8,
             rule="257 and 600 (thorough: 255..1100) disjoint intervals on as many trees, sites inside and outside each"),
]

# minimal reproducer of the open finding: sample 0 under n=1 under p=2 on [0, 0.5), directly under p on
# [0.5, 1); a mutation on n at position 0.75, where n is not in the tree.  extend_haplotypes() extends
# n over [0.5, 1) and sample 0 changes from "A" to "T" at that site.
PROBES = {
    "extend_haplotypes.mutation_on_node_outside_tree": ("C11.extend_haplotypes", dict(
        spec=dict(L=1.0,
                  nodes=[[1, 0.0, -1, -1, ""], [0, 1.0, -1, -1, ""], [0, 2.0, -1, -1, ""]],
                  edges=[[0.0, 0.5, 1, 0, ""], [0.5, 1.0, 2, 0, ""], [0.0, 0.5, 2, 1, ""]],
                  sites=[[0.75, "A", ""]], mutations=[[0, 1, "T", -1, 1.5, ""]],
                  individuals=[], populations=[], migrations=[]),
        max_iter=10, default=True)),
}
