"""Naive oracles for C08.  Everything is evaluated positionally from the raw rows of a spec with
vf/model.py (parent map per elementary interval, allele per sample by walking up to the nearest
mutation); no edge sweep, no incremental state, no running sums, no sample-count propagation
shared with tskit."""
import itertools
import math

import numpy as np

from .. import model
from ..gen import F


# ------------------------------------------------------------------ geometry
def seq_len(spec):
    return F(spec["L"])


def tree_intervals(spec):
    """[(left, right, parent_map)] for every elementary interval between breakpoints."""
    bps = model.breakpoints(spec)
    return [(a, b, model.parent_at(spec, a)) for a, b in zip(bps[:-1], bps[1:])]


def overlap(a, b, c, d):
    lo, hi = max(a, c), min(b, d)
    return hi - lo if hi > lo else 0.0


def weights_below(spec, par, W):
    """Row u = sum of the rows of W of the samples at or below node u (W rows follow the
    increasing-id order of the sample nodes, which is ts.samples())."""
    n = len(par)
    W = np.asarray(W, dtype=float)
    out = np.zeros((n, W.shape[1]))
    for idx, s in enumerate(model.samples(spec)):
        v = s
        while v >= 0:
            out[v] += W[idx]
            v = par[v]
    return out


def site_states(spec, j):
    """Ancestral state followed by the distinct derived states in row order."""
    out = [spec["sites"][j][1]]
    for _, m in model.site_mutations(spec, j):
        if m[2] not in out:
            out.append(m[2])
    return out


def site_alleles(spec, j):
    """allele string carried by every sample (ts.samples() order) at site j."""
    par = model.parent_at(spec, F(spec["sites"][j][0]))
    return [model.allele_at(spec, j, u, par) for u in model.samples(spec)]


def window_of(windows, x):
    for i in range(len(windows) - 1):
        if windows[i] <= x < windows[i + 1]:
            return i
    return -1


def explicit_windows(spec, kind, windows=None):
    """The list of breakpoints that the documented shortcuts stand for."""
    L = seq_len(spec)
    if kind is None:
        return [0.0, L]
    if kind == "trees":
        return model.breakpoints(spec)
    if kind == "sites":
        pos = [F(s[0]) for s in spec["sites"]]
        if not pos:
            return [0.0, L]
        return [0.0] + pos[1:] + [L]
    return [F(x) for x in windows]


# ------------------------------------------------------------------ (A) literal definition
def general_stat(spec, W, f, m, windows, mode, polarised, span_normalise):
    """Literal evaluation of the documented definition of TreeSequence.general_stat.
    Returns (result, unsure) where `unsure` is a boolean mask over windows that contain a site
    with a listed allelic state carried by no sample (site mode only; whether f(0) of such a
    state is added is not documented, which matters only for non-strict f)."""
    W = np.asarray(W, dtype=float)
    nw = len(windows) - 1
    n = len(spec["nodes"])
    total = W.sum(axis=0) if W.shape[0] else np.zeros(W.shape[1])
    unsure = np.zeros(nw, dtype=bool)

    def fv(x):
        return np.asarray(f(np.array(x, dtype=float)), dtype=float).reshape(m)

    if mode == "site":
        out = np.zeros((nw, m))
        for j, s in enumerate(spec["sites"]):
            w = window_of(windows, F(s[0]))
            if w < 0:
                continue
            states = site_states(spec, j)
            carried = site_alleles(spec, j)
            for k, a in enumerate(states):
                if a not in carried:
                    unsure[w] = True
                if polarised and k == 0:
                    continue
                wt = np.zeros(W.shape[1])
                for idx, c in enumerate(carried):
                    if c == a:
                        wt = wt + W[idx]
                out[w] += fv(wt)
    elif mode == "branch":
        out = np.zeros((nw, m))
        for a, b, par in tree_intervals(spec):
            wb = weights_below(spec, par, W)
            tree_sum = np.zeros(m)
            for u in range(n):
                if par[u] < 0:
                    continue
                bl = model.time(spec, par[u]) - model.time(spec, u)
                s = fv(wb[u])
                if not polarised:
                    s = s + fv(total - wb[u])
                tree_sum = tree_sum + bl * s
            for w in range(nw):
                ov = overlap(a, b, windows[w], windows[w + 1])
                if ov > 0:
                    out[w] += tree_sum * ov
    elif mode == "node":
        out = np.zeros((nw, n, m))
        for a, b, par in tree_intervals(spec):
            wb = weights_below(spec, par, W)
            summ = np.zeros((n, m))
            for u in range(n):
                s = fv(wb[u])
                if not polarised:
                    s = s + fv(total - wb[u])
                summ[u] = s
            for w in range(nw):
                ov = overlap(a, b, windows[w], windows[w + 1])
                if ov > 0:
                    out[w] += summ * ov
    else:
        raise AssertionError(mode)
    if span_normalise:
        for w in range(nw):
            out[w] = out[w] / (windows[w + 1] - windows[w])
    return out, unsure


def indicator_weights(spec, sample_sets):
    smp = model.samples(spec)
    return np.array([[1.0 if u in A else 0.0 for A in sample_sets] for u in smp]).reshape(
        len(smp), len(sample_sets))


def combine_refinement(fine, fine_windows, coarse_windows, span_normalise):
    """Span-weighted combination of the rows of `fine` into the coarse windows."""
    fine = np.asarray(fine, dtype=float)
    out = np.zeros((len(coarse_windows) - 1,) + fine.shape[1:])
    for i in range(len(coarse_windows) - 1):
        a, b = coarse_windows[i], coarse_windows[i + 1]
        for k in range(len(fine_windows) - 1):
            c, d = fine_windows[k], fine_windows[k + 1]
            if a <= c and d <= b:
                out[i] = out[i] + (fine[k] * (d - c) if span_normalise else fine[k])
        if span_normalise:
            out[i] = out[i] / (b - a)
    return out


# ------------------------------------------------------------------ (B) summary functions of docs/stats.md
def _div(a, b):
    with np.errstate(divide="ignore", invalid="ignore"):
        return np.asarray(a, dtype=float) / np.asarray(b, dtype=float)


def summary_function(name, n, indexes=None, centre=True):
    """(f, output_dim, degenerate) for the sample-count statistics exactly as printed in
    docs/stats.md 'Summary functions'.  n = sample set sizes; indexes = list of k-tuples.
    degenerate[c] is True when the printed formula of column c has a zero denominator."""
    n = np.asarray(n, dtype=float)
    idx = [tuple(t) for t in indexes] if indexes is not None else None

    if name == "diversity":
        return (lambda x: _div(x * (n - x), n * (n - 1))), len(n), n < 2
    if name == "segregating_sites":
        return (lambda x: (x > 0) * (1 - x / n)), len(n), np.zeros(len(n), dtype=bool)
    if name == "Y1":
        return (lambda x: _div(x * (n - x) * (n - x - 1), n * (n - 1) * (n - 2))), len(n), n < 3

    def per_tuple(g, deg):
        def f(x):
            return np.array([g(x, t) for t in idx], dtype=float)

        return f, len(idx), np.array([bool(deg(t)) for t in idx])

    if name == "divergence":
        def g(x, t):
            i, j = t
            if i == j:  # "unless the two indices are the same, when the diversity function is used"
                return _div(x[i] * (n[i] - x[i]), n[i] * (n[i] - 1))
            return x[i] * (n[j] - x[j]) / (n[i] * n[j])

        return per_tuple(g, lambda t: t[0] == t[1] and n[t[0]] < 2)
    if name == "genetic_relatedness":
        if centre:
            # m = mean over the sample sets of the frequency x_k / n_k (docs: "p-bar is the average
            # derived allele frequency across sample sets"; docstring: S, T uniformly chosen sets)
            def g(x, t):
                mm = np.mean(x / n)
                return (x[t[0]] / n[t[0]] - mm) * (x[t[1]] / n[t[1]] - mm)
        else:
            def g(x, t):
                return (x[t[0]] / n[t[0]]) * (x[t[1]] / n[t[1]])
        return per_tuple(g, lambda t: False)
    if name == "Y2":
        def g(x, t):
            i, j = t
            return _div(x[i] * (n[j] - x[j]) * (n[j] - x[j] - 1), n[i] * n[j] * (n[j] - 1))

        return per_tuple(g, lambda t: n[t[1]] < 2)
    if name == "f2":
        def g(x, t):
            i, j = t
            d = n[i] * (n[i] - 1) * n[j] * (n[j] - 1)
            return _div(x[i] * (x[i] - 1) * (n[j] - x[j]) * (n[j] - x[j] - 1), d) - _div(
                x[i] * (n[i] - x[i]) * (n[j] - x[j]) * x[j], d)

        return per_tuple(g, lambda t: n[t[0]] < 2 or n[t[1]] < 2)
    if name == "Y3":
        def g(x, t):
            i, j, k = t
            return x[i] * (n[j] - x[j]) * (n[k] - x[k]) / (n[i] * n[j] * n[k])

        return per_tuple(g, lambda t: False)
    if name == "f3":
        def g(x, t):
            i, j, k = t
            d = n[i] * (n[i] - 1) * n[j] * n[k]
            return _div(x[i] * (x[i] - 1) * (n[j] - x[j]) * (n[k] - x[k]), d) - _div(
                x[i] * (n[i] - x[i]) * (n[j] - x[j]) * x[k], d)

        return per_tuple(g, lambda t: n[t[0]] < 2)
    if name == "f4":
        def g(x, t):
            i, j, k, l = t
            d = n[i] * n[j] * n[k] * n[l]
            return (x[i] * x[k] * (n[j] - x[j]) * (n[l] - x[l]) / d
                    - x[i] * x[l] * (n[j] - x[j]) * (n[k] - x[k]) / d)

        return per_tuple(g, lambda t: False)
    raise AssertionError(name)


ARITY = dict(diversity=1, segregating_sites=1, Y1=1, divergence=2, genetic_relatedness=2, Y2=2, f2=2,
             Y3=3, f3=3, f4=4, Fst=2, Tajimas_D=1)


def sample_count_named(spec, name, sets, indexes, windows, mode, span_normalise, polarised=False,
                       centre=True):
    n = [len(s) for s in sets]
    f, m, deg = summary_function(name, n, indexes, centre)
    W = indicator_weights(spec, sets)
    out, _ = general_stat(spec, W, f, m, windows, mode, polarised, span_normalise)
    return out, deg


# ------------------------------------------------------------------ (C) enumeration of sample tuples
def carrier_sets(spec, windows, mode, polarised):
    """Yields (window, weight, frozenset of nodes 'inheriting'): site mode = one entry per allelic
    state of every site (ancestral left out when polarised) with the nodes carrying it; branch mode =
    one entry per branch (node with a parent) per tree-window overlap with the nodes at or below
    it, plus the complementary node set when not polarised."""
    n = len(spec["nodes"])
    allnodes = frozenset(range(n))
    if mode == "site":
        for j, s in enumerate(spec["sites"]):
            w = window_of(windows, F(s[0]))
            if w < 0:
                continue
            par = model.parent_at(spec, F(s[0]))
            al = [model.allele_at(spec, j, u, par) for u in range(n)]
            for k, a in enumerate(site_states(spec, j)):
                if polarised and k == 0:
                    continue
                yield w, 1.0, frozenset(u for u in range(n) if al[u] == a)
    else:
        for a, b, par in tree_intervals(spec):
            ch = model.children_of(par)
            for w in range(len(windows) - 1):
                ov = overlap(a, b, windows[w], windows[w + 1])
                if ov <= 0:
                    continue
                for u in range(n):
                    if par[u] < 0:
                        continue
                    bl = model.time(spec, par[u]) - model.time(spec, u)
                    B = frozenset(model.descendants(ch, u))
                    yield w, bl * ov, B
                    if not polarised:
                        yield w, bl * ov, allnodes - B


def _tuples(name, sets, t):
    """Sample tuples averaged over by the docstrings (draws from the same argument position
    of a statistic are without replacement)."""
    if name == "diversity":
        X = sets[t[0]]
        return [(a, b) for a in X for b in X if a != b]
    if name == "divergence":
        if t[0] == t[1]:
            X = sets[t[0]]
            return [(a, b) for a in X for b in X if a != b]
        return list(itertools.product(sets[t[0]], sets[t[1]]))
    if name == "Y1":
        X = sets[t[0]]
        return [c for c in itertools.permutations(X, 3)]
    if name == "Y2":
        return [(a, b1, b2) for a in sets[t[0]] for b1, b2 in itertools.permutations(sets[t[1]], 2)]
    if name == "Y3":
        return list(itertools.product(sets[t[0]], sets[t[1]], sets[t[2]]))
    if name == "f4":
        return list(itertools.product(sets[t[0]], sets[t[1]], sets[t[2]], sets[t[3]]))
    if name == "f3":  # (a1, b; a2, c)
        return [(a1, b, a2, c) for a1, a2 in itertools.permutations(sets[t[0]], 2)
                for b in sets[t[1]] for c in sets[t[2]]]
    if name == "f2":  # (a1, b1; a2, b2)
        return [(a1, b1, a2, b2) for a1, a2 in itertools.permutations(sets[t[0]], 2)
                for b1, b2 in itertools.permutations(sets[t[1]], 2)]
    raise AssertionError(name)


def _pattern(name, tup, B):
    if name in ("diversity", "divergence"):
        a, b = tup
        return float(a in B and b not in B)
    if name in ("Y1", "Y2", "Y3"):
        a, b, c = tup
        return float(a in B and b not in B and c not in B)
    a, b, c, d = tup  # f-statistics on (a, b; c, d)
    return float(a in B and c in B and b not in B and d not in B) - float(
        a in B and d in B and b not in B and c not in B)


def tuple_stat(spec, name, sets, indexes, windows, mode, span_normalise):
    """Docstring definitions of diversity/divergence/Y1-3/f2-4 (unpolarised, site or branch mode):
    average over sample tuples of the number of alleles (area of branches) inherited by exactly the
    stated members of the tuple.  Returns (result, degenerate columns)."""
    nw = len(windows) - 1
    idx = [tuple(t) for t in indexes]
    out = np.zeros((nw, len(idx)))
    tl = [_tuples(name, sets, t) for t in idx]
    deg = np.array([len(x) == 0 for x in tl])
    for w, wt, B in carrier_sets(spec, windows, mode, False):
        for c, tups in enumerate(tl):
            if not tups:
                continue
            out[w, c] += wt * sum(_pattern(name, tup, B) for tup in tups) / len(tups)
    if span_normalise:
        for w in range(nw):
            out[w] /= windows[w + 1] - windows[w]
    return out, deg


def genotype_diversity(spec, sets, indexes, windows, span_normalise):
    """Site diversity/divergence as the mean number of sites at which two samples carry different
    alleles (oracle genotypes), independent of allele bookkeeping."""
    nw = len(windows) - 1
    smp = model.samples(spec)
    out = np.zeros((nw, len(indexes)))
    for j, s in enumerate(spec["sites"]):
        w = window_of(windows, F(s[0]))
        if w < 0:
            continue
        al = dict(zip(smp, site_alleles(spec, j)))
        for c, (i, k) in enumerate(indexes):
            pairs = ([(a, b) for a in sets[i] for b in sets[i] if a != b] if i == k
                     else [(a, b) for a in sets[i] for b in sets[k]])
            if pairs:
                out[w, c] += sum(al[a] != al[b] for a, b in pairs) / len(pairs)
    if span_normalise:
        for w in range(nw):
            out[w] /= windows[w + 1] - windows[w]
    return out


def genotype_segsites(spec, sets, windows, span_normalise):
    nw = len(windows) - 1
    smp = model.samples(spec)
    out = np.zeros((nw, len(sets)))
    for j, s in enumerate(spec["sites"]):
        w = window_of(windows, F(s[0]))
        if w < 0:
            continue
        al = dict(zip(smp, site_alleles(spec, j)))
        for c, X in enumerate(sets):
            out[w, c] += len({al[u] for u in X}) - 1
    if span_normalise:
        for w in range(nw):
            out[w] /= windows[w + 1] - windows[w]
    return out


def relatedness_pairs(spec, sets, indexes, windows, mode, span_normalise, polarised, centre):
    """genetic_relatedness docstring: m(I,J) = mean over u in I, v in J of the number of alleles
    (area of branches) inherited by both; centred: E[m(I,J) - m(I,S) - m(J,T) + m(S,T)] with S, T
    independent uniform choices among the sample sets."""
    nw = len(windows) - 1
    K = len(sets)
    M = np.zeros((nw, K, K))
    for w, wt, B in carrier_sets(spec, windows, mode, polarised):
        p = np.array([sum(u in B for u in X) / len(X) for X in sets])
        M[w] += wt * np.outer(p, p)
    out = np.zeros((nw, len(indexes)))
    for c, (i, j) in enumerate(indexes):
        if centre:
            out[:, c] = (M[:, i, j] - M[:, i, :].mean(axis=1) - M[:, j, :].mean(axis=1)
                         + M.mean(axis=(1, 2)))
        else:
            out[:, c] = M[:, i, j]
    if span_normalise:
        for w in range(nw):
            out[w] /= windows[w + 1] - windows[w]
    return out


def tajimas_d(T, S, n):
    """Docstring formula; T, S with the sample-set axis last.  Returns (D, radicand)."""
    n = np.asarray(n, dtype=float)
    with np.errstate(divide="ignore", invalid="ignore"):
        h = np.array([sum(1 / i for i in range(1, int(nn))) for nn in n])
        g = np.array([sum(1 / i ** 2 for i in range(1, int(nn))) for nn in n])
        a = (n + 1) / (3 * (n - 1) * h) - 1 / h ** 2
        b = 2 * (n ** 2 + n + 3) / (9 * n * (n - 1)) - (n + 2) / (h * n) + g / h ** 2
        c = h ** 2 + g
        rad = a * S + (b / c) * S * (S - 1)
        D = (T - S / h) / np.sqrt(rad)
    return D, rad


# ------------------------------------------------------------------ allele frequency spectrum
def mirror(c, dims):
    return tuple(d - 1 - x for x, d in zip(c, dims))


def afs_unfolded(spec, sets, windows, mode, polarised, span_normalise):
    """Direct tabulation following docs/stats.md 'Allele frequency spectrum'.  Site mode: every
    allelic state of every site (ancestral left out when polarised) inherited by at least one
    and not all samples of the tree sequence adds 1 (polarised) or one half (unpolarised) at the
    coordinate (count in set 0, count in set 1, ...).  Branch mode: every branch above at least
    one and not all samples adds its area.  The unpolarised spectrum returned here is NOT yet
    folded (see fold_1d / symmetrise)."""
    nw = len(windows) - 1
    dims = [len(s) + 1 for s in sets]
    out = np.zeros([nw] + dims)
    smp = set(model.samples(spec))
    N = len(smp)
    pol_iter = True if mode == "branch" else polarised
    unit = 1.0 if (mode == "branch" or polarised) else 0.5
    for w, wt, B in carrier_sets(spec, windows, mode, pol_iter):
        tot = len(B & smp)
        if not (0 < tot < N):
            continue
        c = tuple(sum(1 for u in s if u in B) for s in sets)
        out[(w,) + c] += wt * unit
    if span_normalise:
        for w in range(nw):
            out[w] /= windows[w + 1] - windows[w]
    return out


def fold_1d(a):
    """afs[j] and afs[n-j] both add to entry min(j, n-j)."""
    a = np.asarray(a, dtype=float)
    n = a.shape[-1] - 1
    out = np.zeros(a.shape)
    for j in range(n + 1):
        out[..., min(j, n - j)] += a[..., j]
    return out


def symmetrise(a):
    """Sum of every entry with its mirror image (windows axis first); invariant under any
    folding rule that moves an allele either to its coordinate or to the mirrored one."""
    a = np.asarray(a, dtype=float)
    dims = a.shape[1:]
    out = np.zeros(a.shape)
    for c in itertools.product(*[range(d) for d in dims]):
        mc = mirror(c, dims)
        if mc == c:
            out[(slice(None),) + c] = a[(slice(None),) + c]
        else:
            out[(slice(None),) + c] = a[(slice(None),) + c] + a[(slice(None),) + mc]
    return out


def upper_half_mask(dims):
    """Coordinates whose total count exceeds half of the total sample-set size."""
    half = sum(d - 1 for d in dims) / 2
    m = np.zeros(dims, dtype=bool)
    for c in itertools.product(*[range(d) for d in dims]):
        if sum(c) > half:
            m[c] = True
    return m


# ------------------------------------------------------------------ weighted statistics
def trait_covariance(spec, W, windows, mode, span_normalise):
    W = np.asarray(W, dtype=float)
    n = W.shape[0]
    Wc = W - W.mean(axis=0)
    f = lambda x: x * x / (2 * (n - 1) ** 2)  # noqa: E731
    return general_stat(spec, Wc, f, W.shape[1], windows, mode, False, span_normalise)[0]


def trait_correlation(spec, W, windows, mode, span_normalise):
    W = np.asarray(W, dtype=float)
    n, k = W.shape
    Wn = (W - W.mean(axis=0)) / np.std(W, axis=0, ddof=1)
    WW = np.column_stack([Wn, np.ones(n)])

    def f(x):
        cnt = x[k]
        if cnt <= 0.5 or cnt >= n - 0.5:  # the printed formula is 0/0 there; strictness: f(0)=f(n)=0
            return np.zeros(k)
        return x[:k] ** 2 / (2 * cnt * (1 - cnt / n) * (n - 1))

    return general_stat(spec, WW, f, k, windows, mode, False, span_normalise)[0]


def relatedness_weighted(spec, W, indexes, windows, mode, span_normalise, polarised, centre):
    W = np.asarray(W, dtype=float)
    n, k = W.shape
    tot = W.sum(axis=0)
    WW = np.column_stack([W, np.full(n, 1.0 / n)])

    def f(x):
        p = x[k]
        if centre:
            return np.array([(x[i] - tot[i] * p) * (x[j] - tot[j] * p) for i, j in indexes])
        return np.array([x[i] * x[j] for i, j in indexes])

    return general_stat(spec, WW, f, len(indexes), windows, mode, polarised, span_normalise)[0]


def linear_model_b1sq(g, w, Z):
    """Squared coefficient of g in the least-squares fit w ~ 1 + g + Z (docstring of
    trait_linear_model); 0 when g lies in the span of [1, Z].  Returns (b1^2, |residual of g|^2)."""
    n = len(g)
    X0 = np.column_stack([np.ones(n)] + ([Z] if Z is not None and Z.shape[1] else []))
    coef = np.linalg.lstsq(X0, g, rcond=None)[0]
    r = g - X0 @ coef
    rr = float(r @ r)
    if rr < 1e-9:
        return 0.0, rr
    X = np.column_stack([g, X0])
    b = np.linalg.lstsq(X, w, rcond=None)[0]
    return float(b[0] ** 2), rr


def trait_linear_model(spec, W, Z, windows, mode, span_normalise):
    """Returns (result, min nonzero |residual|^2 met) by direct least squares per allele /
    branch / node."""
    W = np.asarray(W, dtype=float)
    n, k = W.shape
    Zm = None if Z is None else np.asarray(Z, dtype=float).reshape(n, -1)
    worst = [np.inf]
    cache = {}

    def b1(gkey):
        if gkey not in cache:
            g = np.array(gkey, dtype=float)
            vals = []
            for c in range(k):
                v, rr = linear_model_b1sq(g, W[:, c], Zm)
                if rr >= 1e-9:
                    worst[0] = min(worst[0], rr)
                vals.append(v / 2)
            cache[gkey] = np.array(vals)
        return cache[gkey]

    def f(x):  # x = indicator counts per sample (identity weights)
        return b1(tuple(int(round(v)) for v in x))

    I = np.eye(n)
    out = general_stat(spec, I, f, k, windows, mode, False, span_normalise)[0]
    return out, worst[0]


def relatedness_matrix_nodes(spec, nodes, windows, mode, span_normalise, polarised=True):
    """Uncentred C[w, i, b] = total weight of alleles / area of branches inherited by both
    nodes[i] and sample b."""
    smp = model.samples(spec)
    nw = len(windows) - 1
    C = np.zeros((nw, len(nodes), len(smp)))
    for w, wt, B in carrier_sets(spec, windows, mode, polarised):
        rows = np.array([1.0 if u in B else 0.0 for u in nodes])
        cols = np.array([1.0 if u in B else 0.0 for u in smp])
        C[w] += wt * np.outer(rows, cols)
    if span_normalise:
        for w in range(nw):
            C[w] /= windows[w + 1] - windows[w]
    return C


# ------------------------------------------------------------------ (C) divergence_matrix, GNN, mean_descendants
def divergence_matrix(spec, sets, windows, mode, span_normalise):
    """D[w, i, j] = divergence between sets i and j (mean over pairs of alleles differing / branch
    area separating); D[w, i, i] = the same over distinct pairs within set i (nan if |set| < 2)."""
    K = len(sets)
    idx = [(i, j) for i in range(K) for j in range(K)]
    flat, _ = tuple_stat(spec, "divergence", sets, idx, windows, mode, span_normalise)
    D = flat.reshape(len(windows) - 1, K, K)
    for i in range(K):
        if len(sets[i]) < 2:
            D[:, i, i] = np.nan
    return D


def gnn(spec, focal, ref_sets):
    """Docstring of genealogical_nearest_neighbours: per tree, walk up from the focal node to the
    first node that has a reference-set member other than the focal node at or below it; the
    proportions of the reference sets among those members (focal excluded), averaged over the
    trees where such a node exists, weighted by span."""
    out = np.zeros((len(focal), len(ref_sets)))
    total = np.zeros(len(focal))
    allref = set(u for s in ref_sets for u in s)
    for a, b, par in tree_intervals(spec):
        ch = model.children_of(par)
        for fi, u in enumerate(focal):
            p = u
            found = None
            while p >= 0:
                below = [v for v in model.descendants(ch, p) if v in allref and v != u]
                if below:
                    found = below
                    break
                p = par[p]
            if found is None:
                continue
            total[fi] += b - a
            for k, s in enumerate(ref_sets):
                out[fi, k] += (b - a) * sum(1 for v in found if v in s) / len(found)
    for fi in range(len(focal)):
        if total[fi] > 0:
            out[fi] /= total[fi]
    return out


def mean_descendants(spec, ref_sets):
    """(numerator[node, k], span with any reference member at/below, span with any sample of
    the tree sequence at/below)."""
    n = len(spec["nodes"])
    num = np.zeros((n, len(ref_sets)))
    den_ref = np.zeros(n)
    den_smp = np.zeros(n)
    allref = set(u for s in ref_sets for u in s)
    smp = set(model.samples(spec))
    for a, b, par in tree_intervals(spec):
        ch = model.children_of(par)
        for v in range(n):
            below = model.descendants(ch, v)
            for k, s in enumerate(ref_sets):
                num[v, k] += (b - a) * sum(1 for x in below if x in s)
            if any(x in allref for x in below):
                den_ref[v] += b - a
            if any(x in smp for x in below):
                den_smp[v] += b - a
    return num, den_ref, den_smp


# ------------------------------------------------------------------ pair coalescence counts
def pair_coalescence_counts(spec, sets, indexes, windows, bins, nbins, span_normalise, pair_normalise):
    """out[w, i, bin] = sum over trees of span x number of sample pairs (one from each set of the
    index pair; unordered distinct pairs within one set) whose MRCA is a node mapped to `bin`."""
    nw = len(windows) - 1
    out = np.zeros((nw, len(indexes), nbins))
    for a, b, par in tree_intervals(spec):
        for w in range(nw):
            ov = overlap(a, b, windows[w], windows[w + 1])
            if ov <= 0:
                continue
            for c, (i, j) in enumerate(indexes):
                if i == j:
                    pairs = list(itertools.combinations(sets[i], 2))
                else:
                    pairs = list(itertools.product(sets[i], sets[j]))
                for u, v in pairs:
                    m = model.mrca(par, u, v)
                    if m >= 0 and bins[m] >= 0:
                        out[w, c, bins[m]] += ov
    for c, (i, j) in enumerate(indexes):
        tot = len(sets[i]) * (len(sets[i]) - 1) / 2 if i == j else len(sets[i]) * len(sets[j])
        if pair_normalise:
            out[:, c, :] = out[:, c, :] / tot if tot > 0 else 0.0
    if span_normalise:
        # documented: "divide the result by the span of non-missing sequence in the window";
        # missing sequence = trees without any edge.  A window with no non-missing sequence gives 0.
        for w in range(nw):
            eff = nonmissing_span(spec, windows[w], windows[w + 1])
            out[w] = out[w] / eff if eff > 0 else 0.0
    return out


def nonmissing_span(spec, a, b):
    """Length of [a, b) covered by trees that have at least one edge."""
    tot = 0.0
    for l, r, par in tree_intervals(spec):
        if any(p >= 0 for p in par):
            tot += max(0.0, overlap(l, r, a, b))
    return tot


def combine_refinement_nonmissing(spec, fine, fine_windows, coarse_windows):
    """Refinement law for statistics normalised by non-missing span."""
    fine = np.asarray(fine, dtype=float)
    out = np.zeros((len(coarse_windows) - 1,) + fine.shape[1:])
    for i in range(len(coarse_windows) - 1):
        a, b = coarse_windows[i], coarse_windows[i + 1]
        for k in range(len(fine_windows) - 1):
            c, d = fine_windows[k], fine_windows[k + 1]
            if a <= c and d <= b:
                out[i] = out[i] + fine[k] * nonmissing_span(spec, c, d)
        eff = nonmissing_span(spec, a, b)
        out[i] = out[i] / eff if eff > 0 else 0.0
    return out


# ------------------------------------------------------------------ LD, KC, RF
def r2(spec, a, b):
    """D^2 / (pA qA pB qB) from the oracle genotypes of two biallelic sites (all samples)."""
    ga = [x != spec["sites"][a][1] for x in site_alleles(spec, a)]
    gb = [x != spec["sites"][b][1] for x in site_alleles(spec, b)]
    n = len(ga)
    fa, fb = sum(ga) / n, sum(gb) / n
    fab = sum(1 for x, y in zip(ga, gb) if x and y) / n
    den = fa * fb * (1 - fa) * (1 - fb)
    D = fab - fa * fb
    if den == 0:
        return None
    return D * D / den


def kc_vector(spec, par, lambda_):
    smp = model.samples(spec)
    root = [u for u in range(len(par)) if par[u] < 0 and model.num_samples_below(spec, par)[u] > 0]
    assert len(root) == 1
    root = root[0]
    vec = []
    for i in range(len(smp)):
        for j in range(i + 1, len(smp)):
            m = model.mrca(par, smp[i], smp[j])
            vec.append((1 - lambda_) * model.depth(par, m) + lambda_ * (model.time(spec, root) - model.time(spec, m)))
    for u in smp:
        bl = model.time(spec, par[u]) - model.time(spec, u) if par[u] >= 0 else 0.0
        vec.append((1 - lambda_) * 1 + lambda_ * bl)
    return np.array(vec)


def kc_distance(spec1, par1, spec2, par2, lambda_):
    d = kc_vector(spec1, par1, lambda_) - kc_vector(spec2, par2, lambda_)
    return math.sqrt(float(d @ d))


def clades(spec, par):
    """Distinct sample sets below the nodes reachable from the root(s)."""
    ch = model.children_of(par)
    ns = model.num_samples_below(spec, par)
    out = set()
    for r in range(len(par)):
        if par[r] < 0 and ns[r] > 0:
            for u in model.descendants(ch, r):
                out.add(frozenset(v for v in model.descendants(ch, u) if model.is_sample(spec, v)))
    return out
