"""Naive oracles for C08.  Everything is evaluated positionally from the raw rows of a spec with
vf/model.py (parent map per elementary interval, allele per sample by walking up to the nearest
mutation); no edge sweep, no incremental state, no running sums, no sample-count propagation
shared with tskit."""
import itertools
import math

import numpy as np

from .. import model
from ..gen import F


# ------------------------------------------------------------------ geometry
def seq_len(spec):
    return F(spec["L"])


def tree_intervals(spec):
    """[(left, right, parent_map)] for every elementary interval between breakpoints."""
    bps = model.breakpoints(spec)
    return [(a, b, model.parent_at(spec, a)) for a, b in zip(bps[:-1], bps[1:])]


def overlap(a, b, c, d):
    lo, hi = max(a, c), min(b, d)
    return hi - lo if hi > lo else 0.0


def weights_below(spec, par, W):
    """Row u = sum of the rows of W of the samples at or below node u (W rows follow the
    increasing-id order of the sample nodes, which is ts.samples())."""
    n = len(par)
    W = np.asarray(W, dtype=float)
    out = np.zeros((n, W.shape[1]))
    for idx, s in enumerate(model.samples(spec)):
        v = s
        while v >= 0:
            out[v] += W[idx]
            v = par[v]
    return out


def site_states(spec, j):
    """Ancestral state followed by the distinct derived states in row order."""
    out = [spec["sites"][j][1]]
    for _, m in model.site_mutations(spec, j):
        if m[2] not in out:
            out.append(m[2])
    return out


def site_alleles(spec, j):
    """allele string carried by every sample (ts.samples() order) at site j."""
    par = model.parent_at(spec, F(spec["sites"][j][0]))
    return [model.allele_at(spec, j, u, par) for u in model.samples(spec)]


def window_of(windows, x):
    for i in range(len(windows) - 1):
        if windows[i] <= x < windows[i + 1]:
            return i
    return -1


def explicit_windows(spec, kind, windows=None):
    """The list of breakpoints that the documented shortcuts stand for."""
    L = seq_len(spec)
    if kind is None:
        return [0.0, L]
    if kind == "trees":
        return model.breakpoints(spec)
    if kind == "sites":
        pos = [F(s[0]) for s in spec["sites"]]
        if not pos:
            return [0.0, L]
        return [0.0] + pos[1:] + [L]
    return [F(x) for x in windows]


# ------------------------------------------------------------------ (A) literal definition
def general_stat(spec, W, f, m, windows, mode, polarised, span_normalise):
    """Literal evaluation of the documented definition of TreeSequence.general_stat.
    Returns (result, unsure) where `unsure` is a boolean mask over windows that contain a site
    with a listed allelic state carried by no sample (site mode only; whether f(0) of such a
    state is added is not documented, which matters only for non-strict f)."""
    W = np.asarray(W, dtype=float)
    nw = len(windows) - 1
    n = len(spec["nodes"])
    total = W.sum(axis=0) if W.shape[0] else np.zeros(W.shape[1])
    unsure = np.zeros(nw, dtype=bool)

    def fv(x):
        return np.asarray(f(np.array(x, dtype=float)), dtype=float).reshape(m)

    if mode == "site":
        out = np.zeros((nw, m))
        for j, s in enumerate(spec["sites"]):
            w = window_of(windows, F(s[0]))
            if w < 0:
                continue
            states = site_states(spec, j)
            carried = site_alleles(spec, j)
            for k, a in enumerate(states):
                if a not in carried:
                    unsure[w] = True
                if polarised and k == 0:
                    continue
                wt = np.zeros(W.shape[1])
                for idx, c in enumerate(carried):
                    if c == a:
                        wt = wt + W[idx]
                out[w] += fv(wt)
    elif mode == "branch":
        out = np.zeros((nw, m))
        for a, b, par in tree_intervals(spec):
            wb = weights_below(spec, par, W)
            tree_sum = np.zeros(m)
            for u in range(n):
                if par[u] < 0:
                    continue
                bl = model.time(spec, par[u]) - model.time(spec, u)
                s = fv(wb[u])
                if not polarised:
                    s = s + fv(total - wb[u])
                tree_sum = tree_sum + bl * s
            for w in range(nw):
                ov = overlap(a, b, windows[w], windows[w + 1])
                if ov > 0:
                    out[w] += tree_sum * ov
    elif mode == "node":
        out = np.zeros((nw, n, m))
        for a, b, par in tree_intervals(spec):
            wb = weights_below(spec, par, W)
            summ = np.zeros((n, m))
            for u in range(n):
                s = fv(wb[u])
                if not polarised:
                    s = s + fv(total - wb[u])
                summ[u] = s
            for w in range(nw):
                ov = overlap(a, b, windows[w], windows[w + 1])
                if ov > 0:
                    out[w] += summ * ov
    else:
        raise AssertionError(mode)
    if span_normalise:
        for w in range(nw):
            out[w] = out[w] / (windows[w + 1] - windows[w])
    return out, unsure


def indicator_weights(spec, sample_sets):
    smp = model.samples(spec)
    return np.array([[1.0 if u in A else 0.0 for A in sample_sets] for u in smp]).reshape(
        len(smp), len(sample_sets))


def combine_refinement(fine, fine_windows, coarse_windows, span_normalise):
    """Span-weighted combination of the rows of `fine` into the coarse windows."""
    fine = np.asarray(fine, dtype=float)
    out = np.zeros((len(coarse_windows) - 1,) + fine.shape[1:])
    for i in range(len(coarse_windows) - 1):
        a, b = coarse_windows[i], coarse_windows[i + 1]
        for k in range(len(fine_windows) - 1):
            c, d = fine_windows[k], fine_windows[k + 1]
            if a <= c and d <= b:
                out[i] = out[i] + (fine[k] * (d - c) if span_normalise else fine[k])
        if span_normalise:
            out[i] = out[i] / (b - a)
    return out
